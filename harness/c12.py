"""C12 -- a shuffle is a permutation that co-locates equal keys consistently across frames."""
import math
import operator

import common
import c12_joins
from e2e import try_
from common import sx, Some


def selections(n_out, rng, quick):
    """Output-partition subsets: all, singletons (a few), prefix, every 3rd, reversed, repeated."""
    full = list(range(n_out))
    out = [None]  # None = unfiltered
    if n_out >= 2:
        out += [[0], [n_out - 1], full[: max(1, n_out // 2)], full[::3], full[::-1]]
        out.append([full[i] for i in sorted(rng.sample(range(n_out), max(1, min(n_out, 4))))])
        if not quick:
            out += [[n_out - 1, 0, 0], full[1::2]]
    return out


def canon_shuffle_layer(node, layer):
    """Real SimpleShuffle/TaskShuffle _layer dict -> the model's (stages, regroup) vocabulary."""
    from dask.dataframe.core import _concat
    from dask.dataframe.shuffle import shuffle_group_2, shuffle_group_get
    own = node._name
    frame = node.frame._name
    names = []  # stage names in order of first appearance among 2-tuple keys produced by _concat
    for k, t in layer.items():
        if isinstance(k, tuple) and len(k) == 2 and isinstance(t, tuple) and t and t[0] is _concat:
            if k[0] not in names:
                names.append(k[0])
    for nm in names:
        assert nm == own or (nm.startswith("stage-") and nm.endswith("-" + own)), ("stage name not derived from own name", nm, own)
    stages = []
    prev = frame
    for nm in names:
        gname, sname = "group-" + nm, "split-" + nm
        outs_keys = sorted((k for k in layer if len(k) == 2 and k[0] == nm), key=lambda k: k[1])
        assert [k[1] for k in outs_keys] == list(range(len(outs_keys)))
        groups = {}
        kk = None
        for k, t in layer.items():
            if k[0] == gname and len(k) == 2:
                fn, inkey, flt, cols, stage, kk_, npart, ign, nfinal = t
                assert fn == node._shuffle_group and cols == node.partitioning_index and ign == node.ignore_index, t
                kk = kk_
                groups[k[1]] = (inkey, flt, stage, kk_, npart, nfinal)
        def idx(inp):
            if isinstance(inp, tuple):
                return sum(d * kk ** j for j, d in enumerate(inp))
            return inp
        outs = []
        for ok in outs_keys:
            t = layer[ok]
            assert t[0] is _concat and t[2] == node.ignore_index
            pieces = []
            for sk in t[1]:
                assert sk[0] == sname and len(sk) == 3
                st = layer[sk]
                assert st[0] is operator.getitem and st[1] == (gname, sk[2]) and st[2] == sk[1], st
                pieces.append([sk[1], idx(sk[2])])
            outs.append(pieces)
        glist = []
        for inp, (inkey, flt, stage, kk_, npart, nfinal) in groups.items():
            if len(inkey) == 3:
                assert inkey == (gname, inp, "empty")
                src = None
            else:
                assert inkey[0] == prev, (inkey, prev)
                src = Some(inkey[1])
            glist.append([idx(inp), [src, None if flt is None else Some(sorted(set(flt))), stage, kk_, npart, nfinal]])
        glist.sort(key=lambda g: g[0])
        stages.append([outs, None, glist])  # parts filled by caller
        prev = nm
    # regroup
    rg = "noregroup"
    rgk = [k for k in layer if isinstance(k[0], str) and k[0].startswith("repartition-group-")]
    if rgk:
        rname = rgk[0][0]
        assert rname == "repartition-group-" + names[-1]
        n_in = len(rgk)
        for k in rgk:
            t = layer[k]
            assert t[0] in (shuffle_group_2, getattr(node, "_shuffle_group_2", None)) and t[1] == (names[-1], k[1]) and t[2] == node.partitioning_index and t[3] == node.ignore_index
            n_out = t[4]
        gets = []
        ks = sorted((k for k in layer if k[0] == own and len(k) == 2), key=lambda k: k[1])
        for k in ks:
            t = layer[k]
            assert t[0] is shuffle_group_get and t[1][0] == rname
            gets.append([t[1][1], t[2]])
        rg = ["regroup", n_in, n_out, gets]
    known = set()
    for nm in names:
        known |= {nm, "group-" + nm, "split-" + nm}
    if rgk:
        known.add(rgk[0][0])
    known.add(own)
    for k in layer:
        assert k[0] in known, ("unexpected key", k)
    return stages, rg, names


def group_contract(run):
    """The two splitting functions the layers call (since D119 dask-expr's own: SimpleShuffle._shuffle_group / _shuffle_group_2)
    against what the model assumes of them: stage s of a k-ary shuffle sends a row with precomputed partition number t to
    piece (t mod npartitions) // k^s mod k, the regrouping step sends it to piece t; rows keep their order inside a piece;
    an output filter keeps exactly the listed pieces."""
    import rt
    import pandas as pd
    from dask_expr._shuffle import SimpleShuffle
    rng = run.rng
    g2 = getattr(SimpleShuffle, "_shuffle_group_2", None)
    n = 0
    for col in ("_partitions", "__partitions", "p"):
        for npart, k in ((1, 2), (3, 2), (4, 2), (5, 3), (9, 3), (16, 4), (7, 8), (40, 32)):
            nrows = 30
            targets = [rng.randrange(0, max(1, npart)) for _ in range(nrows)]
            df = pd.DataFrame({"row": range(nrows), col: targets})
            stages = 1
            while k ** stages < npart:
                stages += 1
            for stage in range(stages):
                for flt in (None, {0}, set(range(k)) - {0}):
                    n += 1
                    run.count(("group-contract", col, npart, k, stage, None if flt is None else tuple(sorted(flt))))
                    r = try_(lambda: SimpleShuffle._shuffle_group(df, flt, col, stage, k, npart, False, npart))
                    exp = {}
                    for i, t in enumerate(targets):
                        exp.setdefault((t % npart) // k ** stage % k, []).append(i)
                    if flt is not None:
                        exp = {d: v for d, v in exp.items() if d in flt}
                    got = None if r[0] == "raise" else {int(d): list(v["row"]) for d, v in r[1].items() if len(v)}
                    if got != exp:
                        run.broken_tie("contract of SimpleShuffle._shuffle_group (piece = (t mod npartitions) // k^stage mod k, order kept, filter)",
                                       {"column": col, "npartitions": npart, "k": k, "stage": stage, "filter": None if flt is None else sorted(flt), "targets": targets,
                                        "real": r[1] if r[0] == "raise" else {str(a): b for a, b in got.items()}, "expected": {str(a): b for a, b in exp.items()}})
            if g2 is not None:
                n += 1
                run.count(("group2-contract", col, npart))
                r = try_(lambda: g2(df, col, False, npart))
                exp = {}
                for i, t in enumerate(targets):
                    exp.setdefault(t, []).append(i)
                got = None if r[0] == "raise" else {int(d): list(v["row"]) for d, v in r[1][0].items() if len(v)}
                if got != exp:
                    run.broken_tie("contract of SimpleShuffle._shuffle_group_2 (piece = precomputed partition number, order kept)",
                                   {"column": col, "npartitions": npart, "targets": targets, "real": r[1] if r[0] == "raise" else {str(a): b for a, b in got.items()}})
    run.section("group_contract", cases=n)


def layer_sweep(run, model, N, branches):
    import rt
    import pandas as pd
    pdf = pd.DataFrame({"a": range(4 * N), "b": range(4 * N)})
    reqs, exps, tags = [], [], []
    pre_bad = 0
    for n_in in range(1, N + 1):
        df = rt.dx.from_pandas(pdf, npartitions=n_in, sort=False)
        assert df.npartitions == n_in
        for n_out in range(n_in, N + 1):
            for mb in branches:
                s = df.shuffle("a", npartitions=n_out, shuffle_method="tasks", max_branch=mb)
                for sel in selections(n_out, run.rng, run.tier == "quick"):
                    q = s if sel is None else s.partitions[sel]
                    e = q.optimize(fuse=False).expr
                    nodes = rt.find(e, "TaskShuffle")
                    assert len(nodes) == 1, nodes
                    node = nodes[0]
                    assert node.frame.npartitions == n_in
                    layer = node._layer()
                    stages, rg, names = canon_shuffle_layer(node, layer)
                    eff_sel = list(node._partitions)
                    filtered = bool(node._filtered)
                    if sel is not None:
                        assert eff_sel == list(sel), (eff_sel, sel)
                    staged = not (len(eff_sel) <= mb or n_in <= mb)
                    if staged:
                        nst = len(stages)
                        k = stages[0][2][0][1][3]
                        # contract of the float-computed stage parameters (precondition of staged_route)
                        if not (k >= 2 and k ** nst >= n_in and nst >= 1):
                            pre_bad += 1
                            run.broken_tie("contract TaskShuffle stages/nsplits", {"n_in": n_in, "mb": mb, "k": k, "stages": nst})
                        for si, st in enumerate(stages):
                            last = si == nst - 1 and n_out == n_in
                            st[1] = eff_sel if last else list(range(k ** nst))
                    else:
                        k, nst = 1, 1
                        stages[0][1] = eff_sel
                    reqs.append("(task_or_simple %d %d %d %d %d %s %s)" % (n_in, n_out, mb, k, nst, sx(eff_sel), sx(filtered)))
                    exps.append(sx([stages, rg]))
                    tags.append((n_in, n_out, mb, tuple(eff_sel), filtered, staged))
    ans = model.batch(reqs)
    bad = 0
    nst_cases = 0
    for t, m, e in zip(tags, ans, exps):
        run.count(("tasklayer", t), nontrivial=t[5])
        nst_cases += t[5]
        if m != e:
            bad += 1
            if bad <= 5:
                run.broken_tie("T-LAYER TaskShuffle/SimpleShuffle._layer", {"case": t, "model": m[:500], "real": e[:500]})
    run.section("shuffle_layers", n_max=N, max_branch=list(branches), compared=len(tags), staged=nst_cases, disagreements=bad,
                contract_failures=pre_bad, exhaustive=True)
    run.sample({"TaskShuffle._layer": {"n_in": 5, "n_out": 5, "max_branch": 2, "sel": [0, 2, 3, 4],
                                       "model": model.batch(["(task_or_simple 5 5 2 3 2 (0 2 3 4) true)"])[0][:300] + "..."}})
    # float contract far beyond the layer bound
    worst = 0
    lim = 3000 if run.tier == "quick" else 100000
    for mb in (2, 3, 4, 8, 16, 32):
        for n in list(range(mb + 1, min(lim, 3000))) + list(range(3000, lim, 97)):
            stages = int(math.ceil(math.log(n) / math.log(mb)))
            k = int(math.ceil(n ** (1 / stages))) if stages > 1 else n
            if k ** stages < n or k < 2:
                worst += 1
                run.broken_tie("contract nsplits**stages >= n_in", {"n": n, "mb": mb, "k": k, "stages": stages})
    run.section("stage_arithmetic", max_n=lim, failures=worst, note="re-computation of the formula in TaskShuffle._layer; cross-checked against the real layer for n<=N above")
    return bad


def disk_structure(run, N):
    """DiskShuffle._layer: every collect key depends on the barrier, the barrier on every partition task."""
    import rt
    import pandas as pd
    from dask.dataframe.shuffle import barrier, collect
    pdf = pd.DataFrame({"a": range(4 * N), "b": range(4 * N)})
    n = 0
    for n_in in range(1, N + 1, 2):
        df = rt.dx.from_pandas(pdf, npartitions=n_in, sort=False)
        for n_out in (n_in, n_in + 3):
            s = df.shuffle("a", npartitions=n_out, shuffle_method="disk")
            for sel in (None, [0], list(range(n_out))[::2]):
                q = s if sel is None else s.partitions[sel]
                node = rt.find(q.optimize(fuse=False).expr, "DiskShuffle")[0]
                layer = node._layer()
                part = [k for k, t in layer.items() if isinstance(t, tuple) and t and t[0] == node._shuffle_group]
                bar = [k for k, t in layer.items() if isinstance(t, tuple) and t and t[0] is barrier]
                col = [k for k, t in layer.items() if isinstance(t, tuple) and t and (t[0] is collect or t[0] == getattr(node, "_collect", None))]
                ok = len(bar) == 1 and sorted(layer[bar[0]][1]) == sorted(part) and len(part) == node.frame.npartitions
                eff = list(node._partitions)
                ok = ok and sorted(col) == [(node._name, j) for j in range(len(eff))]
                for j, kk in enumerate(eff):
                    t = layer[(node._name, j)]
                    ok = ok and t[2] == kk and t[4] == bar[0]
                for k in part:
                    t = layer[k]
                    ok = ok and t[1][0] == node.frame._name and list(t[3]) == eff
                ok = ok and sorted(t[1][1] for t in (layer[k] for k in part)) == list(range(node.frame.npartitions))
                n += 1
                run.count(("disk", n_in, n_out, tuple(eff)))
                if not ok:
                    run.broken_tie("T-LAYER DiskShuffle._layer barrier structure", {"n_in": n_in, "n_out": n_out, "sel": eff})
    run.section("disk_layer_structure", checked=n)


def e2e(run, N, branches):
    """Property oracle on the real implementation: every row once, equal keys together, same key -> same
    partition number in every frame shuffled to the same count, subsets = partitions of the full shuffle."""
    import rt
    import dask
    import numpy as np
    import pandas as pd
    rng = np.random.RandomState(run.seed)
    nrows = 60
    base = rng.randint(0, 14, size=nrows)
    fl = base.astype("float64")
    fl_nan = fl.copy()
    fl_nan[rng.rand(nrows) < 0.15] = np.nan
    words = np.array(["w%d" % v for v in base], dtype=object)
    frames = {
        "int": pd.DataFrame({"k": base, "x": range(nrows)}),
        "float": pd.DataFrame({"k": fl, "x": range(nrows)}),
        "int32": pd.DataFrame({"k": base.astype("int32"), "x": range(nrows)}),
        "intindex": pd.DataFrame({"x": range(nrows)}, index=pd.Index(base, name="k")),
        "cat": pd.DataFrame({"k": pd.Categorical(base), "x": range(nrows)}),
    }
    other = {
        "floatnan": pd.DataFrame({"k": fl_nan, "x": range(nrows)}),
        "str": pd.DataFrame({"k": words, "x": range(nrows)}),
        "strnull": pd.DataFrame({"k": pd.array([w if i % 7 else None for i, w in enumerate(words)], dtype="string"), "x": range(nrows)}),
    }
    ncase = 0

    def parts_of(q):
        e = q.optimize(fuse=False).expr
        return dask.get(e.__dask_graph__(), e.__dask_keys__())

    def keyvals(p, nm):
        if nm == "intindex":
            return list(p.index)
        return list(p["k"])

    grid = []
    for n_in in (1, 2, 3, 5, N):
        for n_out in (1, 2, 3, 5, 7, N + 2):
            for method, mbs in (("tasks", branches), ("disk", (None,))):
                for mb in mbs:
                    grid.append((n_in, n_out, method, mb))
    if run.tier == "quick":
        grid = [g for i, g in enumerate(grid) if i % 3 == run.seed % 3 or g[0] == N]
    for n_in, n_out, method, mb in grid:
        opts = {} if mb is None else {"max_branch": mb}
        assign = {}
        for nm, pdf in list(frames.items()) + list(other.items()):
            df = rt.dx.from_pandas(pdf, npartitions=n_in, sort=False)
            variants = [("on", dict(on="k"))]
            if nm == "intindex":
                variants.append(("on_index", dict(on_index=True)))
            for vn, kw in variants:
                for ign in (False, True) if nm == "int" else (False,):
                    ncase += 1
                    case = {"frame": nm, "n_in": n_in, "n_out": n_out, "method": method, "max_branch": mb, "variant": vn, "ignore_index": ign}
                    run.count(("e2e", tuple(case.items())))
                    try:
                        s = df.shuffle(npartitions=n_out, shuffle_method=method, ignore_index=ign, **kw, **opts)
                        parts = parts_of(s)
                    except Exception as ex:
                        run.violation("shuffle raised %r" % (ex,), dict(case, kind="e2e"))
                        continue
                    if len(parts) != n_out or s.npartitions != n_out:
                        run.violation("npartitions %d != requested %d" % (len(parts), n_out), dict(case, kind="e2e"))
                    allx = sorted(x for p in parts for x in p.x)
                    if allx != list(range(nrows)):
                        run.violation("shuffle is not a permutation of its input rows", dict(case, kind="e2e", got=len(allx)))
                    where = {}
                    for i, p in enumerate(parts):
                        for kv in keyvals(p, nm):
                            key = "NA" if (kv is None or kv is pd.NA or (isinstance(kv, float) and np.isnan(kv))) else (float(kv) if nm in frames else kv)
                            if where.setdefault(key, i) != i:
                                run.violation("equal keys %r in partitions %d and %d" % (key, where[key], i), dict(case, kind="e2e"))
                    if nm in frames and not ign:
                        for key, i in where.items():
                            if assign.setdefault(key, (i, nm))[0] != i:
                                run.violation("key %r -> partition %d in frame %s but %d in frame %s (same partition count)" % (
                                    key, i, nm + "/" + vn, assign[key][0], assign[key][1]), dict(case, kind="e2e-consistency"))
                    # output subsets
                    if n_out >= 3 and nm in ("int", "floatnan"):
                        for sel in ([n_out - 1, 0], list(range(n_out))[1:], list(range(0, n_out, 2))):
                            try:
                                sp = parts_of(s.partitions[sel])
                            except Exception as ex:
                                run.violation("selecting output partitions %s raised %r" % (sel, ex), dict(case, kind="e2e-subset", sel=sel))
                                continue
                            for j, pi in enumerate(sel):
                                if sorted(sp[j].x) != sorted(parts[pi].x):
                                    run.violation("partitions[%s][%d] differs from partition %d of the full shuffle" % (sel, j, pi), dict(case, kind="e2e-subset", sel=sel))
    # several key columns: the same key tuple must land in the same partition number whatever the column layout of the frame
    # (key order in `on`, key columns stored in another relative order, different key names on the two sides of a join)
    k1, k2 = rng.randint(0, 5, size=nrows), rng.randint(0, 4, size=nrows)
    layouts = {
        "a,b,x": pd.DataFrame({"a": k1, "b": k2, "x": range(nrows)}),
        "x,b,a": pd.DataFrame({"x": range(nrows), "b": k2, "a": k1}),
        "b,x,a float": pd.DataFrame({"b": k2.astype("float64"), "x": range(nrows), "a": k1.astype("float64")}),
        "renamed p,q": pd.DataFrame({"q": k2, "p": k1, "x": range(nrows)}),
    }
    for n_in, n_out, method in ((3, 4, "tasks"), (5, 7, "tasks"), (3, 4, "disk"), (5, 3, "tasks")):
        for opts in (({}, {"max_branch": 2}) if method == "tasks" else ({},)):
            assign2 = {}
            for nm, pdf in layouts.items():
                on = ["p", "q"] if nm.startswith("renamed") else ["a", "b"]
                ncase += 1
                case = {"frame": nm, "n_in": n_in, "n_out": n_out, "method": method, "opts": opts, "on": on}
                run.count(("e2e-multikey", tuple(sorted((k, str(v)) for k, v in case.items()))))
                try:
                    parts = parts_of(rt.dx.from_pandas(pdf, npartitions=n_in, sort=False).shuffle(on=on, npartitions=n_out, shuffle_method=method, **opts))
                except Exception as ex:
                    run.violation("multi-key shuffle raised %r" % (ex,), dict(case, kind="e2e-multikey"))
                    continue
                if sorted(x for p in parts for x in p.x) != list(range(nrows)):
                    run.violation("multi-key shuffle is not a permutation of its input rows", dict(case, kind="e2e-multikey"))
                for i, p in enumerate(parts):
                    for kv in zip(p[on[0]], p[on[1]]):
                        key = (float(kv[0]), float(kv[1]))
                        if assign2.setdefault(key, (i, nm))[0] != i:
                            run.violation("key %r -> partition %d in the frame with columns %s but %d in the frame with columns %s (same partition count)" % (
                                key, i, nm, assign2[key][0], assign2[key][1]), dict(case, kind="e2e-multikey-consistency"))
            # and the hash join built on it
            l, r = layouts["a,b,x"], layouts["x,b,a"].rename(columns={"x": "y"})
            exp = l.merge(r, on=["a", "b"])
            ncase += 1
            got = try_(lambda: rt.dx.from_pandas(l, npartitions=n_in).merge(rt.dx.from_pandas(r, npartitions=max(2, n_out - 1)), on=["a", "b"], shuffle_method=method, broadcast=False).compute())
            if got[0] == "raise":
                run.violation("two-key hash join raised %s" % got[1], {"kind": "e2e-multikey-join", "method": method})
            elif len(got[1]) != len(exp) or sorted(zip(got[1].x, got[1].y)) != sorted(zip(exp.x, exp.y)):
                run.violation("two-key hash join (%s, %d x %d partitions) returns %d rows, pandas %d" % (method, n_in, max(2, n_out - 1), len(got[1]), len(exp)), {"kind": "e2e-multikey-join", "method": method})
    run.section("e2e", cases=ncase, frames=sorted(frames) + sorted(other), multikey_layouts=sorted(layouts))


def run(run):
    run.trusted = common.COMMON_TRUSTED + [
        "the splitting functions SimpleShuffle._shuffle_group / _shuffle_group_2 (dask-expr's own since fix D119) are modelled by `piece`/`exec_regroup` (rows grouped by (target mod np) // k^stage mod k) and tied by the group_contract sweep; dask.dataframe.shuffle.shuffle_group_get / collect / partd, group_split_dispatch and pandas hashing are validated by the E2E sweep only",
        "float arithmetic for stages/nsplits in TaskShuffle._layer: contract k^stages >= n_in checked, not proved",
    ]
    run.rule = ("exhaustive: all (n_in <= n_out <= N) x max_branch x output subsets: real TaskShuffle/SimpleShuffle._layer vs model (structural); DiskShuffle barrier structure; "
                "E2E on real data: permutation, co-location, cross-frame partition numbers (int/float/int32/categorical/index keys), subsets; "
                "consumers (c12_joins): how x strategy (broadcast / heuristic / hash tasks+disk) x key naming (same, different, decoy column, index, two keys) x dtype x partition counts: "
                "inputs of BlockwiseMerge/BroadcastJoin are permutations, equal keys share ONE partition number on both sides (incl. the pieces BroadcastJoin splits the big frame into), "
                "(left row, right row) pairs = pandas; non-trivial = staged layer or data case")
    run.proofs("PropC12.v")
    m = common.Model()
    quick = run.tier == "quick"
    N = 10 if quick else 20
    branches = (2, 3, 4) if quick else (2, 3, 4, 5, 8)
    group_contract(run)
    layer_sweep(run, m, N, branches)
    disk_structure(run, 8 if quick else 16)
    e2e(run, 9 if quick else 12, (2, 3) if quick else (2, 3, 4))
    c12_joins.joins(run)


def replay(path):
    """./check C12 --replay <file>: re-run the failing input of a replay file (join cases of c12_joins)."""
    import collections
    import json
    import rt
    d = json.load(open(path))
    case = d.get("case") or {}
    if case.get("kind") != "join":
        print("C12 replay: only the cases of the join family (kind=join) are replayable one by one; re-run ./check C12 with VERIF_SEED=%s" % d.get("seed"))
        return 2
    r = common.Run("C12", d.get("tier", "quick"), int(d.get("seed", 0)))
    c12_joins.run_case(rt, r, case, collections.Counter())
    for v in r.violations:
        print("VIOLATION property=C12 (replayed) %s" % v["what"])
    if not r.violations:
        print("C12 replay: the input no longer fails")
    return 1 if r.violations else 0
