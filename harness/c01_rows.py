"""C01 family: selections of rows by POSITION (head / tail / partitions) and what the optimizer does around them.

head(n, npartitions=k) takes the first n rows of the first k partitions, tail(n) the last n rows of the last partition,
partitions[...] whole partitions.  Which rows that are depends on how many rows every partition holds: the rewrites around
these nodes (two nested heads / tails merged into one, a selection pushed into the operands of an element-wise operation,
a selection of a sorted frame turned into an n-smallest tree, a repartition to one partition dropped, projections and
lengths pushed through) are only legal when they keep `n`, `npartitions`, the selected partitions and the order of the steps.
On evenly filled partitions with a small n nearly every mistake is invisible, so the family enumerates

   sources (index kinds, dtypes incl. missing values) x layouts (1-4 partitions, uneven user divisions, arbitrary cuts with
   empty first / middle / last partitions, unknown divisions) x what happens below the first selection (filters that leave a
   short or an empty first / last partition, element-wise operations, projections, a series, the index)
   x chains of 1-3 selections (n below / at / above the partition sizes, 0, negative; npartitions 1, 2, 3, -1)
   x what stands between two selections (nothing, element-wise operations with one or several operands, projections,
     filters, relabelling, a repartition) x consumers (frame, column, index, lengths, reductions, repartition, concat)

and compares every optimized plan (both fuse modes; every optimizer stage and compute() in the thorough tier) with the
same query lowered without optimization: values, index labels, row order, column labels, names of the index levels.
A query whose unoptimized plan does not compute promises nothing and is skipped.
"""
import numpy as np
import pandas as pd

import e2e
from c01_concat import plans, result_of
from e2e import _short, try_

N = 12

# ------------------------------------------------------------------------------------------------ sources


def _table(index):
    n = len(index)
    return pd.DataFrame({
        "g": list(range(n)),                                                      # the position of the row
        "a": [(i * 7) % n for i in range(n)],                                     # unique, unsorted (n and 7 coprime for n = 12)
        "f": [np.nan if i % 4 == 1 else float(i) * 1.5 for i in range(n)],
        "s": ["s%d" % (i % 5) for i in range(n)],
        "b": [i % 3 == 0 for i in range(n)],
        "t": pd.Timestamp("2021-03-01") + pd.to_timedelta([(i * 5) % n for i in range(n)], unit="h"),
        "o": pd.array([None if i % 5 == 2 else i % 4 for i in range(n)], dtype="Int64"),
    }, index=index)


def sources():
    return {
        "int index": _table(pd.Index(range(100, 100 + N), name="idx")),
        "range index": _table(pd.RangeIndex(N)),
        "int index, duplicates": _table(pd.Index([i // 2 for i in range(N)], name="i")),
        "str index": _table(pd.Index(["k%02d" % i for i in range(N)], name="key")),
        "datetime index": _table(pd.DatetimeIndex(pd.Timestamp("2021-01-01") + pd.to_timedelta(range(N), unit="D"), name="when")),
        "float index": _table(pd.Index([i / 2 for i in range(N)], name="x")),
    }


# layouts: (kind, argument) as understood by e2e.build_sources; "divisions" (labels, only over the sorted int index) and
# "cuts" (positions; an empty piece is an empty partition) give partitions of very different lengths
EVEN = [("npartitions", 1), ("npartitions", 2), ("npartitions", 3), ("npartitions", 4), ("unknown", 2), ("unknown", 3)]
CUTS = [("cuts", [2, 6]), ("cuts", [0, 5]), ("cuts", [3, 3, 9]), ("cuts", [1, 2, 3]), ("cuts", [7, 12]), ("cuts", [11]), ("cuts", [0, 0, 10]), ("cuts", [1, 11])]
DIVS = [("divisions", [100, 102, 106, 111]), ("divisions", [100, 101, 102, 111]), ("divisions", [100, 109, 111]), ("divisions", [100, 104, 105, 110, 111])]


def layouts_of(source):
    return EVEN + CUTS + (DIVS if source == "int index" else [])


def make_source(rt, srcs, source, layout):
    return e2e.build_sources({"t": srcs[source]}, {"t": tuple(layout)}, rt)["t"]


# ------------------------------------------------------------------------------------------------ below the first selection

def _num(d):
    return d[["g", "a", "f"]]


PRE = {
    "identity": lambda d: d,
    "without the first 2 rows (filter)": lambda d: d[d.g >= 2],
    "without the first 3 rows (filter)": lambda d: d[d.g >= 3],
    "without the first 5 rows (filter)": lambda d: d[d.g >= 5],
    "without the last 4 rows (filter)": lambda d: d[d.g < 8],
    "every third row (filter)": lambda d: d[d.g % 3 == 1],
    "rows with f (filter)": lambda d: d[d.f.notna()],
    "no row (filter)": lambda d: d[d.g > 100],
    "dropna": lambda d: d.dropna(),
    "numeric + 1": lambda d: _num(d) + 1,
    "columns g, s": lambda d: d[["g", "s"]],
    "series g": lambda d: d["g"],
    "series f of a filter": lambda d: d[d.g >= 2]["f"],
    "fillna": lambda d: _num(d).fillna(-1),
    "assign": lambda d: d.assign(z=d.g * 2),
    "index": lambda d: d.index,
    "index of a filter": lambda d: d[d.g >= 2].index,
    "reset_index(drop)": lambda d: d.reset_index(drop=True),
    "map_partitions": lambda d: d.map_partitions(_copy, meta=d._meta),
    "astype": lambda d: d.astype({"g": "float64"}),
    "g as index (sorted)": lambda d: d.set_index("g", sorted=True),
}
SHORT_FIRST = ["identity", "without the first 2 rows (filter)", "without the first 3 rows (filter)", "without the first 5 rows (filter)", "every third row (filter)",
               "series f of a filter", "index of a filter"]


def _copy(p):
    return p.copy()


# ------------------------------------------------------------------------------------------------ between two selections
# every function takes the (single-partition or not) collection the previous step produced; one that does not apply
# (a column of an index, ...) raises while the query is built and the case is left out

def _g(d):
    return d["g"] if d.ndim == 2 else d


MID = {
    "nothing": lambda d: d,
    "isna": lambda d: d.isna(),
    "fillna": lambda d: _num(d).fillna(0) if d.ndim == 2 else d.fillna(0),
    "+ 1": lambda d: (_num(d) if d.ndim == 2 else d) + 1,
    "sum of two columns": lambda d: d["g"] + d["a"],
    "where": lambda d: _num(d).where(d["g"] > 3),
    "assign": lambda d: d.assign(z=_g(d) + 1),
    "assign a broadcast reduction": lambda d: d.assign(z=d["g"] + d["g"].sum()),
    "minus its own maximum": lambda d: _g(d) - _g(d).max(),
    "columns g, f": lambda d: d[["g", "f"]],
    "columns reordered": lambda d: d[["f", "s", "g"]],
    "series g": lambda d: d["g"],
    "series to_frame": lambda d: _g(d).to_frame("q"),
    "rename columns": lambda d: d.rename(columns={"g": "G", "f": "F"}),
    "astype": lambda d: d.astype({"g": "float64"}) if d.ndim == 2 else d.astype("float64"),
    "filter g > 1": lambda d: d[_g(d) > 1],
    "filter on even g": lambda d: d[_g(d) % 2 == 0],
    "reset_index(drop)": lambda d: d.reset_index(drop=True),
    "reset_index": lambda d: d.reset_index(),
    "index": lambda d: d.index,
    "index to_series": lambda d: d.index.to_series(),
    "repartition(1)": lambda d: d.repartition(npartitions=1),
    "repartition(2)": lambda d: d.repartition(npartitions=2),
    "map_partitions": lambda d: d.map_partitions(_copy, meta=d._meta),
    "clear_divisions": lambda d: d.clear_divisions(),
    "cumsum": lambda d: (_num(d) if d.ndim == 2 else d).cumsum(),
    "shift": lambda d: (_num(d) if d.ndim == 2 else d).shift(1),
    "sort_values(a)": lambda d: d.sort_values("a"),
    "sort_values(a, descending)": lambda d: d.sort_values("a", ascending=False),
    "concat with itself": lambda d: _concat(d, d),
}
ELEMWISE_MID = ["isna", "fillna", "+ 1", "sum of two columns", "where", "assign", "columns g, f", "series g", "rename columns", "astype", "map_partitions"]


def _concat(*ds):
    import rt
    return rt.dx.concat(list(ds))


CONSUMERS = {
    "frame": lambda q: q,
    "column g": lambda q: q["g"],
    "index": lambda q: q.index,
    "size": lambda q: q.size,
    "number of rows": lambda q: q.index.size,
    "count": lambda q: q.count(),
    "sum of g": lambda q: _g(q).sum(),
    "isna": lambda q: q.isna(),
    "reset_index": lambda q: q.reset_index(),
    "repartition(1)": lambda q: q.repartition(npartitions=1),
    "repartition(3)": lambda q: q.repartition(npartitions=3),
    "concat with itself": lambda q: _concat(q, q),
    "g + sum of g": lambda q: _g(q) + _g(q).sum(),
    "first partition": lambda q: q.partitions[0],
    "nunique of index": lambda q: q.index.nunique(),
}

# ------------------------------------------------------------------------------------------------ the query of a case


def apply_step(d, step):
    kind = step[0]
    if kind == "head":
        return d.head(step[1], npartitions=step[2], compute=False)
    if kind == "tail":
        return d.tail(step[1], compute=False)
    if kind == "partitions":
        return d.partitions[list(step[1])]
    if kind == "mid":
        return MID[step[1]](d)
    raise KeyError(kind)


# Inputs of the family on which the UNMODIFIED tree differs between the optimized and the unoptimized plan (found by this family, reported as
# findings, left out here so that a violation always is news):
#  R1  head(n, npartitions=k != 1) of an INDEX with several partitions: Head._lower builds BlockwiseHeadIndex(Partitions(first k), n, safe=False),
#      whose own npartitions operand is the default 1: the unoptimized plan returns the head of the first partition only; the optimized plan
#      pushes the head below the Index node and reads k partitions                                                    -> "index"
#  R2  reset_index over several partitions labels the rows of every partition from 0; a head over several partitions on top of it is pushed
#      below the ResetIndex (an element-wise node), which then labels the selected rows 0..n-1 in one go                 -> "labels"
#  R3  tail(0) of an INDEX: BlockwiseTailIndex slices [-0:], i.e. the whole last partition; the optimized plan takes the tail below the Index
#      node (no row)                                                                                                  -> "tail(0) of an index"
#  R4  sort_values(...).head(n, npartitions=k) / .tail(n) over several partitions: the optimized plan (NFirst / NLast) returns the n first / last
#      rows of the whole sorted frame, the unoptimized one those of the first k / the last partition of the sorted frame, which may hold fewer
#      (where the sort cuts its partitions is not defined by the query; npartitions=-1 is)                            -> "partitions of a sorted frame"
def _is_index(d):
    from dask.dataframe.utils import is_index_like
    return is_index_like(d._meta)


def build(rt, srcs, case, why=None):
    """The query of a case dict; why (a list) receives the reasons for which the case is outside the family (see R1, R2)"""
    why = [] if why is None else why
    d = make_source(rt, srcs, case["source"], case["layout"])
    relabelled = sorted_ = False
    for step in [["pre", case["pre"]]] + list(case["steps"]):
        if step[0] in ("pre", "mid") and step[1].startswith("reset_index") and d.npartitions > 1:
            relabelled = True
        if step[0] == "head" and step[2] != 1 and d.npartitions > 1:
            if _is_index(d):
                why.append("index")
            if relabelled:
                why.append("labels")
        if step[0] == "tail" and step[1] == 0 and _is_index(d):
            why.append("tail(0) of an index")
        if step[0] == "mid" and step[1].startswith("sort_values") and d.npartitions > 1:
            sorted_ = True
        if sorted_ and (step[0] in ("tail", "partitions") or (step[0] == "head" and step[2] != -1)):
            why.append("partitions of a sorted frame")
        if step[0] == "head" and step[2] == -1:
            sorted_ = False
        d = PRE[step[1]](d) if step[0] == "pre" else apply_step(d, step)
    return CONSUMERS[case["consumer"]](d)


def describe(case):
    def st(s):
        if s[0] == "head":
            return "head(%d, npartitions=%d)" % (s[1], s[2])
        if s[0] == "tail":
            return "tail(%d)" % s[1]
        if s[0] == "partitions":
            return "partitions[%s]" % (list(s[1]),)
        return "{%s}" % s[1]
    return "%s [%s %s] -> {%s} -> %s -> %s" % (case["source"], case["layout"][0], case["layout"][1], case["pre"], " -> ".join(st(s) for s in case["steps"]), case["consumer"])


def _selections(case):
    return sum(1 for s in case["steps"] if s[0] != "mid")


def check_case(run, rt, srcs, case, every_stage=False, with_compute=False):
    """One query against its unoptimized lowering under every requested plan.  Returns the number of evaluated plans."""
    why = []
    coll = try_(lambda: build(rt, srcs, case, why))
    if coll[0] == "raise" or not hasattr(coll[1], "expr") or why:
        return 0
    coll = coll[1]
    ref = try_(lambda: result_of(coll.expr.lower_completely()))
    if ref[0] == "raise":
        return 0            # the query itself does not compute (npartitions beyond the frame, ...): nothing is promised
    todo = plans(coll, every_stage)
    if with_compute:
        todo.append(("compute()", None))
    n = 0
    desc = describe(case)
    for pname, plan in todo:
        n += 1
        run.count(("row-selection", repr(sorted(case.items())), pname), nontrivial=_selections(case) >= 2 or len(case["steps"]) >= 2)
        if plan is None:
            from c01_concat import observe
            got = try_(lambda: observe(coll.compute()))
        else:
            got = try_(lambda: result_of(plan()))
        full = dict(case, plan=pname)
        if got[0] == "raise":
            run.violation("%s: %s fails (%s), the unoptimized query computes %s" % (desc, pname, got[1], _short(ref[1])), full)
        elif got[1] != ref[1]:
            run.violation("%s: %s gives %s, the unoptimized query %s" % (desc, pname, _short(_diff(got[1], ref[1])), _short(_diff(ref[1], got[1]))), full)
    return n


def _diff(a, b):
    """a, reduced to what differs from b (keeps the messages readable)"""
    if len(a) == 2 and len(b) == 2 and a[0] == b[0]:
        return a[1]
    c, d = a[0], b[0]
    if c[0] in ("frame", "series") and d[0] == c[0] and c[1] == d[1]:
        la, lb = [r[0] for r in c[2]], [r[0] for r in d[2]]
        if la != lb:
            return (c[0], c[1], "%d rows, labels %s" % (len(la), la[:8])) + tuple(a[1:])
        return (c[0], c[1], "%d rows, those that differ: %s" % (len(la), [r for r, r2 in zip(c[2], d[2]) if r != r2][:3])) + tuple(a[1:])
    if c[0] == "index" and d[0] == "index":
        return (c[0], c[1], "%d labels %s" % (len(c[2]), c[2][:8])) + tuple(a[1:])
    return a


# ------------------------------------------------------------------------------------------------ driver

THOROUGH_PER, THOROUGH_RANDOM = 6, 4000

HEAD_N = [0, 1, 2, 3, 4, 5, 7, 12, 20]
HEAD_K = [1, 2, 3, -1]
TAIL_N = [0, 1, 2, 3, 5, 20]
NEG_N = [-1, -2, -5]


def _head(rng, neg=0.08, ks=HEAD_K):
    n = rng.choice(NEG_N) if rng.random() < neg else rng.choice(HEAD_N)
    return ["head", n, rng.choice(ks)]


def _tail(rng, neg=0.08):
    return ["tail", rng.choice(NEG_N) if rng.random() < neg else rng.choice(TAIL_N)]


def _parts(rng, k):
    pool = list(range(k))
    return ["partitions", rng.choice([pool[1:] or pool, pool[::-1], pool[:1], pool[-1:], pool[:2], sorted(rng.sample(pool, max(1, k - 1)))])]


def _npart(layout):
    return layout[1] if layout[0] in ("npartitions", "unknown") else len(layout[1]) + (1 if layout[0] == "cuts" else -1)


# the shapes of the systematic part: f(rng, k) -> list of steps ; k = number of partitions of the source
def _shapes():
    def mid(rng, names=ELEMWISE_MID):
        return ["mid", rng.choice(names)]
    return {
        "head": lambda r, k: [_head(r)],
        "tail": lambda r, k: [_tail(r)],
        "head of head": lambda r, k: [_head(r, ks=[2, 3, -1, -1, k]), _head(r, ks=[1, 1, -1])],
        "head of head of head": lambda r, k: [_head(r, ks=[2, -1, k]), _head(r, ks=[1, -1]), _head(r, ks=[1])],
        "tail of tail": lambda r, k: [_tail(r), _tail(r)],
        "head of tail": lambda r, k: [_tail(r), _head(r, ks=[1, -1])],
        "tail of head": lambda r, k: [_head(r, ks=[1, 2, -1, k]), _tail(r)],
        "head of elemwise of head": lambda r, k: [_head(r, ks=[2, 3, -1, k]), mid(r), _head(r, ks=[1, -1])],
        "tail of elemwise of tail": lambda r, k: [_tail(r), mid(r), _tail(r)],
        "head of elemwise": lambda r, k: [mid(r), _head(r)],
        "tail of elemwise": lambda r, k: [mid(r, ELEMWISE_MID + ["reset_index(drop)", "reset_index", "cumsum"]), _tail(r)],
        "head of partitions": lambda r, k: [_parts(r, k), _head(r)],
        "tail of partitions": lambda r, k: [_parts(r, k), _tail(r)],
        "partitions of head": lambda r, k: [_head(r), ["partitions", [0]]],
        "head of repartition(1) of head": lambda r, k: [_head(r, ks=[2, -1, k]), ["mid", "repartition(1)"], _head(r, ks=[1])],
        "head of anything": lambda r, k: [["mid", r.choice(list(MID))], _head(r)],
        "tail of anything": lambda r, k: [["mid", r.choice(list(MID))], _tail(r)],
        "head of anything of head": lambda r, k: [_head(r, ks=[1, 2, -1, k]), ["mid", r.choice(list(MID))], _head(r, ks=[1, -1])],
        "head of sorted": lambda r, k: [["mid", r.choice(["sort_values(a)", "sort_values(a, descending)"])], _head(r, neg=0, ks=[-1])],
    }


def _contexts(rng, srcs, quick):
    """(source, layout, pre): the systematic part visits the contexts in which the first / last partition is short or empty"""
    out = []
    for lay in CUTS + DIVS + [("npartitions", 4), ("npartitions", 1), ("unknown", 3)]:
        out.append(("int index", lay, "identity"))
    for pre in SHORT_FIRST[1:] + ["without the last 4 rows (filter)", "no row (filter)", "rows with f (filter)"]:
        out.append(("int index", ("npartitions", 4), pre))
        out.append((rng.choice(list(srcs)), rng.choice(EVEN[1:]), pre))
    for s in srcs:
        out.append((s, rng.choice(CUTS), rng.choice(list(PRE))))
    return out


def run_family(run, rt):
    import time
    t0, c0 = time.time(), time.process_time()
    rng = run.rng
    quick = run.tier == "quick"
    srcs = sources()
    shapes = _shapes()
    stats = {"systematic": 0, "random": 0, "shapes": len(shapes), "sources": len(srcs), "pre": len(PRE), "between": len(MID), "consumers": len(CONSUMERS)}
    ctxs = _contexts(rng, srcs, quick)
    stats["contexts"] = len(ctxs)
    # (1) systematic: every shape in every context with short / empty partitions; the parameters are drawn
    per = 1 if quick else THOROUGH_PER
    for shape, mk in shapes.items():
        for (s, lay, pre) in (rng.sample(ctxs, 8) if quick else ctxs):
            for _ in range(per):
                case = {"kind": "row-selection", "source": s, "layout": [lay[0], lay[1]], "pre": pre, "steps": mk(rng, _npart(lay)),
                        "consumer": "frame" if rng.random() < 0.6 else rng.choice(list(CONSUMERS))}
                stats["systematic"] += check_case(run, rt, srcs, case, every_stage=not quick, with_compute=not quick)
    # (2) random chains: any source / layout / history, 1-3 selections with anything between them, any consumer
    n_random = 50 if quick else THOROUGH_RANDOM
    for _ in range(n_random):
        s = rng.choice(list(srcs))
        lay = rng.choice(layouts_of(s))
        k = _npart(lay)
        steps = []
        for j in range(rng.choice([1, 2, 2, 3])):
            if j and rng.random() < 0.5:
                steps.append(["mid", rng.choice(list(MID))])
            r = rng.random()
            if r < 0.55:
                steps.append(_head(rng, ks=HEAD_K + [k] if j == 0 else [1, 1, -1, 2]))
            elif r < 0.85:
                steps.append(_tail(rng))
            else:
                steps.append(_parts(rng, k if j == 0 else 1))
        case = {"kind": "row-selection", "source": s, "layout": [lay[0], lay[1]], "pre": rng.choice(list(PRE)), "steps": steps, "consumer": rng.choice(list(CONSUMERS))}
        stats["random"] += check_case(run, rt, srcs, case, every_stage=not quick, with_compute=not quick)
    run.section("row_selections", wall_s=round(time.time() - t0, 1), cpu_s=round(time.process_time() - c0, 1), **stats)


def replay_case(run, rt, case):
    c = {k: v for k, v in case.items() if k != "plan"}
    return check_case(run, rt, sources(), c, every_stage=True, with_compute=True)
