"""C17, cuts in front of an index-aligned step that carries KEYWORDS.

A binary step of two collections that descend from one source is planned as a plain element-wise expression (the operands
are "co-aligned").  After a materialization cut the re-imported operand is a new root (FromGraph / FromDelayed / an
optimized plan): the same step is now planned through an ALIGNMENT expression (MethodOperatorAlign, CombineSeriesAlign,
CombineFrameAlign, WhereAlign / MaskAlign, FillnaAlign, AlignAlignPartitions, MapAlign, CombineFirstAlign), which decides
between four lowerings -- equal known divisions (nothing to move), single partitions, unknown divisions (shuffle),
different known divisions (repartition) -- and has to hand every non-collection operand of the step (axis=, level=,
fill_value=, func, overwrite=, other=, join=, na_action= ...) on to the element-wise expression it lowers to.  c17_multi.py
looks at WHICH rows meet; this family looks at WHAT the step does with them: keywords away from their defaults.

family = layout (both heads over one root / two roots with equal divisions / two roots with different divisions / unknown
         divisions / one partition; 1-5 partitions) x labels (int, str, datetime) x data (float, int, float with missing
         values, mixed) x heads (identity, where -> missing rows, filters -> missing labels, projections -> missing columns,
         arithmetic, mask) x step (17 arithmetic method operators and 6 comparison methods in the shapes frame-frame,
         series-series, frame-series with fill_value / axis / level spelled in every accepted way; combine with func /
         fill_value / overwrite; where / mask with a scalar, series or frame `other`; fillna; align with join / axis /
         fill_value; map with na_action; combine_first) x sides that are cut x kind of cut.
oracle = the uncut query on the same sources: result (multiset of labelled rows: an alignment of collections with unknown
         divisions shuffles), schema, divisions when both are known.  A step belongs to the family when pandas computes it
         on the computed heads and the uncut query agrees with pandas; nothing else is demanded.
"""
import operator
import random

import numpy as np
import pandas as pd

from e2e import canon, try_, _short, meta_mismatch

# ----------------------------------------------------------------------------------------------------------- data

INDEX_KINDS = ("int", "str", "datetime")
DTYPE_KINDS = ("float", "int", "float-nan", "mixed")


def _labels(index_kind, ls):
    if index_kind == "int":
        return pd.Index(ls)
    if index_kind == "str":
        return pd.Index(["k%03d" % i for i in ls])
    return pd.DatetimeIndex([pd.Timestamp("2022-03-01") + pd.Timedelta(hours=6 * i) for i in ls])


def make_frames(rng, n, index_kind, dtype_kind):
    """(pdf, same-labels frame with other values and columns b c d, frame with partly overlapping labels)."""
    base = sorted(rng.sample(range(2 * n), n))
    other = sorted(set(base[n // 4:]) | set(rng.sample(range(2 * n, 3 * n), n // 4)))

    def col(k, scale, shift):
        v = [float(scale * ((i * 7 + shift) % 11) - shift) for i in range(k)]
        if dtype_kind == "int":
            return [int(x) for x in v]
        if dtype_kind == "float-nan":
            return [np.nan if rng.random() < 0.2 else x + 0.5 for x in v]
        if dtype_kind == "mixed":
            return [x + 0.25 for x in v] if shift % 2 else [int(x) for x in v]
        return [x + 0.5 for x in v]

    def small(k, mod):
        # (a float column in the float kinds: see NOT_IN_FAMILY on integer division by zero)
        return [((i * 5 + 1) % mod) * (1.0 if dtype_kind in ("float", "float-nan") else 1) for i in range(k)]

    pdf = pd.DataFrame({"a": col(n, 1, 1), "b": col(n, 2, 2), "c": small(n, 4)}, index=_labels(index_kind, base))
    same = pd.DataFrame({"b": col(n, 3, 3), "c": small(n, 3), "d": col(n, 1, 4)}, index=_labels(index_kind, base))
    m = len(other)
    diff = pd.DataFrame({"a": col(m, 2, 5), "b": col(m, 1, 6), "c": small(m, 5)}, index=_labels(index_kind, other))
    return pdf, same, diff


# (name, second root: None = both heads over ONE root | "same" = equal labels, hence equal divisions | "diff", unknown divisions)
LAYOUTS = {
    "one root": (None, False),
    "two roots, equal divisions": ("same", False),
    "two roots, different divisions": ("diff", False),
    "one root, unknown divisions": (None, True),
    "two roots, unknown divisions": ("same", True),
}

# ----------------------------------------------------------------------------------------------------------- heads

HEADS = {
    "where / identity": (lambda d: d.where(d.b > d.b.min() + 3), lambda d: d),
    "identity / where": (lambda d: d, lambda d: d.where(d.c > 0)),
    "where / where": (lambda d: d.where(d.c != 1), lambda d: d.where(d.b > 2)),
    "filter / identity": (lambda d: d[d.c != 1], lambda d: d),
    "filters": (lambda d: d[d.c > 0], lambda d: d[d.c < 2]),
    "projections": (lambda d: d[[c for c in d.columns if c != "c"]], lambda d: d[list(d.columns)[1:]]),
    "arithmetic / mask": (lambda d: d * 2, lambda d: d.mask(d.c == 0)),
    "identity": (lambda d: d, lambda d: d),
}

# ----------------------------------------------------------------------------------------------------------- steps

ARITH = ("add", "sub", "mul", "div", "divide", "truediv", "floordiv", "mod", "pow",
         "radd", "rsub", "rmul", "rdiv", "rtruediv", "rfloordiv", "rmod", "rpow")
CMP = ("lt", "le", "gt", "ge", "eq", "ne")
FILLS = (0, 1, -2.5, 7, None)
FUNCS = {"max": max, "min": min, "add": operator.add, "np.minimum": np.minimum, "np.maximum": np.maximum,
         "first-unless-big": lambda x, y: x if x < 5 else y}


def _col(d, prefer):
    """a column of d (heads may project columns away)"""
    cols = list(d.columns)
    return d[prefer] if prefer in cols else d[cols[0]]


def step_fn(spec):
    """The step described by the JSON-serialisable `spec`, as a function of the two operands (collections or pandas)."""
    kind, kw = spec["step"], dict(spec.get("kw", {}))
    if kind == "frame.op(frame)":
        return lambda l, r: getattr(l, spec["op"])(r, **kw)
    if kind == "series.op(series)":
        return lambda l, r: getattr(_col(l, "a"), spec["op"])(_col(r, "b"), **kw)
    if kind == "frame.op(series)":
        return lambda l, r: getattr(l, spec["op"])(_col(r, "b"), **kw)
    if kind == "series.combine(series)":
        return lambda l, r: _col(l, "a").combine(_col(r, "b"), FUNCS[spec["func"]], **kw)
    if kind == "frame.combine(frame)":
        return lambda l, r: l.combine(r, FUNCS[spec["func"]], **kw)
    if kind in ("where", "mask"):
        o = spec["other"]

        def f(l, r):
            series = spec["on"] == "series"
            x = _col(l, "a") if series else l
            cond = _col(r, "c") > 1
            other = {"scalar": -1, "none": None, "series": _col(r, "b"), "frame": r}[o]
            if other is None:
                return getattr(x, kind)(cond)
            return getattr(x, kind)(cond, other, **kw)
        return f
    if kind == "fillna":
        if spec["on"] == "series":
            return lambda l, r: _col(l, "a").fillna(_col(r, "b"))
        return lambda l, r: l.fillna(r)
    if kind == "align":
        if spec["on"] == "series":
            return lambda l, r: _col(l, "a").align(_col(r, "b"), **kw)[spec["take"]]
        return lambda l, r: l.align(r, **kw)[spec["take"]]
    if kind == "map":
        return lambda l, r: _col(r, "c").map(_col(l, "a"), **kw)
    if kind == "combine_first":
        if spec["on"] == "series":
            return lambda l, r: _col(l, "a").combine_first(_col(r, "b"))
        return lambda l, r: l.combine_first(r)
    raise KeyError(kind)


def describe(spec):
    kw = ", ".join("%s=%r" % kv for kv in sorted(spec.get("kw", {}).items()))
    kind = spec["step"]
    if "op" in spec:
        return kind.replace(".op(", ".%s(" % spec["op"]).replace(")", (", " + kw if kw else "") + ")")
    extra = [("func", spec.get("func")), ("other", spec.get("other")), ("on", spec.get("on")), ("take", spec.get("take"))]
    return "%s[%s]" % (kind, ", ".join(["%s=%s" % (k, v) for k, v in extra if v is not None] + ([kw] if kw else [])))


def random_step(rng):
    """A random member of the step family."""
    k = rng.random()
    if k < 0.22:
        kw = {"fill_value": rng.choice(FILLS)}
        if rng.random() < 0.5:
            kw["axis"] = rng.choice([0, 1, "index", "columns"])
        if rng.random() < 0.2:
            kw["level"] = None
        return {"step": "frame.op(frame)", "op": rng.choice(ARITH), "kw": kw}
    if k < 0.40:
        kw = {"fill_value": rng.choice(FILLS)}
        if rng.random() < 0.3:
            kw["axis"] = rng.choice([0, "index"])
        if rng.random() < 0.2:
            kw["level"] = None
        return {"step": "series.op(series)", "op": rng.choice(ARITH), "kw": kw}
    if k < 0.52:
        return {"step": "frame.op(series)", "op": rng.choice(ARITH), "kw": {"axis": rng.choice([0, "index"])}}
    if k < 0.60:
        shape = rng.choice(["frame.op(frame)", "series.op(series)", "frame.op(series)"])
        kw = {}
        if shape == "series.op(series)":
            kw["fill_value"] = rng.choice(FILLS)
        elif shape == "frame.op(series)":
            kw["axis"] = rng.choice([0, "index"])
        elif rng.random() < 0.5:
            kw["axis"] = rng.choice([0, 1, "index", "columns"])
        return {"step": shape, "op": rng.choice(CMP), "kw": kw}
    if k < 0.68:
        return {"step": "series.combine(series)", "func": rng.choice(["max", "min", "add", "first-unless-big"]),
                "kw": {"fill_value": rng.choice(FILLS)}}
    if k < 0.75:
        kw = {"fill_value": rng.choice(FILLS)}
        if rng.random() < 0.6:
            kw["overwrite"] = rng.choice([True, False])
        return {"step": "frame.combine(frame)", "func": rng.choice(["np.minimum", "np.maximum"]), "kw": kw}
    if k < 0.85:
        on = rng.choice(["series", "frame"])
        other = rng.choice(["scalar", "none", "series"] if on == "series" else ["scalar", "none", "frame"])
        return {"step": rng.choice(["where", "mask"]), "on": on, "other": other, "kw": {}}
    if k < 0.89:
        return {"step": "fillna", "on": rng.choice(["series", "frame"])}
    if k < 0.95:
        on = rng.choice(["series", "frame"])
        kw = {"join": rng.choice(["outer", "inner", "left", "right"]), "fill_value": rng.choice(FILLS)}
        if on == "frame" and rng.random() < 0.6:
            kw["axis"] = rng.choice([0, 1, None])
        return {"step": "align", "on": on, "take": rng.choice([0, 1]), "kw": kw}
    if k < 0.98:
        # (na_action="ignore" is left out: pristine finding, see NOT_IN_FAMILY)
        return {"step": "map", "kw": rng.choice([{}, {"na_action": None}])}
    return {"step": "combine_first", "on": rng.choice(["series", "frame"])}


# every keyword slot of every kind of step, away from its default: taken in turn by the systematic part
CORE_STEPS = [
    {"step": "frame.op(frame)", "op": "add", "kw": {"fill_value": 0}},
    {"step": "series.op(series)", "op": "rsub", "kw": {"fill_value": 1}},
    {"step": "frame.op(series)", "op": "sub", "kw": {"axis": 0}},
    {"step": "series.combine(series)", "func": "max", "kw": {"fill_value": 7}},
    {"step": "frame.op(frame)", "op": "mul", "kw": {"axis": "index", "fill_value": -2.5}},
    {"step": "where", "on": "frame", "other": "frame", "kw": {}},
    {"step": "series.op(series)", "op": "truediv", "kw": {"fill_value": 7, "axis": "index", "level": None}},
    {"step": "frame.combine(frame)", "func": "np.minimum", "kw": {"fill_value": 1, "overwrite": False}},
    {"step": "frame.op(series)", "op": "rfloordiv", "kw": {"axis": "index"}},
    {"step": "align", "on": "frame", "take": 1, "kw": {"join": "left", "axis": 0, "fill_value": 7}},
    {"step": "frame.op(frame)", "op": "rpow", "kw": {"axis": 1, "fill_value": 1}},
    {"step": "series.op(series)", "op": "lt", "kw": {"fill_value": 0}},
    {"step": "mask", "on": "series", "other": "series", "kw": {}},
    {"step": "series.op(series)", "op": "mod", "kw": {"fill_value": -2.5}},
    {"step": "frame.op(series)", "op": "ge", "kw": {"axis": 0}},
    {"step": "fillna", "on": "frame"},
    {"step": "frame.op(frame)", "op": "rtruediv", "kw": {"fill_value": 7, "level": None}},
    {"step": "map", "kw": {"na_action": None}},
]

SIDES = ("left", "right", "both")

# Inputs of the family on which the PRISTINE tree is not transparent (reported, not checked):
#  * s.map(t, na_action="ignore") with a re-imported operand: MapAlign hands (op, na_action, meta) to Map's slots
#    (na_action, meta, is_monotonic); the result is planned with meta "ignore" (a Scalar collection) and loses rows.
#  * the comparison METHODS (s.lt(t, fill_value=..), df.ge(t, axis=0), ...) are never planned through an alignment
#    expression: a cut that leaves one operand with known and the other with unknown divisions (from_delayed without
#    divisions) makes the blockwise plan fail with an AssertionError, while the uncut query (and the infix operator) computes.
#  * (pandas, not dask-expr) pow / rpow / mod / floordiv of INTEGER columns depend on which labels meet inside one block:
#    numpy refuses negative integer exponents and pandas' flex methods give 0 for an integer x.mod(0), but NaN once a
#    missing label has turned the block into floats.  A cut that changes the lowering (shuffle / repartition instead of
#    block i with block i) changes the blocks: these operators are taken on float data only.
NOT_IN_FAMILY = ("map na_action='ignore'", "comparison methods over mixed known/unknown divisions", "integer pow/mod/floordiv")
BLOCK_DEPENDENT_ON_INTEGERS = ("pow", "rpow", "mod", "rmod", "floordiv", "rfloordiv")


def applicable(q, spec, sides, cl, cr):
    if spec.get("op") in BLOCK_DEPENDENT_ON_INTEGERS and q.desc["dtype"] not in ("float", "float-nan"):
        return False
    if spec.get("op") in CMP:
        kl = q.left.known_divisions and not (sides != "right" and cl == "delayed-unknown-divisions")
        kr = q.right.known_divisions and not (sides != "left" and cr == "delayed-unknown-divisions")
        if bool(kl) != bool(kr):
            return False
    return True


def _res_canon(obj):
    return canon(obj, False, True)


class _Query:
    """The two heads of one (data, layout, heads) choice; the uncut reference of a step is computed once."""

    def __init__(self, rt, desc):
        self.desc = desc
        rng = random.Random(desc["data_seed"])
        second, unknown = LAYOUTS[desc["layout"]]
        pdf, same, diff = make_frames(rng, desc["rows"], desc["index"], desc["dtype"])
        np_l, np_r = desc["npartitions"]

        def source(p, k):
            s = rt.dx.from_pandas(p, npartitions=k, sort=True)
            return s.clear_divisions() if unknown else s
        a = source(pdf, np_l)
        b = a if second is None else source(same if second == "same" else diff, np_l if second == "same" else np_r)
        hl, hr = HEADS[desc["heads"]]
        self.left, self.right = hl(a), hr(b)
        self.pl, self.pr = self.left.compute(), self.right.compute()
        self.refs = {}

    def ref(self, spec, stats):
        key = repr(sorted(spec.items(), key=repr))
        if key not in self.refs:
            self.refs[key] = None
            f = step_fn(spec)
            pref = try_(lambda: _res_canon(f(self.pl, self.pr)))
            q = try_(lambda: f(self.left, self.right))
            c = try_(lambda: _res_canon(q[1].compute())) if q[0] == "ok" else q
            why = None
            if pref[0] == "raise":
                why = "step_undefined_in_pandas"
            elif c[0] == "raise":
                why = "uncut_query_fails"
            elif c[1] != pref[1]:
                why = "uncut_query_differs_from_pandas"
            else:
                self.refs[key] = (q[1], c[1])
            if why:
                stats[why] = stats.get(why, 0) + 1
                stats.setdefault(why + "_steps", set()).add(describe(spec))
        return self.refs[key]


def one_case(run, C, q, spec, sides, cl, cr, stats):
    case = dict(q.desc, kind="cut-keywords", step=spec, sides=sides, cut_left=cl if sides != "right" else None,
                cut_right=cr if sides != "left" else None, seed=run.seed)
    run.count(("cut-keywords", repr(sorted(case.items(), key=repr))), nontrivial=True)
    ref = q.ref(spec, stats)
    if ref is None:
        stats["skipped"] = stats.get("skipped", 0) + 1
        return
    final, refc = ref
    f = step_fn(spec)
    d = q.desc
    tag = "query %s of L, R = heads %s over %s [%s partitions, %d rows, %s labels, %s data], cut in front of the step: %s" % (
        describe(spec), d["heads"], d["layout"], "x".join(map(str, d["npartitions"])), d["rows"], d["index"], d["dtype"],
        {"both": "L by %s and R by %s" % (cl, cr), "left": "L by %s" % cl, "right": "R by %s" % cr}[sides])

    def build():
        l = C[cl](q.left) if sides in ("both", "left") else q.left
        r = C[cr](q.right) if sides in ("both", "right") else q.right
        return f(l, r)
    r = try_(build)
    if r[0] == "raise":
        run.violation("%s: continuing on the re-imported collection raises %s (the uncut query is built and computes)" % (tag, r[1]), case)
        return
    stats.setdefault("plans", set()).add(type(getattr(r[1], "expr", r[1])).__name__)
    got = try_(lambda: r[1].compute())
    if got[0] == "raise":
        run.violation("%s: computing fails: %s (the uncut query computes)" % (tag, got[1]), case)
        return
    gc_ = _res_canon(got[1])
    stats["evaluated"] = stats.get("evaluated", 0) + 1
    if gc_ != refc:
        # known finding D206: DataFrame.combine planned through the alignment path (an operand re-imported at a cut is not co-aligned)
        fid = "D206" if "combine(" in tag and "combine_first" not in tag else None
        run.violation("%s: result %s differs from the uncut run %s" % (tag, _short(gc_), _short(refc)), case, finding=fid)
        return
    if hasattr(final, "_meta") and hasattr(r[1], "_meta"):
        mm = meta_mismatch(final._meta, r[1]._meta) if type(final._meta) is type(r[1]._meta) else "container kind differs"
        if mm and "dtype" not in mm:
            run.violation("%s: schema differs from the uncut run: %s" % (tag, mm), dict(case, kind="cut-keywords-schema"))
    used = [k for k, s in ((cl, sides != "right"), (cr, sides != "left")) if s]
    if (hasattr(final, "known_divisions") and hasattr(r[1], "known_divisions") and final.known_divisions and r[1].known_divisions
            and "delayed-unknown-divisions" not in used and final.npartitions == r[1].npartitions):
        if tuple(final.divisions) != tuple(r[1].divisions):
            run.violation("%s: divisions %s differ from the uncut run %s" % (tag, r[1].divisions, final.divisions), dict(case, kind="cut-keywords-divisions"))


def run_family(run, rt, C):
    import time
    t0 = time.time()
    rng = run.rng
    quick = run.tier == "quick"
    kinds = list(C)
    stats = {}
    by_kind, by_step, by_layout = {}, {}, {}
    ncases = [0]

    def query(layout, nparts, index_kind, dtype_kind, heads, rows):
        desc = {"layout": layout, "npartitions": list(nparts), "index": index_kind, "dtype": dtype_kind, "heads": heads,
                "rows": rows, "data_seed": rng.randrange(10 ** 6)}
        qq = try_(lambda: _Query(rt, desc))
        if qq[0] == "raise":
            stats["query_not_built"] = stats.get("query_not_built", 0) + 1
            return None
        return qq[1]

    def case(q, spec, sides, cl, cr):
        for k in {cl if sides != "right" else None, cr if sides != "left" else None} - {None}:
            by_kind[k] = by_kind.get(k, 0) + 1
        by_step[spec["step"]] = by_step.get(spec["step"], 0) + 1
        by_layout[q.desc["layout"]] = by_layout.get(q.desc["layout"], 0) + 1
        ncases[0] += 1
        one_case(run, C, q, spec, sides, cl, cr, stats)

    # 1. systematic: every kind of cut x every choice of sides over the layouts of the four lowerings; the steps of
    #    CORE_STEPS (every keyword slot away from its default) are taken in turn
    core = [("one root", (3, 3), "where / identity"), ("two roots, equal divisions", (2, 2), "filters"),
            ("one root", (1, 1), "where / where"), ("two roots, different divisions", (3, 2), "identity / where"),
            ("one root, unknown divisions", (3, 3), "filter / identity")]
    if not quick:
        core += [("one root", (5, 5), "projections"), ("two roots, unknown divisions", (2, 2), "arithmetic / mask"),
                 ("two roots, equal divisions", (4, 4), "where / where"), ("one root", (2, 2), "filters")]
    turn = rng.randrange(len(CORE_STEPS))
    per_combo = 2 if quick else len(CORE_STEPS)
    for layout, nparts, heads in core:
        q = query(layout, nparts, rng.choice(INDEX_KINDS) if not quick else "int", rng.choice(["float", "float-nan", "int"]), heads, 18)
        if q is None:
            continue
        for cname in kinds:
            for sides in SIDES:
                if quick and LAYOUTS[layout][1] and sides != "left" and cname != "persist":
                    continue      # (the shuffle lowering is the slow one)
                done = 0
                for _k in range(len(CORE_STEPS)):
                    turn += 1
                    spec = CORE_STEPS[turn % len(CORE_STEPS)]
                    if applicable(q, spec, sides, cname, cname):
                        case(q, spec, sides, cname, cname)
                        done += 1
                        if done == per_combo:
                            break
    # 2. sweep: random members of the whole family (mixed kinds of cut, all layouts, labels, dtypes, heads, steps)
    nsweep = 8 if quick else 300
    per_query = 5 if quick else 12
    for _ in range(nsweep):
        layout = rng.choice(list(LAYOUTS) + ["one root", "one root"])
        nparts = (rng.choice([1, 2, 3, 4, 5]), rng.choice([1, 2, 3, 4]))
        q = query(layout, nparts, rng.choice(INDEX_KINDS), rng.choice(DTYPE_KINDS), rng.choice(list(HEADS)), rng.choice([10, 18, 30]))
        if q is None:
            continue
        done = 0
        for _j in range(per_query * 4):
            spec, sides, cl, cr = random_step(rng), rng.choice(SIDES), rng.choice(kinds), rng.choice(kinds)
            if not applicable(q, spec, sides, cl, cr):
                continue
            case(q, spec, sides, cl, cr)
            done += 1
            if done == per_query:
                break
    stats = {k: (sorted(v) if isinstance(v, set) else v) for k, v in stats.items()}
    run.section("cuts in front of a keyword-carrying aligned step", cases=ncases[0], layouts=by_layout, steps=by_step, cut_kinds=by_kind,
                wall_s=round(time.time() - t0, 1), **stats)


def replay_case(rt, C, case):
    """Re-runs one recorded case; the list of violations it gives (empty: the cut is transparent)."""
    class _R:
        seed = case.get("seed", 0)

        def __init__(self):
            self.v = []

        def count(self, *a, **k):
            pass

        def violation(self, what, replay, finding=None):
            self.v.append(what)
    r = _R()
    q = _Query(rt, {k: case[k] for k in ("layout", "npartitions", "index", "dtype", "heads", "rows", "data_seed")})
    one_case(r, C, q, case["step"], case["sides"], case.get("cut_left") or "persist", case.get("cut_right") or "persist", {})
    return r.v
