"""T-LAYER for SetIndex.v: the routing of rows to output partitions by set_index / sort_values on divisions.
(a) the operation of `_SetPartitionsPreSetIndex` (dask's set_partitions_pre, ascending, keys without missing values) against
    the extracted `sp_part`, for sorted division vectors with repeated entries and keys inside, on, below and above them;
(b) `df.set_index("k", divisions=...)` on unsorted multi-partition frames whose keys lie inside the divisions: reported
    divisions and computed partitions against `sp_parts` (theorem C06_set_index_truthful speaks about exactly these)."""
import common
from e2e import exec_expr, try_


class _KeyPiece:
    def __init__(self, chunks):
        self.chunks = tuple(tuple(c) for c in chunks)

    def __call__(self, i):
        import pandas as pd
        ks = list(self.chunks[i])
        return pd.DataFrame({"k": pd.Series(ks, dtype="int64"), "x": pd.Series([float(100 * i + j) for j in range(len(ks))], dtype="float64")})

    def __dask_tokenize__(self):
        return ("setindex-piece", self.chunks)


def _divs(rng):
    n = rng.choice([2, 3, 3, 4, 5])
    v, out = rng.randint(0, 3), []
    for _ in range(n):
        out.append(v)
        v += rng.choice([0, 1, 2, 3])
    return out


def function_layer(run, quick):
    """set_partitions_pre (ascending and descending) vs sp_part / sp_part_desc."""
    import pandas as pd
    from dask_expr._shuffle import _SetPartitionsPreSetIndex
    sx, m = common.sx, common.Model()
    rng = run.rng
    op = _SetPartitionsPreSetIndex.operation
    cases = []
    for _ in range(150 if quick else 4000):
        d = _divs(rng)
        keys = [rng.randint(d[0] - 2, d[-1] + 2) for _ in range(rng.randint(1, 8))] + [d[0], d[-1], rng.choice(d)]
        cases.append((d, keys, rng.random() < 0.6))
    ans = m.batch(["(%s %s %s)" % ("sp_model" if asc else "sp_model_desc", sx(d), sx(k)) for d, k, asc in cases])
    bad = 0
    for (d, keys, asc), a in zip(cases, ans):
        inside = all(d[0] <= k <= d[-1] for k in keys)
        run.count(("sp_part", len(d), inside, asc), nontrivial=len(set(d)) < len(d) or not inside)
        model = [int(v) for v in common.parse_sx(a)[0]]
        r = try_(lambda: [int(v) for v in op(pd.Series(keys, dtype="int64"), pd.Series(d, dtype="int64"), ascending=asc)])
        if r[0] != "ok" or r[1] != model:
            bad += 1
            run.broken_tie("T-LAYER set_partitions_pre", {"divisions": d, "keys": keys, "ascending": asc, "model": model, "real": repr(r)[:300]})
    run.section("setindex_layer_function", cases=len(cases), differing=bad)


def sort_order_layer(run, rt, quick):
    """sort_values(col, ascending=..., npartitions=..., upsample=...) on unsorted multi-partition frames: every key of an
    earlier output partition is <= (>=) every key of a later one, each partition is sorted, no row is lost or duplicated
    (C10_sort_any_divisions_ordered / C10_sort_desc_any_divisions_ordered speak about the routing that achieves this)."""
    rng = run.rng
    n = 0
    for _ in range(20 if quick else 500):
        chunks = [[rng.randint(0, 12) for _ in range(rng.randint(1, 6))] for _ in range(rng.choice([2, 3, 4]))]
        asc = rng.random() < 0.5
        kw = {"ascending": asc}
        if rng.random() < 0.5:
            kw["npartitions"] = rng.choice([1, 2, 3, 5])
        if rng.random() < 0.3:
            kw["upsample"] = rng.choice([1.0, 2.0, 5.0])
        kw["shuffle_method"] = rng.choice(["tasks", "disk"])
        piece = _KeyPiece(chunks)
        df = rt.dx.from_map(piece, list(range(len(chunks))), meta=piece(0).iloc[:0])
        n += 1
        run.count(("sort_order", len(chunks), asc, tuple(sorted(kw))), nontrivial=True)
        r = try_(lambda: [[int(v) for v in p.k] for p in exec_expr(df.sort_values("k", **kw).optimize(fuse=False).expr.lower_completely())])
        case = {"kind": "sort-order", "chunks": chunks, "kwargs": kw}
        if r[0] != "ok":
            run.violation("sort_values('k', **%r) on key chunks %s raises %s" % (kw, chunks, str(r[1])[:200]), case)
            continue
        parts = [p for p in r[1] if p]
        flat = [v for p in parts for v in p]
        keys = sorted((k for c in chunks for k in c), reverse=not asc)
        if flat != keys:
            run.violation("sort_values('k', **%r) on key chunks %s returns partitions %s, not a globally sorted frame with the same rows" % (kw, chunks, r[1]), case)
    run.section("sort_order_layer", cases=n)


def setindex_layer(run, rt, quick):
    import pandas as pd
    sx, m = common.sx, common.Model()
    rng = run.rng
    function_layer(run, quick)
    # (b) the public path
    cases, bad = [], 0
    for _ in range(25 if quick else 600):
        d = _divs(rng)
        if rng.random() < 0.7:
            d = sorted(set(d))          # pandas / dask accept repeated divisions only in some positions: mostly strict ones
        if len(d) < 2:
            d = [d[0], d[0] + 2]
        chunks = [[rng.randint(d[0], d[-1]) for _ in range(rng.randint(0, 5))] for _ in range(rng.choice([1, 2, 3]))]
        chunks[0] = chunks[0] + [d[-1]] if rng.random() < 0.5 else chunks[0] + [d[0]]
        cases.append((d, chunks, rng.choice(["tasks", "disk"])))
    ans = m.batch(["(sp_model %s %s)" % (sx(d), sx([k for c in ch for k in c])) for d, ch, _ in cases])
    for (d, chunks, method), a in zip(cases, ans):
        run.count(("set_index", len(d), len(chunks), method), nontrivial=len(chunks) > 1)
        mparts = [sorted(int(v) for v in p) for p in common.parse_sx(a)[1]]
        piece = _KeyPiece(chunks)
        df = rt.dx.from_map(piece, list(range(len(chunks))), meta=piece(0).iloc[:0])
        q = try_(lambda: df.set_index("k", divisions=list(d), shuffle_method=method))
        if q[0] == "raise":
            # divisions with repeated entries may be rejected up front: not a disagreement about routing
            if len(set(d)) < len(d):
                continue
            bad += 1
            run.broken_tie("T-LAYER set_index(divisions=)", {"divisions": d, "chunks": chunks, "real": "raises " + str(q[1])[:200]})
            continue
        rdivs = try_(lambda: [int(v) for v in q[1].divisions])
        rparts = try_(lambda: [[int(v) for v in p.index] for p in exec_expr(q[1].optimize(fuse=False).expr.lower_completely())])
        if rdivs[0] == "ok" and rparts[0] == "ok" and rdivs[1] == list(d) and [sorted(p) for p in rparts[1]] == mparts:
            continue
        bad += 1
        witness = None
        if rdivs[0] == "ok" and rparts[0] == "ok":
            tb = m.batch(["(truthfulb %s %s)" % (sx(rdivs[1]), sx(rparts[1]))])[0]
            keys = sorted(k for c in chunks for k in c)
            if tb != "true":
                witness = "set_index('k', divisions=%s, shuffle_method=%r) on key chunks %s reports divisions %s, computed partitions hold %s" % (d, method, chunks, rdivs[1], rparts[1])
            elif sorted(v for p in rparts[1] for v in p) != keys:
                witness = "set_index('k', divisions=%s, shuffle_method=%r) on key chunks %s returns index values %s" % (d, method, chunks, rparts[1])
        if witness:
            run.violation("set_index routing: " + witness, {"kind": "setindex-layer", "divisions": d, "chunks": chunks, "method": method})
        else:
            run.broken_tie("T-LAYER set_index(divisions=) partitions", {"divisions": d, "chunks": chunks, "method": method, "model": mparts, "real": repr((rdivs, rparts))[:400]})
    run.section("setindex_layer_public", cases=len(cases), differing=bad)
