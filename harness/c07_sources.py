"""C07 family: declared schema of column selections that are absorbed by a data source.

Every reader that absorbs projections (read_csv / read_table / read_fwf, both parquet readers, from_pandas, from_map,
from_array, from_dict, from_delayed) x tables whose header is NOT in sorted order (several dtype mixes, with and
without missing values, an all-null first partition, labels that sort in an unusual way) x file / partition counts x
reader options x column selections (single label, every ordered pair, triples, permutations of the whole header)
x what sits above the selection (nothing, elementwise, filter, second consumer of the source, positional relabelling,
iloc, head, partition selection, reduction, ...).

Oracles, all from the property text:
  (a) the declared schema of the query before optimization (container kind, labels and their order, names, dtype kinds;
      through _meta AND through the accessors .columns / .name / .dtypes) equals that of the computed result;
  (b) ... and that of every partition of the plan lowered without optimization, optimized, and optimized + fused;
  (c) optimization keeps the declared schema (_meta and accessors of the optimized plans equal those of the query);
  (d) every node of the optimized plans declares (through _meta and through .columns / .name) what it computes.
"""
import itertools
import os
import shutil
import tempfile
import time

import common
from e2e import exec_expr, try_, meta_mismatch, kind_of_dtype


# ----------------------------------------------------------------------------- data


def tables():
    """name -> (frame, numeric column without missing values).  Headers are deliberately not sorted (except `sorted`)."""
    import numpy as np
    import pandas as pd
    n = 12
    out = {}
    out["mixed"] = (pd.DataFrame({
        "z": [100 + i for i in range(n)], "m": [0.5 + i for i in range(n)], "a": ["s%d" % (i % 4) for i in range(n)],
        "k": [i % 3 == 0 for i in range(n)], "b": [7 * i % 5 for i in range(n)],
    }), "z")
    # missing values: float with NaN everywhere, strings with holes, a float column whose first third is all-null
    out["nulls"] = (pd.DataFrame({
        "y": [float(i) + 0.25 if i % 3 else np.nan for i in range(n)], "c": ["t%d" % i if i % 4 else None for i in range(n)],
        "x": [i for i in range(n)], "e": [np.nan] * 4 + [1.5 * i for i in range(4, n)], "d": [i % 2 == 1 for i in range(n)],
    }), "x")
    # labels whose sorted order is neither the header order nor a case-insensitive / numeric one
    out["labels"] = (pd.DataFrame({
        "b": [i for i in range(n)], "B": [float(i) / 2 for i in range(n)], "9": ["u%d" % (i % 2) for i in range(n)],
        "10": [i % 2 == 0 for i in range(n)], "_x": [i * i for i in range(n)],
    }), "b")
    # control: header already in sorted order
    out["sorted"] = (pd.DataFrame({
        "a": [i for i in range(n)], "b": [0.5 * i for i in range(n)], "c": ["v%d" % (i % 3) for i in range(n)], "d": [i % 2 == 0 for i in range(n)],
    }), "a")
    return out


def inmemory_tables():
    """Labels a text file cannot carry: integers and a mix of integers and strings (in-memory sources only)."""
    import pandas as pd
    n = 12
    return {
        "intlabels": (pd.DataFrame({2: [i for i in range(n)], 0: [0.5 * i for i in range(n)], 1: ["w%d" % (i % 3) for i in range(n)], -1: [i % 2 == 0 for i in range(n)]}), 2),
        "mixedlabels": (pd.DataFrame({"b": [i for i in range(n)], 1: [0.5 * i for i in range(n)], "a": ["w%d" % (i % 3) for i in range(n)], 0: [i % 2 == 0 for i in range(n)]}), "b"),
    }


class _Piece:
    """Row block i of n of a frame; optionally accepts the `columns` keyword from_map pushes projections into."""

    def __init__(self, pdf, n):
        self.pdf, self.n = pdf, n

    def __call__(self, i):
        k = (len(self.pdf) + self.n - 1) // self.n
        return self.pdf.iloc[i * k:(i + 1) * k]

    def __dask_tokenize__(self):
        from dask.base import tokenize
        return ("c07-piece", type(self).__name__, self.n, tokenize(self.pdf))


class _PieceCols(_Piece):
    def __call__(self, i, columns=None):
        p = _Piece.__call__(self, i)
        return p if columns is None else p[columns]


def _write_fwf(pdf, path):
    cols = list(pdf.columns)
    w = 12
    with open(path, "w") as f:
        f.write("".join(str(c).ljust(w) for c in cols) + "\n")
        for row in pdf.itertuples(index=False, name=None):
            f.write("".join(("" if (v is None or v != v) else str(v)).ljust(w) for v in row) + "\n")


def make_sources(dx, tmp, tname, pdf, text=True):
    """label -> (thunk building the source collection, kind).  The files are written once per table."""
    import dask
    cols = list(pdf.columns)
    n = len(pdf)
    src = {}

    def chunks(k):
        step = (n + k - 1) // k
        return [pdf.iloc[i * step:(i + 1) * step] for i in range(k)]

    src["from_pandas/1"] = lambda: dx.from_pandas(pdf, npartitions=1)
    src["from_pandas/3"] = lambda: dx.from_pandas(pdf, npartitions=3)
    src["from_pandas/unsorted"] = lambda: dx.from_pandas(pdf, npartitions=2, sort=False)
    src["from_map"] = lambda: dx.from_map(_Piece(pdf, 3), [0, 1, 2], meta=pdf.iloc[:0])
    src["from_map/columns-kw"] = lambda: dx.from_map(_PieceCols(pdf, 3), [0, 1, 2], meta=pdf.iloc[:0])
    src["from_delayed"] = lambda: dx.from_delayed([dask.delayed(_Piece(pdf, 2))(i) for i in (0, 1)], meta=pdf.iloc[:0])
    src["from_dict"] = lambda: dx.from_dict({c: list(pdf[c]) for c in cols}, npartitions=2)
    if not text:
        return src
    d = os.path.join(tmp, tname)
    os.makedirs(d)
    for k in (1, 2, 3):
        for i, ch in enumerate(chunks(k)):
            ch.to_csv(os.path.join(d, "c%d_%d.csv" % (k, i)), index=False)
    for i, ch in enumerate(chunks(2)):
        ch.to_csv(os.path.join(d, "t%d.tsv" % i), index=False, sep="\t")
        ch.to_csv(os.path.join(d, "s%d.txt" % i), index=False, sep=";")
        ch.to_csv(os.path.join(d, "h%d.csv" % i), index=False, header=False)
        _write_fwf(ch, os.path.join(d, "w%d.fwf" % i))
    dx.from_pandas(pdf, npartitions=3).to_parquet(os.path.join(d, "pq"))
    dx.from_pandas(pdf, npartitions=1).to_parquet(os.path.join(d, "pq1"))
    g = lambda pat: os.path.join(d, pat)
    size0 = os.path.getsize(g("c1_0.csv"))
    src["read_csv/1"] = lambda: dx.read_csv(g("c1_*.csv"))
    src["read_csv/2"] = lambda: dx.read_csv(g("c2_*.csv"))
    src["read_csv/3"] = lambda: dx.read_csv(g("c3_*.csv"))
    src["read_csv/blocksize"] = lambda: dx.read_csv(g("c1_*.csv"), blocksize=max(64, size0 // 3))
    src["read_csv/sep"] = lambda: dx.read_csv(g("s*.txt"), sep=";")
    # usecols= is given in FILE order only: on the unmodified tree read_csv(usecols=['a', 'z', 'm'])[['a', 'z']] over a file with
    # header z,m,a declares ['a', 'z'] and computes ['z', 'a'] (pristine finding, left out of the family)
    src["read_csv/usecols-file-order"] = lambda: dx.read_csv(g("c2_*.csv"), usecols=cols[:-1])
    src["read_csv/names"] = lambda: dx.read_csv(g("h*.csv"), header=None, names=cols)
    # read_csv(include_path_column=True) is left out: on the unmodified tree every projection of it still computes the
    # path column (declared ['m'], computed ['m', 'path']) -- reported as a pristine finding, not part of this family
    src["read_table"] = lambda: dx.read_table(g("t*.tsv"))
    src["read_fwf"] = lambda: dx.read_fwf(g("w*.fwf"))
    src["read_parquet"] = lambda: dx.read_parquet(g("pq"))
    src["read_parquet/1"] = lambda: dx.read_parquet(g("pq1"))
    src["read_parquet/arrow"] = lambda: dx.read_parquet(g("pq"), filesystem="arrow")
    src["read_parquet/index-false"] = lambda: dx.read_parquet(g("pq"), index=False)
    src["read_parquet/columns"] = lambda: dx.read_parquet(g("pq"), columns=list(reversed(cols)))
    src["read_parquet/divisions"] = lambda: dx.read_parquet(g("pq"), calculate_divisions=True)
    return src


# ----------------------------------------------------------------------------- queries


def _relabel(q, labels):
    q = q.copy()
    q.columns = labels
    return q


def frame_consumers(dx, num):
    """name -> f(source, selection list) -> collection.  `num`: a numeric column without missing values of the source."""
    return {
        "plain": lambda y, s: y[s],
        "loc": lambda y, s: y.loc[:, s],
        "isna below": lambda y, s: y.isna()[s],
        "isna above": lambda y, s: y[s].isna(),
        "filter below": lambda y, s: y[y[num] >= 0][s],
        "filter above": lambda y, s: y[s][y[num] >= 0],
        "second consumer": lambda y, s: y[s].assign(extra_=y[num]),
        "double selection": lambda y, s: y[s + [c for c in y.columns if c not in s][:1]][s],
        "reselect reversed": lambda y, s: y[s][list(reversed(s))],
        "head": lambda y, s: y[s].head(3, compute=False),
        "tail": lambda y, s: y[s].tail(2, compute=False),
        "rename": lambda y, s: y[s].rename(columns={s[0]: "renamed_"}),
        "positional relabel": lambda y, s: _relabel(y[s], ["c%d_" % i for i in range(len(s))]),
        "iloc first": lambda y, s: y[s].iloc[:, [0]],
        "iloc reversed": lambda y, s: y[s].iloc[:, list(range(len(s) - 1, -1, -1))],
        "last partition": lambda y, s: y.partitions[[y.npartitions - 1]][s],
        "fillna": lambda y, s: y[s].fillna(0),
        "dropna": lambda y, s: y[s].dropna(),
        "count": lambda y, s: y[s].count(),
        "index": lambda y, s: y[s].index,
        "concat": lambda y, s: dx.concat([y[s], y[s]]),
        "repartition": lambda y, s: y[s].repartition(npartitions=1),
        "map_partitions": lambda y, s: y[s].map_partitions(_identity),
        "column of selection": lambda y, s: y[s][s[-1]],
        "reset_index": lambda y, s: y[s].reset_index(drop=True),
        "two orders": lambda y, s: y[s].isna() | y[list(reversed(s))].isna(),
    }


def series_consumers(dx, num):
    return {
        "plain": lambda y, c: y[c],
        "isna": lambda y, c: y[c].isna(),
        "filter": lambda y, c: y[c][y[num] >= 0],
        "to_frame": lambda y, c: y[c].to_frame(),
        "rename": lambda y, c: y[c].rename("renamed_"),
        "head": lambda y, c: y[c].head(3, compute=False),
        "index": lambda y, c: y[c].index,
        "from list": lambda y, c: y[[c]][c],
        "last partition": lambda y, c: y.partitions[[y.npartitions - 1]][c],
        "count": lambda y, c: y[c].count(),
        "nunique": lambda y, c: y[c].nunique(),
    }


def _identity(p):
    return p


# ----------------------------------------------------------------------------- oracle


def _kind(obj):
    import pandas as pd
    if isinstance(obj, pd.DataFrame):
        return "frame"
    if isinstance(obj, pd.Series):
        return "series"
    if isinstance(obj, pd.Index):
        return "index"
    return "scalar"


def declared(e):
    """The schema an expression reports through its accessors (not through _meta)."""
    import pandas as pd
    m = e._meta
    k = _kind(m)
    d = {"kind": k}
    if k == "frame":
        d["columns"] = list(e.columns)
        d["dtypes"] = [kind_of_dtype(t) for t in e.dtypes]
        d["dtype labels"] = list(e.dtypes.index)
    elif k in ("series", "index"):
        d["name"] = e.name
        d["columns"] = list(e.columns)
    return d


def accessor_mismatch(e, data):
    """Accessors of the expression versus a computed pandas object (labels, order, names)."""
    import pandas as pd
    d = declared(e)
    if d["kind"] != _kind(data):
        return "declared a %s, data is a %s" % (d["kind"], _kind(data))
    if d["kind"] == "frame":
        if d["columns"] != list(data.columns):
            return ".columns %s != data columns %s" % (d["columns"], list(data.columns))
        if d["dtype labels"] != list(data.columns):
            return ".dtypes labels %s != data columns %s" % (d["dtype labels"], list(data.columns))
        if len(data):
            for c, km, dt in zip(d["columns"], d["dtypes"], data.dtypes):
                kp = kind_of_dtype(dt)
                if km != kp and (km, kp) not in {("int", "float"), ("bool", "float"), ("bool", "str"), ("int", "str")}:
                    return ".dtypes[%r] is %s, data dtype %s" % (c, km, dt)
    elif d["kind"] in ("series", "index"):
        if d["name"] != data.name and not (d["name"] is None and data.name is None):
            return ".name %r != data name %r" % (d["name"], data.name)
        if d["kind"] == "series" and d["columns"] != [data.name]:
            return ".columns %s != [data name %r]" % (d["columns"], data.name)
    return None


def schema_diff(a, b):
    """Two declared schemas (meta objects): kind, labels, names and dtype kinds."""
    if _kind(a) != _kind(b):
        return "container kind %s -> %s" % (_kind(a), _kind(b))
    if _kind(a) == "frame":
        if list(a.columns) != list(b.columns):
            return "columns %s -> %s" % (list(a.columns), list(b.columns))
        for c, x, y in zip(a.columns, a.dtypes, b.dtypes):
            if kind_of_dtype(x) != kind_of_dtype(y):
                return "dtype of %r %s -> %s" % (c, x, y)
        if a.index.name != b.index.name:
            return "index name %r -> %r" % (a.index.name, b.index.name)
    elif _kind(a) in ("series", "index"):
        if a.name != b.name and not (a.name is None and b.name is None):
            return "name %r -> %r" % (a.name, b.name)
        if kind_of_dtype(a.dtype) != kind_of_dtype(b.dtype):
            return "dtype %s -> %s" % (a.dtype, b.dtype)
    return None


def check_query(q, node_stages=("optimized", "fused")):
    """All C07 findings of one collection (list of strings); None when the query cannot be evaluated at all."""
    e = q.expr
    m0 = try_(lambda: e._meta)
    ref = try_(lambda: exec_expr(e.lower_completely()))
    if m0[0] != "ok" or ref[0] != "ok":
        return None
    m0 = m0[1]
    out = []
    # the collection's own accessors against its meta
    if _kind(m0) == "frame":
        if list(q.columns) != list(m0.columns):
            out.append("collection .columns %s != _meta columns %s" % (list(q.columns), list(m0.columns)))
        if list(q.dtypes.index) != list(m0.columns):
            out.append("collection .dtypes labels %s != _meta columns %s" % (list(q.dtypes.index), list(m0.columns)))
    elif _kind(m0) in ("series", "index"):
        if q.name != m0.name and not (q.name is None and m0.name is None):
            out.append("collection .name %r != _meta name %r" % (q.name, m0.name))
    want = {"frame": "DataFrame", "series": "Series", "index": "Index", "scalar": "Scalar"}[_kind(m0)]
    if type(q).__name__ != want:
        out.append("collection type %s but meta is a %s" % (type(q).__name__, _kind(m0)))
    # (a) computed result
    r = try_(lambda: q.compute())
    if r[0] == "raise":
        out.append("compute() raises %s; the plan lowered without optimization computes" % r[1])
    else:
        msg = ("computed result is a %s, declared %s" % (_kind(r[1]), _kind(m0))) if _kind(r[1]) != _kind(m0) else (meta_mismatch(m0, r[1]) or accessor_mismatch(e, r[1]))
        if msg:
            out.append("declared schema vs compute(): %s" % msg)
    # (b) + (c) stages
    stages = [("unoptimized", ("ok", e.lower_completely()), ref)]
    for st, fuse in (("optimized", False), ("fused", True)):
        o = try_(lambda: q.optimize(fuse=fuse).expr)
        if o[0] == "raise":
            out.append("optimize(fuse=%s) raises %s" % (fuse, o[1]))
            continue
        stages.append((st, o, try_(lambda: exec_expr(o[1]))))
    for st, o, parts in stages:
        oe = o[1]
        if parts[0] == "raise":
            out.append("%s plan fails: %s" % (st, parts[1]))
            continue
        m1 = try_(lambda: oe._meta)
        if m1[0] == "raise":
            out.append("%s plan has no _meta: %s" % (st, m1[1]))
        else:
            msg = schema_diff(m0, m1[1])
            if msg:
                out.append("%s plan changes the declared schema: %s" % (st, msg))
            d0, d1 = try_(lambda: declared(e)), try_(lambda: declared(oe))
            if d0[0] == "ok" and d1[0] == "ok" and d0[1] != d1[1]:
                out.append("%s plan changes the declared accessors: %s -> %s" % (st, d0[1], d1[1]))
            elif d1[0] == "raise":
                out.append("%s plan: accessors raise %s" % (st, d1[1]))
        for i, p in enumerate(parts[1]):
            msg = meta_mismatch(m0, p) or accessor_mismatch(e, p)
            if msg:
                out.append("%s plan, partition %d vs the declared schema of the query: %s" % (st, i, msg))
                break
        # (d) every node of the plan
        if st in node_stages:
            seen = set()
            for node in oe.walk():
                if node._name in seen:
                    continue
                seen.add(node._name)
                nm = try_(lambda: node._meta)
                if nm[0] != "ok" or _kind(nm[1]) == "scalar":
                    continue
                np_ = try_(lambda: exec_expr(node.lower_completely()))
                if np_[0] != "ok":
                    continue
                for i, p in enumerate(np_[1]):
                    msg = meta_mismatch(nm[1], p)
                    if not msg:
                        am = try_(lambda: accessor_mismatch(node, p))
                        msg = am[1] if am[0] == "ok" else "accessors raise %s" % am[1]
                    if msg:
                        out.append("%s plan, node %s, partition %d: %s" % (st, type(node).__name__, i, msg))
                        break
    return out


# ----------------------------------------------------------------------------- driver

# consumers that reduce over the columns: left out for tables with labels of mixed types.  On the unmodified tree
# from_pandas(DataFrame({"b": .., 1: ..})).count().compute() raises TypeError ('<' between int and str): the divisions of a
# reduction are min/max of the labels (_reductions.py, _divisions).  An exception, not a wrong declaration -> not this property.
REDUCTIONS = ("count", "nunique")


def selections(cols, rng):
    """Single labels, every ordered pair, triples and permutations of the whole header (and of the header minus one label)."""
    pairs = [list(p) for p in itertools.permutations(cols, 2)]
    triples = [list(p) for p in itertools.permutations(cols, 3)]
    whole = [list(cols), list(reversed(cols)), sorted(cols, key=_label_key), sorted(cols, key=_label_key, reverse=True)]
    whole += [rng.sample(cols, len(cols)) for _ in range(2)]
    whole += [[c for c in w if c != drop] for w in whole[1:4] for drop in (cols[0], cols[-1])]
    return [[c] for c in cols], pairs, triples, whole


def _label_key(c):
    return (isinstance(c, str), c)


def plan_cases(rng, quick, cols, scols, fnames, snames):
    """(shape, selection, consumer) triples for one source of one table."""
    own = [c for c in cols if c in scols]
    singles, pairs, triples, whole = selections(own, rng)
    if quick:
        cases = [("list", rng.choice(pairs), "plain"), ("list", rng.choice(pairs), rng.choice(fnames))]
        cases += [("list", rng.choice(triples + whole + singles), rng.choice(fnames))]
        cases += [("label", rng.choice(own), rng.choice(snames))]
        return cases
    cases = [("list", s, "plain") for s in pairs + whole + singles]
    cases += [("list", s, rng.choice(fnames)) for s in pairs + whole + singles]
    cases += [("list", s, cn) for s in rng.sample(triples, min(6, len(triples))) for cn in ["plain", rng.choice(fnames)]]
    cases += [("list", s, cn) for s in rng.sample(pairs + whole, 2) for cn in fnames]
    cases += [("label", c, cn) for c in own for cn in ["plain"] + rng.sample(snames, 4)]
    return cases


def run_family(run):
    import rt
    dx = rt.dx
    quick = run.tier == "quick"
    rng = run.rng
    tmp = tempfile.mkdtemp(prefix="c07_", dir=common.BUILD)
    n = bad = skipped = 0
    per_source, per_table = {}, {}
    t0 = time.time()
    try:
        specs = [(tn, pdf, num, True) for tn, (pdf, num) in tables().items()] + [(tn, pdf, num, False) for tn, (pdf, num) in inmemory_tables().items()]
        for tname, pdf, num, text in specs:
            cols = list(pdf.columns)
            mixed_labels = len({type(c) for c in cols}) > 1
            sources = make_sources(dx, tmp, tname, pdf, text=text)
            fcons, scons = frame_consumers(dx, num), series_consumers(dx, num)
            fnames = [c for c in sorted(fcons) if not (mixed_labels and c in REDUCTIONS)]
            snames = [c for c in sorted(scons) if not (mixed_labels and c in REDUCTIONS)]
            snames_all = sorted(sources)
            if quick:                                           # every source on the first table, samples of them on the others
                k = {"mixed": len(snames_all), "nulls": len(snames_all) // 2, "labels": 8, "sorted": 4}.get(tname, 4)
                snames_all = sorted(rng.sample(snames_all, k))
            for sname in snames_all:
                y0 = try_(sources[sname])
                if y0[0] == "raise":
                    skipped += 1
                    continue
                y = y0[1]
                scols = list(y.columns)                           # the source's own labels (usecols= narrows them)
                done = set()
                for shape, sel, cn in plan_cases(rng, quick, cols, scols, fnames, snames):
                    key = (tname, sname, shape, repr(sel), cn)
                    if key in done:
                        continue
                    done.add(key)
                    cf = (fcons if shape == "list" else scons)[cn]
                    case = {"kind": "source-selection", "table": tname, "source": sname, "header": [_js(c) for c in scols],
                            "select": [_js(c) for c in sel] if shape == "list" else _js(sel), "shape": shape, "consumer": cn}
                    q = try_(lambda: cf(y, sel))
                    if q[0] == "raise":
                        skipped += 1          # the query cannot be built: nothing is declared (C02's business)
                        continue
                    run.count(("source-selection",) + key, nontrivial=(shape == "list" and len(sel) > 1))
                    n += 1
                    per_source[sname] = per_source.get(sname, 0) + 1
                    per_table[tname] = per_table.get(tname, 0) + 1
                    res = try_(lambda: check_query(q[1], node_stages=("optimized",) if quick else ("optimized", "fused")))
                    if res[0] == "raise":
                        bad += 1
                        run.violation("%s over selection %s of %s (table %s, header %s): reading the declared schema raises %s" % (cn, sel, sname, tname, scols, res[1]), case)
                    elif res[1] is None:
                        skipped += 1
                    elif res[1]:
                        bad += 1
                        run.violation("%s over selection %s of %s (table %s, header %s): %s" % (cn, sel, sname, tname, scols, res[1][0]), dict(case, findings=res[1][:8]))
    finally:
        shutil.rmtree(tmp, ignore_errors=True)
    run.section("source selections", cases=n, violations=bad, skipped=skipped, per_source=per_source, per_table=per_table, wall_s=round(time.time() - t0, 1))


def _js(c):
    return c if isinstance(c, (str, int, float, bool)) or c is None else repr(c)


def replay_case(case):
    """Re-evaluate one recorded case of this family; returns the list of findings (empty = the property holds for it)."""
    import rt
    allt = dict(tables())
    allt.update(inmemory_tables())
    pdf, num = allt[case["table"]]
    tmp = tempfile.mkdtemp(prefix="c07_", dir=common.BUILD)
    try:
        y = make_sources(rt.dx, tmp, case["table"], pdf, text=case["table"] in tables())[case["source"]]()
        cons = frame_consumers(rt.dx, num) if case["shape"] == "list" else series_consumers(rt.dx, num)
        return check_query(cons[case["consumer"]](y, case["select"])) or []
    finally:
        shutil.rmtree(tmp, ignore_errors=True)
