"""C15 -- sessions over SIBLING queries: queries that differ only in a detail of ONE operand.

Every expression is a singleton by name (Expr._instances), and every memo of the planner is keyed by names.  A name is a
token of the operands, so the table is transparent only while two different queries never get the same token.  Two queries
are most likely to be confused when their operands are "almost" the same value.  This family plays sessions over such
siblings:

    source     a pandas frame (index kind x partition count x dtype of a column x missing values; c15_shared.make_cfg)
    operator   how a user operand reaches a query: keyword / positional arguments of map_partitions (frame, Series,
               two frames, explicit meta, projected), map_overlap, DataFrame.apply, Series.apply, reduction, groupby.apply,
               from_map; and built-in operators with operands of their own (assign, fillna, astype, rename, getitem,
               sort_values, drop, nlargest, groupby keys, groupby.agg specs, quantile lists, arithmetic with a scalar ...)
    group      a set of sibling operand values: the same items of a dict in several orders (dict / OrderedDict /
               defaultdict), the same number as int / float / bool / numpy scalar types, 0.0 / -0.0, list / tuple and
               their orders, nestings of the same leaves, kinds of missing value, str / bytes, dict keys of several types,
               arrays and Series that differ in dtype / name / index, functions with the same code and another closure
    wrapper    where the operand sits: directly, or as an item of dicts / lists / tuples (one or two levels deep)
    session    the siblings are built in a random order, touched (optimize / compute / meta / len / failing computation),
               some are discarded (+gc), and each one is observed while others are alive and after they were discarded

The user functions show everything of the operand they receive (types and order included): `tag` writes a description of
it into a column, `spread` additionally makes one column per leaf in traversal order (the meta depends on the operand).
Every observation (columns of the meta, plan fingerprint, divisions, npartitions, dtypes, exact result) is compared with
the observation of the same query built alone in a fresh interpreter on data with a salt of its own.
"""
import collections
import gc
import itertools

import numpy as np
import pandas as pd

from e2e import try_
import c15_shared as sh

# ----------------------------------------------------------------------------- what a user function can see of an operand


def sig(v):
    """Description of an operand with types and order."""
    if isinstance(v, dict):
        return "%s{%s}" % (type(v).__name__, ", ".join("%s: %s" % (sig(k), sig(x)) for k, x in v.items()))
    if isinstance(v, (list, tuple)):
        return "%s[%s]" % (type(v).__name__, ", ".join(sig(x) for x in v))
    if isinstance(v, np.ndarray):
        return "ndarray<%s>[%s]" % (v.dtype, ", ".join(sig(x) for x in v.tolist()))
    if isinstance(v, pd.Series):
        return "Series<%s name=%r index=%r>[%s]" % (v.dtype, v.name, v.index.tolist(), ", ".join(sig(x) for x in v.tolist()))
    if callable(v):
        return "fn->" + sig(v())
    return "%s:%r" % (type(v).__name__, v)


def leaves(v, path=""):
    if isinstance(v, dict):
        return [x for k, u in v.items() for x in leaves(u, "%s/%r" % (path, k))]
    if isinstance(v, (list, tuple)):
        return [x for i, u in enumerate(v) for x in leaves(u, "%s/%d" % (path, i))]
    return [(path or "/", sig(v))]


def tag(part, spec=None):
    return part.assign(t=sig(spec))


def spread(part, spec=None):
    return part.assign(**{"c" + p: s for p, s in leaves(spec)}).assign(t=sig(spec))


STYLES = {"tag": tag, "spread": spread}


def _s_adapt(s, f=None, spec=None):
    return f(s.to_frame(), spec)


def _two(a, b, f=None, spec=None):
    return f(pd.concat([a, b], axis=1), spec)


def _ov(part, f=None, spec=None):
    return f(part, spec)


def _row(row, spec=None):
    return "%r|%s" % (row["z"], sig(spec))


def _el(x, spec=None):
    return "%r|%s" % (x, sig(spec))


def _chunk(part, spec=None):
    return pd.DataFrame({"n": [len(part)], "t": [sig(spec)]})


def _agg(parts, spec=None):
    return pd.DataFrame({"n": [int(parts.n.sum())], "t": ["+".join(sorted(set(parts.t)))], "u": [sig(spec)]})


def _grp(g, spec=None):
    return g[["z"]].assign(t=sig(spec))


def _src(i, spec=None, salt=None, f=None):
    return f(pd.DataFrame({"i": [i, i + 10], "z": [0.5 * i, 1.0]}), spec)


def _boom(part):
    raise ZeroDivisionError("injected")


def _const_fn(k):
    return lambda: k


def _default_fn(k):
    return lambda k=k: k


# ----------------------------------------------------------------------------- groups of sibling operand values
# A group is a JSON-able description; variants(desc) builds the values (the same in the session and in the baselines).

_NUM_TYPES = ["int", "float", "bool", "int64", "int32", "float64", "float32", "uint8"]
_DICT_TYPES = {"dict": dict, "OrderedDict": collections.OrderedDict, "defaultdict": lambda items: collections.defaultdict(int, items)}


def _num(typ, base):
    return {"int": int, "float": float, "bool": bool, "int64": np.int64, "int32": np.int32, "float64": np.float64, "float32": np.float32, "uint8": np.uint8}[typ](base)


def _key(k):
    return tuple(k) if isinstance(k, list) else k


def variants(d):
    k = d["kind"]
    if k in ("dict-order", "newcols", "colnum", "coltypes", "colnames", "aggdict"):
        items = [(_key(a), b) for a, b in d["items"]]
        mk = _DICT_TYPES[d.get("typ", "dict")]
        return [mk([items[i] for i in p]) for p in d["perms"]]
    if k == "dict-type":
        items = [(_key(a), b) for a, b in d["items"]]
        return [_DICT_TYPES[t](items) for t in d["types"]]
    if k == "num-type":
        return [_num(t, d["base"]) for t in d["types"]]
    if k == "signed-zero":
        return [{"0.0": 0.0, "-0.0": -0.0, "0": 0, "False": False, "np -0.0": np.float64(-0.0), "np 0.0": np.float64(0.0)}[t] for t in d["which"]]
    if k in ("seq-order", "collist", "qlist", "boollist", "agglist"):
        its = d["items"]
        return [(tuple if t == "tuple" else list)(its[i] for i in p) for t, p in d["forms"]]
    if k == "seq-shape":
        a, b, c = d["items"]
        return [{"a[bc]": [a, [b, c]], "[ab]c": [[a, b], c], "[abc]": [[a, b, c]], "abc": [a, b, c], "a(bc)": [a, (b, c)], "(ab)c": ((a, b), c), "[a][b][c]": [[a], [b], [c]]}[s] for s in d["shapes"]]
    if k == "missing":
        return [{"nan": float("nan"), "None": None, "NA": pd.NA, "NaT": pd.NaT, "nan32": np.float32("nan"), "nan64": np.float64("nan"), "str": "nan"}[t] for t in d["which"]]
    if k == "text":
        s = d["s"]
        return [{"str": s, "bytes": s.encode(), "space": s + " ", "upper": s.upper(), "tuple": (s,), "chars": list(s)}[t] for t in d["which"]]
    if k == "key-type":
        return [{{"int": int, "float": float, "str": str, "bool": bool, "int64": np.int64}[t](b): v for b, v in d["items"]} for t in d["types"]]
    if k == "array":
        return [np.array(d["values"], dtype=t) if t != "list" else list(d["values"]) for t in d["dtypes"]]
    if k == "series":
        vals = d["values"]
        n = len(vals)
        forms = {"plain": lambda: pd.Series(vals), "named": lambda: pd.Series(vals, name="a"), "float": lambda: pd.Series(vals, dtype="float64"),
                 "reindexed": lambda: pd.Series(vals, index=list(range(n))[::-1]), "reversed": lambda: pd.Series(vals[::-1], index=list(range(n))[::-1]),
                 "strindex": lambda: pd.Series(vals, index=[str(i) for i in range(n)])}
        return [forms[f]() for f in d["forms"]]
    if k == "function":
        inner = variants(d["of"])
        return [(_const_fn if d["how"] == "closure" else _default_fn)(v) for v in inner]
    raise KeyError(k)


def _perms(rng, n, k):
    allp = list(itertools.permutations(range(n)))
    rng.shuffle(allp)
    return [list(p) for p in allp[:k]]


_KEYS = ["x", "y", "a", "b", "k0", "z9", "B", "_"]


def _items(rng, n, keys=None, values=None):
    ks = rng.sample(keys or _KEYS, n)
    kind = values or rng.choice(["int", "float", "str", "mixed"])
    vals = []
    for i in range(n):
        c = kind if kind != "mixed" else rng.choice(["int", "float", "str", "none"])
        vals.append({"int": rng.randrange(4), "float": rng.randrange(8) / 2, "str": "v%d" % rng.randrange(3), "none": None}[c])
    return [[a, b] for a, b in zip(ks, vals)]


def gen_group(rng, kind, maxv):
    """A random group of the given kind with at most maxv variants."""
    if kind == "dict-order":
        n = rng.choice([2, 2, 3, 4])
        keys = rng.choice([None, None, [1, 2, 3, 5, 8], ["x", 1, "y", 2.5, "1"], [["a", 1], ["a", 2], ["b", 1], ["c", 0]]])
        return {"kind": kind, "items": _items(rng, n, keys), "typ": rng.choice(["dict", "dict", "OrderedDict", "defaultdict"]), "perms": _perms(rng, n, maxv)}
    if kind == "dict-type":
        return {"kind": kind, "items": _items(rng, rng.choice([1, 2, 3])), "types": rng.sample(list(_DICT_TYPES), 3)[:maxv]}
    if kind == "num-type":
        base = rng.choice([0, 1, 1, 2, 3])
        types = [t for t in _NUM_TYPES if t != "bool" or base in (0, 1)]
        return {"kind": kind, "base": base, "types": rng.sample(types, min(maxv, len(types)))}
    if kind == "signed-zero":
        return {"kind": kind, "which": rng.sample(["0.0", "-0.0", "0", "False", "np -0.0", "np 0.0"], min(maxv, 6))}
    if kind == "seq-order":
        n = rng.choice([2, 3, 3])
        its = [b for _, b in _items(rng, n)]
        while len(set(map(repr, its))) < 2:
            its = [b for _, b in _items(rng, n)]
        forms = [(t, p) for p in _perms(rng, n, 3) for t in ("list", "tuple")]
        rng.shuffle(forms)
        return {"kind": kind, "items": its, "forms": [list(f) for f in forms[:maxv]]}
    if kind == "seq-shape":
        return {"kind": kind, "items": [b for _, b in _items(rng, 3)], "shapes": rng.sample(["a[bc]", "[ab]c", "[abc]", "abc", "a(bc)", "(ab)c", "[a][b][c]"], min(maxv, 7))}
    if kind == "missing":
        return {"kind": kind, "which": rng.sample(["nan", "None", "NA", "NaT", "nan32", "nan64", "str"], min(maxv, 7))}
    if kind == "text":
        return {"kind": kind, "s": rng.choice(["a", "xy", "sum"]), "which": rng.sample(["str", "bytes", "space", "upper", "tuple", "chars"], min(maxv, 6))}
    if kind == "key-type":
        return {"kind": kind, "items": [[b, "p%d" % b] for b in rng.sample([0, 1, 10, 20], rng.choice([1, 2]))], "types": rng.sample(["int", "float", "str", "int64"], min(maxv, 4))}
    if kind == "array":
        return {"kind": kind, "values": [rng.randrange(3) for _ in range(rng.choice([1, 2, 3]))], "dtypes": rng.sample(["int64", "int32", "float64", "float32", "uint8", "object", "list"], min(maxv, 7))}
    if kind == "series":
        return {"kind": kind, "values": [rng.randrange(1, 4) + i * 4 for i in range(rng.choice([2, 3]))], "forms": rng.sample(["plain", "named", "float", "reindexed", "reversed", "strindex"], min(maxv, 6))}
    if kind == "function":
        return {"kind": kind, "how": rng.choice(["closure", "default"]), "of": gen_group(rng, rng.choice(["dict-order", "num-type", "seq-order", "signed-zero", "missing"]), maxv)}
    # operands of built-in operators
    if kind == "newcols":
        n = rng.choice([2, 3])
        return {"kind": kind, "items": _items(rng, n, ["p", "q", "r", "a"], rng.choice(["int", "float", "str"])), "perms": _perms(rng, n, maxv)}
    if kind == "colnum":
        return {"kind": kind, "items": [["y", rng.randrange(3)], ["z", rng.randrange(6) / 2], ["x", 0]][:rng.choice([2, 3])], "perms": None}
    if kind == "coltypes":
        return {"kind": kind, "items": [["y", rng.choice(["float64", "float32"])], ["z", rng.choice(["float32", "object"])]], "perms": [[0, 1], [1, 0]]}
    if kind == "colnames":
        return {"kind": kind, "items": [["y", rng.choice(["p", "z2"])], ["z", "q"], ["x", "r"]][:rng.choice([2, 3])], "perms": None}
    if kind == "aggdict":
        fs = rng.sample(["sum", "min", "max", "count", "mean"], 3)
        return {"kind": kind, "items": [["y", rng.choice([fs[0], fs[:2], fs[1::-1]])], ["z", rng.choice([fs[1], fs[1:], fs[:0:-1]])]], "perms": [[0, 1], [1, 0]]}
    if kind == "agglist":
        its = rng.sample(["sum", "min", "max", "count", "mean"], rng.choice([2, 3]))
        return {"kind": kind, "items": its, "forms": [["list", p] for p in _perms(rng, len(its), maxv)]}
    if kind == "collist":
        its = rng.sample(["x", "y", "z"], rng.choice([2, 3]))
        return {"kind": kind, "items": its, "forms": [["list", p] for p in _perms(rng, len(its), maxv)]}
    if kind == "qlist":
        its = sorted(rng.sample([0.1, 0.25, 0.5, 0.75, 0.9], rng.choice([2, 3])))
        forms = [(t, p) for p in _perms(rng, len(its), 3) for t in ("list", "tuple")]
        rng.shuffle(forms)
        return {"kind": kind, "items": its, "forms": [list(f) for f in forms[:maxv]]}
    if kind == "boollist":
        return {"kind": kind, "items": [True, False], "forms": [["list", [0, 1]], ["list", [1, 0]], ["list", [0, 0]], ["list", [1, 1]]][:max(2, maxv)]}
    raise KeyError(kind)


def _fix_perms(rng, d, maxv):
    if d.get("perms", 0) is None:
        d["perms"] = _perms(rng, len(d["items"]), maxv)
    return d


ANY_KINDS = ["dict-order", "dict-type", "num-type", "signed-zero", "seq-order", "seq-shape", "missing", "text", "key-type", "array", "series", "function"]

WRAPS = {
    "direct": lambda v: v,
    "dict": lambda v: {"k": v},
    "dict-dict": lambda v: {"k": {"j": v}, "m": 0},
    "list": lambda v: [v],
    "tuple": lambda v: (0, v),
    "list-dict": lambda v: [{"k": v}],
    "dict-list": lambda v: {"k": [v, 1]},
    "tuple-dict-tuple": lambda v: ({"k": (v,)},),
    "odict": lambda v: collections.OrderedDict([("k", v), ("m", 1)]),
    "dict-odict-list": lambda v: {"k": collections.OrderedDict([("j", [v])])},
}

# ----------------------------------------------------------------------------- operators


def _xz(e):
    return e["df"][["x", "z"]]


# operators of user functions: (dx, env, f, v) -> collection; any operand
GENERIC = {
    "mp_kw": lambda dx, e, f, v: e["df"].map_partitions(f, spec=v),
    "mp_arg": lambda dx, e, f, v: e["df"].map_partitions(f, v),
    "mp_meta": lambda dx, e, f, v: _xz(e).map_partitions(f, spec=v, meta=f(_xz(e)._meta, v)),
    "mp_series": lambda dx, e, f, v: e["df"].z.map_partitions(_s_adapt, f=f, spec=v),
    "mp_two": lambda dx, e, f, v: dx.map_partitions(_two, e["df"][["x"]], e["df"][["z"]], f=f, spec=v),
    "mp_project": lambda dx, e, f, v: e["df"].map_partitions(f, spec=v)[["z", "t"]],
    "mp_twice": lambda dx, e, f, v: e["df"][["z"]].map_partitions(tag, spec=v).rename(columns={"t": "t0"}).map_partitions(f, spec=[v]),
    "overlap": lambda dx, e, f, v: _xz(e).map_overlap(_ov, 1, 0, f=f, spec=v),
    "apply_rows_kw": lambda dx, e, f, v: e["df"][["y", "z"]].apply(_row, axis=1, spec=v, meta=(None, "object")),
    "apply_rows_arg": lambda dx, e, f, v: e["df"][["y", "z"]].apply(_row, axis=1, args=(v,), meta=(None, "object")),
    "series_apply_kw": lambda dx, e, f, v: e["df"].z.apply(_el, spec=v, meta=("z", "object")),
    "series_apply_arg": lambda dx, e, f, v: e["df"].z.apply(_el, args=(v,), meta=("z", "object")),
    "reduction": lambda dx, e, f, v: e["df"][["z"]].reduction(_chunk, _agg, chunk_kwargs={"spec": v}, aggregate_kwargs={"spec": [v]},
                                                               meta=_agg(_chunk(e["df"][["z"]]._meta, v), [v])),
    "groupby_apply": lambda dx, e, f, v: e["df"].groupby("y").apply(_grp, spec=v, meta=_grp(e["df"]._meta, v)),
    "from_map_kw": lambda dx, e, f, v: dx.from_map(_src, [0, 1, 2], spec=v, salt=e["salt"], f=f),
    "from_map_arg": lambda dx, e, f, v: dx.from_map(_src, [0, 1, 2], args=(v, e["salt"], f)),
}

# built-in operators with operands of their own: operator -> (group kinds, (dx, env, v) -> collection)
BUILTIN = {
    "assign": (["newcols"], lambda dx, e, v: e["df"].assign(**v)),
    "fillna_dict": (["colnum"], lambda dx, e, v: e["df"][["x", "y", "z"]].fillna(v)),
    "astype": (["coltypes"], lambda dx, e, v: e["df"][["y", "z"]].astype(v)),
    "rename": (["colnames"], lambda dx, e, v: e["df"].rename(columns=v)),
    "groupby_agg": (["aggdict", "agglist"], lambda dx, e, v: e["df"].groupby("x")[["y", "z"]].agg(v)),
    "series_groupby_agg": (["agglist"], lambda dx, e, v: e["df"].groupby("x").z.agg(v)),
    "getitem": (["collist"], lambda dx, e, v: e["df"][v]),
    "loc_columns": (["collist"], lambda dx, e, v: e["df"].loc[:, v]),
    "sort_values": (["collist"], lambda dx, e, v: e["df"][["x", "y", "z"]].sort_values(v + [c for c in ["z"] if c not in v])),
    "sort_ascending": (["boollist"], lambda dx, e, v: e["df"][["x", "z"]].sort_values(["x", "z"], ascending=v)),
    "drop": (["collist"], lambda dx, e, v: e["df"].drop(columns=v[:2])),
    "nlargest": (["collist"], lambda dx, e, v: e["df"][["y", "z"]].nlargest(3, [c for c in v if c != "x"] + [c for c in ["z"] if c not in v])),
    "groupby_keys": (["collist"], lambda dx, e, v: e["df"].assign(w=1).groupby(v).w.sum()),
    "drop_duplicates": (["collist"], lambda dx, e, v: e["df"][["x", "y", "z"]].drop_duplicates(subset=v)),
    "quantile": (["qlist"], lambda dx, e, v: e["df"].z.quantile(v)),
    "isin": (["seq-order", "num-type", "array"], lambda dx, e, v: e["df"].y.isin(v if isinstance(v, (list, tuple, np.ndarray)) else [v])),
    "add": (["num-type", "signed-zero"], lambda dx, e, v: e["df"].y + v),
    "mul": (["num-type", "signed-zero"], lambda dx, e, v: e["df"].z * v),
    "rdiv": (["num-type", "signed-zero"], lambda dx, e, v: v / (e["df"].z + 1)),
    "fillna": (["num-type", "signed-zero", "text"], lambda dx, e, v: e["df"][["x", "y"]].fillna(v)),
    "clip": (["num-type", "signed-zero"], lambda dx, e, v: e["df"].z.clip(lower=v)),
    "where": (["num-type", "signed-zero", "missing"], lambda dx, e, v: e["df"].z.where(e["df"].z > 1, v)),
    "mask": (["num-type", "signed-zero"], lambda dx, e, v: e["df"].y.mask(e["df"].z > 1, v)),
    "assign_scalar": (["num-type", "signed-zero", "missing", "text"], lambda dx, e, v: e["df"][["z"]].assign(w=v)),
    "eq": (["num-type", "signed-zero", "text"], lambda dx, e, v: e["df"].y == v),
    "replace": (["num-type", "signed-zero", "key-type"], lambda dx, e, v: e["df"].y.replace(v) if isinstance(v, dict) else e["df"].y.replace(10, v)),
    "series_map": (["key-type", "dict-type"], lambda dx, e, v: e["df"].y.map(v)),
}

# row order inside the result is not defined (hash shuffles, groupby output)
UNORDERED = {"groupby_apply", "groupby_agg", "series_groupby_agg", "groupby_keys", "drop_duplicates", "sort_values", "sort_ascending", "nlargest"}


def values_of(sess):
    w = WRAPS[sess.get("wrap") or "direct"]
    return [w(v) for v in variants(sess["group"])]


def build(dx, env, sess, v):
    op = sess["op"]
    if op in GENERIC:
        return GENERIC[op](dx, env, STYLES[sess["style"]], v)
    return BUILTIN[op][1](dx, env, v)


# ----------------------------------------------------------------------------- observing


def exact(res, ordered):
    """The result with the type of every value (1, 1.0 and True differ, so do 0.0 and -0.0)."""
    def r(x):
        return "nan" if isinstance(x, float) and x != x else repr(x)
    if isinstance(res, pd.DataFrame):
        rows = [[r(i)] + [r(x) for x in row] for i, row in zip(res.index.tolist(), res.itertuples(index=False, name=None))]
        head = ["frame", [str(c) for c in res.columns], str(res.index.name)]
    elif isinstance(res, pd.Series):
        rows = [[r(i), r(x)] for i, x in zip(res.index.tolist(), res.tolist())]
        head = ["series", str(res.name), str(res.index.name)]
    elif isinstance(res, pd.Index):
        rows, head = [[r(x)] for x in res.tolist()], ["index", str(res.name)]
    else:
        rows, head = [[r(res)]], ["scalar"]
    return repr(head + (rows if ordered else sorted(rows)))


def _meta_columns(q):
    m = q._meta
    if isinstance(m, pd.DataFrame):
        return repr([str(c) for c in m.columns] + [str(t) for t in m.dtypes])
    return repr([str(getattr(m, "name", None)), str(getattr(m, "dtype", type(m).__name__))])


def observe(q, ordered, salt):
    mc = _meta_columns(q)
    o = q.optimize()
    res = sh._strip_salt(q.compute())
    plan = sh.fingerprint(q.optimize(fuse=False).expr).replace(str(salt), "SALT")
    return {"meta columns": mc, "plan": plan, "divisions": repr(tuple(o.divisions)), "npartitions": o.npartitions,
            "dtypes": repr(sh._dtypes(res)), "result": exact(res, ordered)}


FIELDS = ("result", "meta columns", "dtypes", "divisions", "npartitions", "plan")
TOUCHES = ["optimize", "compute", "meta", "len", "fail", "lower"]


def play(dx, sess, salt, actions):
    """Play a session on fresh objects; returns the observations of its ("observe", i) actions, in order (None: no source)."""
    env = try_(lambda: {"cfg": sess["cfg"], "salt": salt, "df": sh.make_source(dx, sess["cfg"], salt)})
    if env[0] == "raise":
        return None
    env = env[1]
    ordered = sess["op"] not in UNORDERED
    live, out = {}, []

    def fresh(i):
        # every build gets operand objects of its own (a user function, or pandas with a defaultdict, may mutate them)
        return build(dx, env, sess, values_of(sess)[i])

    def get(i):
        return live[i] if i in live else fresh(i)

    for kind, i in actions:
        if kind == "build":
            r = try_(lambda: fresh(i))
            if r[0] == "ok":
                live[i] = r[1]
        elif kind == "observe":
            out.append(try_(lambda: observe(get(i), ordered, salt)))
        elif kind == "discard":
            live.pop(i, None)
            gc.collect()
        elif kind == "gc":
            gc.collect()
        elif kind == "optimize":
            try_(lambda: get(i).optimize())
        elif kind == "lower":
            try_(lambda: get(i).lower_once())
        elif kind == "compute":
            try_(lambda: get(i).compute())
        elif kind == "meta":
            try_(lambda: (_meta_columns(get(i)), get(i).divisions, get(i).npartitions))
        elif kind == "len":
            try_(lambda: len(get(i)))
        elif kind == "fail":
            def fail():
                q = get(i)
                return q.map_partitions(_boom, meta=q._meta).compute()
            try_(fail)
        else:
            raise KeyError(kind)
    live.clear()
    del env
    gc.collect()
    return out


# ----------------------------------------------------------------------------- session plans


def gen_actions(rng, k):
    """The k siblings are built in a random order and touched; some are discarded; every one is observed while others
    are alive, and some again after the others were discarded."""
    order = list(range(k))
    rng.shuffle(order)
    acts = []
    for n, i in enumerate(order):
        if rng.random() < 0.85:
            acts.append(("build", i))
        if rng.random() < 0.6:
            acts.append((rng.choice(TOUCHES), i))
        if n and rng.random() < 0.35:
            acts.append(("observe", i))
        if n and rng.random() < 0.2:
            acts.append((rng.choice(TOUCHES), rng.choice(order[:n])))
    for i in order:
        if rng.random() < 0.2:
            acts.append(("discard", i))
    obs = order[:]
    rng.shuffle(obs)
    acts += [("observe", i) for i in obs]
    if rng.random() < 0.6:
        keep = rng.choice(order)
        acts += [("discard", i) for i in order if i != keep]
        acts += [("observe", i) for i in rng.sample(order, min(2, k))]
    return [list(a) for a in acts]


def _session(rng, op, kind, wrap, maxv):
    group = _fix_perms(rng, gen_group(rng, kind, maxv), maxv)
    sess = {"cfg": sh.make_cfg(rng), "op": op, "group": group, "wrap": wrap, "style": rng.choice(["tag", "spread", "spread"])}
    k = len(variants(group))
    sess["actions"] = gen_actions(rng, k)
    return sess


def plan_sessions(rng, tier):
    """Deterministic in rng.  Every kind of group meets wrappers of every container kind and several operators per round;
    every built-in operator meets every kind of group it accepts."""
    quick = tier == "quick"
    maxv = 3 if quick else 5
    sessions = []
    gops = list(GENERIC)
    wraps = [w for w in WRAPS if w != "direct"]
    for rnd in range(1 if quick else 6):
        for kind in ANY_KINDS:
            ws = ["direct"] + (rng.sample(wraps, 2) if quick else wraps)
            for w in ws:
                sessions.append(_session(rng, rng.choice(gops), kind, w, maxv))
        # every operator of user functions at least once per round with dict orders (the operand whose token is not its pickle)
        for op in gops:
            sessions.append(_session(rng, op, rng.choice(["dict-order", "dict-order", "dict-type", "seq-order", "num-type"]), rng.choice(list(WRAPS)), maxv))
        for op, (kinds, _) in BUILTIN.items():
            for kind in (kinds if not quick else [rng.choice(kinds)]):
                sessions.append(_session(rng, op, kind, None, maxv))
    return sessions


def sess_key(sess, i):
    return repr((sorted(sess["cfg"].items()), sess["op"], sess["wrap"], sess["style"], repr(sess["group"]), i))


def needed_baselines(sessions):
    seen, items = set(), []
    for s in sessions:
        core = {k: s[k] for k in ("cfg", "op", "group", "wrap", "style")}
        for kind, i in s["actions"]:
            if kind == "observe":
                k = sess_key(s, i)
                if k not in seen:
                    seen.add(k)
                    items.append((k, core, i, 8000000 + len(items)))
    return items


def baseline_batch(args):
    """In a freshly spawned interpreter: every query alone, on data with a salt of its own, discarded before the next one."""
    items, harness_dir = args
    import sys
    if harness_dir not in sys.path:
        sys.path.insert(0, harness_dir)
    import rt
    out = []
    for key, core, i, salt in items:
        obs = play(rt.dx, core, salt, [("observe", i)])
        out.append((key, None if obs is None else obs[0]))
        gc.collect()
    return out


# ----------------------------------------------------------------------------- comparing, shrinking, reporting


def differs(ob, b):
    if b is None or b[0] == "raise":
        return None
    if ob[0] == "raise":
        return ("outcome", ob[1], "a result", ["outcome"])
    bad = [f for f in FIELDS if ob[1].get(f) != b[1][f]]
    return (bad[0], ob[1].get(bad[0]), b[1][bad[0]], bad) if bad else None


def shrink(dx, sess, history, target, base, salts, budget=25):
    def fails(hist):
        obs = play(dx, sess, salts.next(), hist + [["observe", target]])
        return obs is not None and differs(obs[-1], base) is not None

    if not fails(history):
        return history, False
    k = len(variants(sess["group"]))
    for j in range(k):                      # one live sibling is enough?
        if j != target and fails([["build", j]]):
            return [["build", j]], True
    cur, i = history[:], 0
    while i < len(cur) and budget > 0:
        budget -= 1
        cand = cur[:i] + cur[i + 1:]
        if fails(cand):
            cur = cand
        else:
            i += 1
    return cur, True


def _window(a, b):
    """The two values around their first difference."""
    a, b = str(a), str(b)
    n = next((i for i, (x, y) in enumerate(zip(a, b)) if x != y), min(len(a), len(b)))
    lo = max(0, n - 60)
    return ("..." if lo else "") + a[lo:n + 140], ("..." if lo else "") + b[lo:n + 140]


def _describe(sess):
    where = "operator %s" % sess["op"] + (", user function %s, operand wrapped as %s" % (sess["style"], sess["wrap"]) if sess["op"] in GENERIC else "")
    return "source %s, %s" % (sh._short_cfg(sess["cfg"]), where)


def run_sessions(run, dx, sessions, base, **more_stats):
    import time
    t0 = time.time()
    salts = sh.Salts(7000000)
    stats = {"sessions": 0, "observations": 0, "compared": 0, "baseline_failed": 0, "source_failed": 0, "differences": 0, "distinguishing": 0,
             "operators": len(GENERIC) + len(BUILTIN), "group_kinds": sorted({s["group"]["kind"] for s in sessions}), "wrappers": len(WRAPS)}
    reported, found, shrunk = set(), [], 0
    for sess in sessions:
        actions = [tuple(a) for a in sess["actions"]]
        obs = play(dx, sess, salts.next(), actions)
        stats["sessions"] += 1
        targets = [(p, i) for p, (kind, i) in enumerate(actions) if kind == "observe"]
        if obs is None:
            stats["source_failed"] += 1
            for p, i in targets:
                run.count(("siblings", sess_key(sess, i), p), nontrivial=False)
            continue
        sigs = [sig(v) for v in values_of(sess)]
        for (p, i), ob in zip(targets, obs):
            b = base.get(sess_key(sess, i))
            ok = b is not None and b[0] == "ok"
            # does any sibling touched earlier give another answer when it is alone?  (then sharing its objects is visible)
            earlier = {j for _, j in actions[:p] if j != i}
            disting = ok and any((base.get(sess_key(sess, j)) or ("raise",))[0] == "ok" and base[sess_key(sess, j)][1] != b[1] for j in earlier)
            run.count(("siblings", sess_key(sess, i), tuple(actions[:p])), nontrivial=ok and bool(earlier))
            stats["observations"] += 1
            if not ok:
                stats["baseline_failed"] += 1
                continue
            stats["compared"] += 1
            stats["distinguishing"] += int(disting)
            d = differs(ob, b)
            if d is None:
                continue
            stats["differences"] += 1
            tag_ = (sess["op"], sess["group"]["kind"], sess["wrap"])
            if tag_ in reported or len(reported) >= 8:
                continue
            reported.add(tag_)
            history, minimal = [list(a) for a in actions[:p]], False
            if shrunk < 4:
                shrunk += 1
                r = try_(lambda: shrink(dx, sess, history, i, b, salts))
                if r[0] == "ok":
                    history, minimal = r[1]
            core = {k: sess[k] for k in ("cfg", "op", "group", "wrap", "style")}
            case = {"kind": "siblings", "session": core, "history": history, "target": i, "field": d[0], "differing": d[3], "shrunk": minimal,
                    "operands": sigs, "full_history": [list(a) for a in actions[:p]], "seed": run.seed}
            others = sorted({j for k_, j in history if j != i})
            got, want = _window(d[1], d[2])
            found.append((not minimal, "result" not in d[3] and d[0] != "outcome", len(found),
                          "session over sibling queries (%s): the query with operand %s, observed after %s on its siblings with operands %s, has %s %s; alone in a fresh interpreter it is %s (differing: %s)" % (
                              _describe(sess), sigs[i], [list(a) for a in history], [sigs[j] for j in others], d[0], got, want, ", ".join(d[3])), case))
    for f in sorted(found, key=lambda f: f[:3]):
        run.violation(f[3], f[4])
    stats["wall_s"] = round(time.time() - t0, 1)
    stats.update(more_stats)
    run.section("sibling-operand sessions", **stats)


def replay_case(dx, case):
    """Re-run a reported case in this process; the baseline is taken first, on data with another salt."""
    sess, i = case["session"], case["target"]
    b = play(dx, sess, 9900001, [("observe", i)])
    obs = play(dx, sess, 9900002, [tuple(a) for a in case["history"]] + [("observe", i)])
    return None if b is None or obs is None else differs(obs[-1], b[0])
