"""Development tool (not a registered check): run the generator at volume, group violations."""
import collections
import json
import os
import random
import sys
import multiprocessing as mp

sys.path.insert(0, os.path.dirname(os.path.abspath(__file__)))


def one(args):
    seed, idx, profile, props, nulls = args
    import rt
    import gen
    import e2e
    rng = random.Random(seed * 1000003 + idx)
    tables = gen.make_tables(rng, nrows=rng.choice([6, 9, 12]), nulls=nulls)
    g = gen.ProgGen(rng, profile=profile, max_steps=rng.randint(1, 6))
    prog = g.generate({"t0": list(tables["t0"].columns)})
    layout = {"t0": rng.choice([("npartitions", 1), ("npartitions", 2), ("npartitions", 3), ("npartitions", 4), ("unknown", 3)])}
    try:
        vio, stats = e2e.check_program(prog, {"t0": tables["t0"]}, layout, rt, props)
    except Exception as ex:
        import traceback
        return idx, [{"prop": "HARNESS", "what": traceback.format_exc()[-600:]}], gen.describe(prog), layout
    return idx, vio, gen.describe(prog), layout


def main():
    n = int(sys.argv[1]); profile = sys.argv[2]; props = set(sys.argv[3].split(",")); seed = int(sys.argv[4]) if len(sys.argv) > 4 else 0
    nulls = float(sys.argv[5]) if len(sys.argv) > 5 else 0.0
    with mp.Pool(16) as pool:
        res = pool.map(one, [(seed, i, profile, props, nulls) for i in range(n)], chunksize=8)
    groups = collections.defaultdict(list)
    nv = 0
    for idx, vio, desc, layout in res:
        for v in vio:
            nv += 1
            key = (v["prop"], v.get("stage", ""), v["what"][:70])
            groups[key].append((idx, desc, layout, v["what"]))
    print("programs", n, "violations", nv, "groups", len(groups))
    for k, items in sorted(groups.items(), key=lambda kv: -len(kv[1])):
        print("\n== %s  (%d)" % (k, len(items)))
        items.sort(key=lambda it: len(it[1]))
        for it in items[:2]:
            print("   #%d %s %s\n      %s" % (it[0], it[2], it[1], it[3][:300]))


if __name__ == "__main__":
    main()
