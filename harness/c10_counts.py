"""C10 -- distinct / count reductions that carry NA-handling and normalisation options, under the execution knobs.

value_counts, unique, nunique, drop_duplicates, mode, nlargest / nsmallest, count and their groupby / frame forms are lowered
either to a tree reduction or to a shuffle reduction depending on split_out (and its per-dtype default); the two shapes get
their options (dropna, normalize and the total it needs, sort, keep, ...) through different code paths.  The property says the
knob never changes the answer, so every (operator, options, column dtype with / without missing values, history of the
column, partition count) is computed once with the plainest knob setting (split_out=1 / split_every off: one tree) and then
with every other knob setting; the results must agree up to row order.  pandas on the same data is computed as well but only
named in the message (agreement with pandas is another property)."""
import contextlib

from e2e import canon, try_, _short


# ------------------------------------------------------------------------------------------------ data

def _miss(rng, vals, p, na):
    return [na if rng.random() < p else v for v in vals]


def make_frame(rng, n):
    """One frame with a column of every dtype kind, each with and without missing values."""
    import numpy as np
    import pandas as pd
    fl = [float(rng.randint(0, 5)) for _ in range(n)]
    it = [rng.randint(0, 4) for _ in range(n)]
    st = [rng.choice("abcd") for _ in range(n)]
    dt = ["2020-01-0%d" % rng.randint(1, 4) for _ in range(n)]
    nblock = rng.randint(n // 3, n // 2)            # a leading block of missing values: whole partitions hold nothing else
    cols = {
        "f": _miss(rng, fl, 0.25, np.nan),
        "f0": fl,
        "fb": [np.nan] * nblock + fl[nblock:],
        "fa": [np.nan] * n,
        "i": [rng.randint(0, 5) for _ in range(n)],
        "I": pd.array(_miss(rng, it, 0.3, pd.NA), dtype="Int64"),
        "I0": pd.array(it, dtype="Int64"),
        "s": _miss(rng, st, 0.2, None),
        "s0": st,
        "d": pd.to_datetime(_miss(rng, dt, 0.2, None)),
        "d0": pd.to_datetime(dt),
        "c": pd.Categorical(_miss(rng, [rng.choice("xyz") for _ in range(n)], 0.2, None), categories=list("wxyz")),
        "b": [rng.random() < 0.5 for _ in range(n)],
        "B": pd.array(_miss(rng, [rng.random() < 0.5 for _ in range(n)], 0.25, pd.NA), dtype="boolean"),
        "k": [rng.randint(0, 3) for _ in range(n)],
        "kn": _miss(rng, [float(rng.randint(0, 2)) for _ in range(n)], 0.2, np.nan),
    }
    return pd.DataFrame(cols)


KIND = {"f": "float", "f0": "float", "fb": "float", "fa": "float", "i": "int", "I": "Int", "I0": "Int", "s": "str", "s0": "str",
        "d": "datetime", "d0": "datetime", "c": "category", "b": "bool", "B": "boolean"}
VALUE_COLS = list(KIND)
ORDERABLE = ("float", "int", "Int", "datetime")


def _json(v):
    import pandas as pd
    if v is None or v is pd.NA or v is pd.NaT or (isinstance(v, float) and v != v):
        return None
    if isinstance(v, pd.Timestamp):
        return str(v.date())
    if hasattr(v, "item"):
        return v.item()
    return v


# ------------------------------------------------------------------------------------------------ histories of the column

def histories(rt):
    """name -> (f(dask frame, column) -> dask series, the same on pandas, applies to kind?)."""
    import pandas as pd
    dx = rt.dx
    every = lambda kind: True
    return {
        "column": (lambda F, c: F[c], lambda P, c: P[c], every),
        "filtered": (lambda F, c: F[F.k > 0][c], lambda P, c: P[P.k > 0][c], every),
        "dropna": (lambda F, c: F[c].dropna(), lambda P, c: P[c].dropna(), every),
        # more missing values, made by the query itself
        "where": (lambda F, c: F[c].where(F.k != 1), lambda P, c: P[c].where(P.k != 1), lambda kind: kind in ("float", "Int", "str", "datetime")),
        "elementwise": (lambda F, c: F[c] * 2 + 1, lambda P, c: P[c] * 2 + 1, lambda kind: kind in ("float", "int", "Int")),
        "renamed": (lambda F, c: F[c].rename("z"), lambda P, c: P[c].rename("z"), every),
        "repartitioned": (lambda F, c: F.repartition(npartitions=2)[c], lambda P, c: P[c], every),
        "concat": (lambda F, c: dx.concat([F, F[F.k < 2]])[c], lambda P, c: pd.concat([P, P[P.k < 2]])[c], lambda kind: kind != "category"),
    }


# ------------------------------------------------------------------------------------------------ operators

def _explode(x):
    """Series of arrays (groupby unique) -> one row per element, so that canon can compare it."""
    import pandas as pd
    return pd.Series(x).map(lambda a: list(a)).explode()


def _ident(x):
    return x


def _as_series(x, name=None):
    import pandas as pd
    return pd.Series(x, name=name)


def _grid(**axes):
    out = [{}]
    for k, vs in axes.items():
        out = [dict(o, **{k: v}) for o in out for v in vs]
    return out


def operators():
    """name -> dict(options, reference knobs, knob settings, call(series-or-frame, options, knobs), pandas call, labels, post, kinds).

    The first knob setting is the reference: a single tree with the default fan-in."""
    T, F = True, False
    so_se = lambda sos, ses: [{"split_out": a, "split_every": b} for a in sos for b in ses]
    ops = {}
    ops["value_counts"] = dict(
        options=_grid(dropna=[T, F], normalize=[T, F], sort=[None, T, F], ascending=[F, T]),
        knobs=so_se([1, 2, 3, True, "default"], [None, 2, 3]) + [{"split_out": a, "split_every": None, "config_shuffle": m} for a in (2, True) for m in ("tasks", "disk")],
        call=lambda s, o, k: s.value_counts(**o, **k), pandas=lambda s, o: s.value_counts(**o), labels=True, post=_ident,
        kinds=lambda kind: True)
    ops["unique"] = dict(
        options=[{}],
        knobs=so_se([1, 2, 3, True], [None, 2]) + [{"split_out": a, "split_every": None, "shuffle_method": m} for a in (2, True) for m in ("tasks", "disk")],
        call=lambda s, o, k: s.unique(**k), pandas=lambda s, o: _as_series(s.unique(), s.name), labels=False, post=_ident,
        kinds=lambda kind: True)
    ops["nunique"] = dict(
        options=_grid(dropna=[T, F]),
        knobs=so_se([1, 2, 3, True], [False, 2, 3]) + [{"split_out": a, "split_every": False, "config_shuffle": m} for a in (2, True) for m in ("tasks", "disk")],
        call=lambda s, o, k: s.nunique(**o, **k), pandas=lambda s, o: s.nunique(**o), labels=True, post=_ident,
        kinds=lambda kind: True)
    ops["drop_duplicates"] = dict(
        options=_grid(keep=["first", "last"], ignore_index=[F, T]),
        knobs=so_se([1, 2, 3, True], [None, 2]) + [{"split_out": a, "split_every": None, "shuffle_method": m} for a in (2, True) for m in ("tasks", "disk")],
        call=lambda s, o, k: s.drop_duplicates(**o, **k), pandas=lambda s, o: s.drop_duplicates(**o), labels="ignore_index", post=_ident,
        kinds=lambda kind: True)
    ops["mode"] = dict(
        options=_grid(dropna=[T, F]), knobs=[{"split_every": b} for b in (False, 2, 3, 8)],
        call=lambda s, o, k: s.mode(**o, **k), pandas=lambda s, o: s.mode(**o), labels=False, post=_ident,
        kinds=lambda kind: True)
    ops["count"] = dict(
        options=[{}], knobs=[{"split_every": b} for b in (False, 2, 3, 8)],
        call=lambda s, o, k: s.count(**k), pandas=lambda s, o: s.count(), labels=True, post=_ident,
        kinds=lambda kind: True)
    for nm in ("nlargest", "nsmallest"):
        ops[nm] = dict(
            options=_grid(n=[1, 3, 1000]), knobs=[{"split_every": b} for b in (None, 2, 3, 8)],
            call=lambda s, o, k, nm=nm: getattr(s, nm)(**o, **k), pandas=lambda s, o, nm=nm: getattr(s, nm)(**o), labels=False, post=_ident,
            kinds=lambda kind: kind in ORDERABLE)       # (which of several equal values is kept is not defined: labels are dropped)
    return ops


def frame_operators():
    """Operators on the frame: grouped distinct / count reductions (the key with and without missing values, kept or dropped)
    and column-wise ones.  call(frame, column, options, knobs)."""
    T, F = True, False
    so_se = lambda sos, ses: [{"split_out": a, "split_every": b} for a in sos for b in ses]
    ops = {}
    for key in ("k", "kn"):
        for dropna in ((None,) if key == "k" else (T, F)):
            gk = {} if dropna is None else {"dropna": dropna}
            tag = "groupby(%s%s)" % (key, "" if dropna is None else ",dropna=%s" % dropna)
            ops[tag + ".nunique"] = dict(
                options=[{}], knobs=so_se([1, 2, 3, True], [None, 2]) + [{"split_out": 2, "split_every": None, "shuffle_method": m} for m in ("tasks", "disk")],
                call=lambda X, c, o, k, key=key, gk=gk: X.groupby(key, **gk)[c].nunique(**k), pandas=lambda X, c, o, key=key, gk=gk: X.groupby(key, **gk)[c].nunique(),
                labels=True, post=_ident, kinds=lambda kind: True)
            ops[tag + ".unique"] = dict(
                options=[{}], knobs=so_se([1, 2, 3, True], [None, 2]),
                call=lambda X, c, o, k, key=key, gk=gk: X.groupby(key, **gk)[c].unique(**k), pandas=lambda X, c, o, key=key, gk=gk: X.groupby(key, **gk)[c].unique(),
                labels=True, post=_explode, kinds=lambda kind: kind != "category")
            # (split_out > 1 is left out for the grouped value_counts: see the pristine findings of this family)
            ops[tag + ".value_counts"] = dict(
                options=[{}], knobs=[{"split_every": b} for b in (None, 2, 3, 8)],
                call=lambda X, c, o, k, key=key, gk=gk: X.groupby(key, **gk)[c].value_counts(**k), pandas=lambda X, c, o, key=key, gk=gk: X.groupby(key, **gk)[c].value_counts(),
                labels=True, post=_ident, kinds=lambda kind: kind != "category")
            ops[tag + ".count"] = dict(
                options=[{}], knobs=so_se([1, 2, True], [None, 2, 3]),
                call=lambda X, c, o, k, key=key, gk=gk: X.groupby(key, **gk)[c].count(**k), pandas=lambda X, c, o, key=key, gk=gk: X.groupby(key, **gk)[c].count(),
                labels=True, post=_ident, kinds=lambda kind: True)
    ops["frame.nunique"] = dict(
        options=_grid(dropna=[T, F]), knobs=[{"split_every": b} for b in (False, 2, 3, 8)],
        call=lambda X, c, o, k: X[[c, "k", "kn"]].nunique(**o, **k), pandas=lambda X, c, o: X[[c, "k", "kn"]].nunique(**o), labels=True, post=_ident, kinds=lambda kind: True)
    ops["frame.count"] = dict(
        options=[{}], knobs=[{"split_every": b} for b in (False, 2, 3, 8)],
        call=lambda X, c, o, k: X[[c, "k", "kn"]].count(**k), pandas=lambda X, c, o: X[[c, "k", "kn"]].count(), labels=True, post=_ident, kinds=lambda kind: True)
    ops["frame.mode"] = dict(
        options=_grid(dropna=[T, F]), knobs=[{"split_every": b} for b in (False, 2, 3)],
        call=lambda X, c, o, k: X[[c, "kn"]].mode(**o, **k), pandas=lambda X, c, o: X[[c, "kn"]].mode(**o), labels=False, post=_ident, kinds=lambda kind: kind != "category")
    ops["frame.drop_duplicates"] = dict(
        options=_grid(keep=["first", "last"]), knobs=so_se([1, 2, 3, True], [None, 2]),
        call=lambda X, c, o, k: X[[c, "kn"]].drop_duplicates(**o, **k), pandas=lambda X, c, o: X[[c, "kn"]].drop_duplicates(**o), labels=True, post=_ident, kinds=lambda kind: True)
    return ops


# ------------------------------------------------------------------------------------------------ the check

def _kw(knobs):
    return {a: b for a, b in knobs.items() if a != "config_shuffle" and not (a == "split_out" and b == "default")}


def _knob_name(knobs):
    return ",".join("%s=%s" % (a, b) for a, b in knobs.items())


def run(run, rt):
    import time
    import dask
    import pandas as pd
    t0 = time.time()
    quick = run.tier == "quick"
    rng = run.rng
    n = 48
    pdf = make_frame(rng, n)
    hist = histories(rt)
    sops, fops = operators(), frame_operators()
    nparts_all = (1, 3, 7) if quick else (1, 2, 3, 5, 7, 12, 40)       # 40 > 32: the shuffle itself is staged
    frames = {}

    def frame(npart, col):
        # (only the columns the query reads: the reader converts every string column of the source in every task)
        if (npart, col) not in frames:
            frames[npart, col] = rt.dx.from_pandas(pdf[[col, "k", "kn"]], npartitions=npart)
        return frames[npart, col]

    def hollow(npart, col, op):
        """Does some partition hold no row that the grouped value_counts `op` counts (value and key present)?"""
        key = "kn" if "(kn" in op else "k"
        X = frame(npart, col)
        d = X.divisions
        for i in range(X.npartitions):
            part = pdf.loc[d[i]:d[i + 1]] if i == X.npartitions - 1 else pdf.loc[d[i]:d[i + 1] - 1]
            if not (part[col].notna() & part[key].notna()).any():
                return True
        return False

    def excluded(op, col, knobs, npart):
        """Inputs for which the unmodified implementation itself disagrees between knob settings (reported as pristine
        findings, not part of the family)."""
        so = knobs.get("split_out")
        if op == "value_counts" and KIND[col] == "category" and not (so is None or so == "default" or (so is not True and so == 1)):
            return True         # explicit split_out on a categorical column: every output partition lists every category
        if op.endswith(").value_counts") and knobs.get("split_every") is not None and hollow(npart, col, op):
            return True         # grouped value_counts: a combine step over partitions without countable rows raises
        return False

    def build(case, knobs):
        """Thunk of the dask query of `case` under `knobs`."""
        op, col, h, o, npart = case["op"], case["column"], case["history"], case["options"], case["npartitions"]
        X = frame(npart, col)
        if op in sops:
            return lambda: sops[op]["call"](hist[h][0](X, col), o, _kw(knobs))
        return lambda: fops[op]["call"](X, col, o, _kw(knobs))

    def pandas_of(case):
        op, col, h, o = case["op"], case["column"], case["history"], case["options"]
        if op in sops:
            return try_(lambda: sops[op]["post"](sops[op]["pandas"](hist[h][1](pdf, col), o)))
        return try_(lambda: fops[op]["post"](fops[op]["pandas"](pdf, col, o)))

    def compute(case, knobs, fuse):
        spec = sops.get(case["op"]) or fops[case["op"]]
        ctx = dask.config.set({"dataframe.shuffle.method": knobs["config_shuffle"]}) if "config_shuffle" in knobs else contextlib.nullcontext()
        with ctx:
            r = try_(lambda: build(case, knobs)().compute(fuse=fuse))
        if r[0] == "raise":
            return r
        labels = spec["labels"]
        if labels == "ignore_index":
            labels = not case["options"]["ignore_index"]
        return try_(lambda: canon(spec["post"](r[1]), False, labels))

    refs = {}
    stats = {"cases": 0, "reference_raises": 0, "with_missing": 0, "shuffle_path": 0, "by_operator": {}}

    def check(case, knobs, fuse):
        """One case: the query under `knobs` against the same query under the reference knobs."""
        spec = sops.get(case["op"]) or fops[case["op"]]
        ref_knobs = spec["knobs"][0]
        key = repr(sorted((a, repr(b)) for a, b in case.items()))
        if key not in refs:
            refs[key] = compute(case, ref_knobs, True)
        ref = refs[key]
        full = dict(case, kind="counts", knobs={a: b for a, b in knobs.items()}, fuse=fuse, reference_knobs=ref_knobs,
                    data={c: [_json(v) for v in pdf[c].tolist()] for c in sorted({case["column"], "k", "kn"})}, dtype=str(pdf[case["column"]].dtype),
                    categories=list(pdf[case["column"]].cat.categories) if KIND[case["column"]] == "category" else None)
        missing = bool(pdf[case["column"]].isna().any()) or case["history"] == "where"
        so = knobs.get("split_out")
        shuffled = so is True or so == "default" or (isinstance(so, int) and so > 1)
        run.count(("counts", key, _knob_name(knobs), fuse), nontrivial=ref[0] == "ok")
        stats["cases"] += 1
        stats["by_operator"][case["op"]] = stats["by_operator"].get(case["op"], 0) + 1
        if ref[0] == "raise":
            stats["reference_raises"] += 1
            return
        stats["with_missing"] += int(missing)
        stats["shuffle_path"] += int(shuffled)
        got = compute(case, knobs, fuse)
        what = "%s(%s) of %s column %s (history: %s, npartitions=%d, fuse=%s)" % (
            case["op"], ", ".join("%s=%s" % kv for kv in case["options"].items()), full["dtype"], case["column"], case["history"], case["npartitions"], fuse)
        if got[0] == "raise":
            run.violation("%s with %s raises %s; with %s it computes" % (what, _knob_name(knobs), got[1], _knob_name(ref_knobs)), full)
        elif got[1] != ref[1]:
            p = pandas_of(case)
            ptxt = ""
            if p[0] == "ok":
                labels = spec["labels"] if spec["labels"] != "ignore_index" else not case["options"]["ignore_index"]
                pc = try_(lambda: canon(p[1], False, labels))
                if pc[0] == "ok":
                    ptxt = "; pandas agrees with %s" % ("the former" if pc[1] == got[1] else "the latter" if pc[1] == ref[1] else "neither: %s" % _short(pc[1]))
            run.violation("%s with %s gives %s, with %s it gives %s%s" % (what, _knob_name(knobs), _short(got[1]), _knob_name(ref_knobs), _short(ref[1]), ptxt), full)

    def cases_of(op, spec, series_level):
        for col in VALUE_COLS:
            if not spec["kinds"](KIND[col]):
                continue
            for h in (hist if series_level else ["column"]):
                if series_level and not hist[h][2](KIND[col]):
                    continue
                for o in spec["options"]:
                    yield {"op": op, "column": col, "history": h, "options": o}

    # --- 1. systematic core: every operator x every option setting x columns of the dtype kinds (with missing values, with a
    #        block of partitions holding nothing but missing values, without any); the non-reference knob settings are dealt
    #        round-robin, several per query, so that each knob setting meets each option setting and each dtype
    core_cols = ("f", "I", "s", "d", "fb", "i", "B", "c") if quick else VALUE_COLS
    ncore = 0
    deal = 0
    for op, spec, series_level in [(a, b, True) for a, b in sops.items()] + [(a, b, False) for a, b in fops.items()]:
        variants = spec["knobs"][1:]
        opts = spec["options"]
        if op == "value_counts":
            if quick:
                opts = [o for o in opts if o["sort"] is None and not o["ascending"]]       # (the other settings: random part)
            ncols, nknobs = len(core_cols), 3
        else:
            ncols, nknobs = (3 if series_level else 2) if quick else len(core_cols), 2 if quick else 3
        cols = [c for c in core_cols if spec["kinds"](KIND[c])]
        for o in opts:
            for _ in range(min(ncols, len(cols))):
                deal += 1
                col = cols[deal % len(cols)] if ncols < len(cols) else cols[_]
                npart = nparts_all[1:][deal % (len(nparts_all) - 1)]
                allowed = [k for k in variants if not excluded(op, col, k, npart)]
                if not allowed and ncols < len(cols):          # this column is outside the family for this operator: the next one
                    col = cols[(deal + 1) % len(cols)]
                    allowed = [k for k in variants if not excluded(op, col, k, npart)]
                for i in range(min(nknobs, len(allowed))):
                    knobs = allowed[(deal * nknobs + i) % len(allowed)]
                    check({"op": op, "column": col, "history": "column", "options": o, "npartitions": npart}, knobs, True)
                    ncore += 1
    # --- 2. random part of the whole grid: histories, all option settings, all columns, all partition counts, fuse on / off
    pool = []
    for op, spec in sops.items():
        pool += [(c, spec) for c in cases_of(op, spec, True)]
    for op, spec in fops.items():
        pool += [(c, spec) for c in cases_of(op, spec, False)]
    nrand = 80 if quick else 1500
    # value_counts is the operator with the most option settings and both reduction shapes: half of the draws
    vc = [x for x in pool if x[0]["op"] == "value_counts"]
    for i in range(nrand):
        c, spec = rng.choice(vc) if i % 2 == 0 else rng.choice(pool)
        knobs = rng.choice(spec["knobs"][1:])
        npart = rng.choice(nparts_all)
        if excluded(c["op"], c["column"], knobs, npart):
            continue
        check(dict(c, npartitions=npart), knobs, rng.random() < 0.75)
    run.section("count_reductions", core=ncore, grid=len(pool), partition_counts=list(nparts_all), seconds=round(time.time() - t0, 1), **stats)


def replay(case):
    """Recompute one reported case from its dict alone: (result under the knobs, result under the reference knobs), both canonical."""
    import dask
    import pandas as pd
    import rt
    col = case["column"]
    vals = case["data"][col]
    if case["dtype"] == "category":
        v = pd.Categorical(vals, categories=case["categories"])
    elif case["dtype"].startswith("datetime"):
        v = pd.to_datetime(vals)
    elif case["dtype"] in ("Int64", "boolean", "float64", "int64", "bool"):
        v = pd.array(vals, dtype=case["dtype"]) if case["dtype"] in ("Int64", "boolean") else pd.Series(vals, dtype=case["dtype"]).values
    else:
        v = vals
    pdf = pd.DataFrame({col: v, "k": case["data"]["k"], "kn": pd.Series(case["data"]["kn"], dtype="float64")})[[col, "k", "kn"]]
    X = rt.dx.from_pandas(pdf, npartitions=case["npartitions"])
    sops, fops, hist = operators(), frame_operators(), histories(rt)
    spec = sops.get(case["op"]) or fops[case["op"]]
    labels = spec["labels"] if spec["labels"] != "ignore_index" else not case["options"]["ignore_index"]
    out = []
    for knobs, fuse in ((case["knobs"], case["fuse"]), (case["reference_knobs"], True)):
        ctx = dask.config.set({"dataframe.shuffle.method": knobs["config_shuffle"]}) if "config_shuffle" in knobs else contextlib.nullcontext()
        with ctx:
            if case["op"] in sops:
                q = spec["call"](hist[case["history"]][0](X, col), case["options"], _kw(knobs))
            else:
                q = spec["call"](X, col, case["options"], _kw(knobs))
            out.append(try_(lambda: canon(spec["post"](q.compute(fuse=fuse)), False, labels)))
    return tuple(out)
