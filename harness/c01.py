"""C01 -- optimization never changes what a query computes."""
import c01_concat
import c01_rows
import common
import preds
import progcheck


def run(run):
    run.trusted = common.COMMON_TRUSTED + [
        "harness/steplog.py (monkeypatched logging of _simplify_up/_simplify_down calls) and its exporter Expr -> coq/Plan.v expr (fail-closed: unknown classes are skipped and counted)",
        "den of coq/Plan.v is a model of pandas on integer-valued columns with missing values; it is compared with the real system only through accepted steps executed before/after on the case's data",
        "operators outside the fragment (shuffles, merges, groupby, ...) are covered by the optimized-vs-unoptimized differential only",
    ]
    run.rule = ("seeded program generator over the public API (chains, shared sub-expressions, filters with and/or/not/isna predicates, assign, rename, drop, fillna, "
                "reductions) x data with nulls x layouts (1-4 partitions, unknown divisions, arbitrary cuts): every optimizer stage vs the unoptimized lowered plan; "
                "every logged rewrite step of the fragment validated by the verified rule_ok; non-trivial = program with >= 2 steps; "
                "column selections over concats of differently derived inputs (label-keeping / relabelling / reordering / row-dropping / repartitioning histories x "
                "index kinds x layouts x joins x consumers) vs the unoptimized lowered plan incl. the names of the index levels; "
                "selections of rows by position (chains of head(n, npartitions=k) / tail(n) / partitions[...] with nothing, element-wise operations, projections, filters, "
                "relabelling or a repartition between them) over partitions of very different lengths (uneven divisions, empty first / middle / last partitions, selective "
                "filters) x n below / at / above the partition sizes, 0, negative x consumers vs the unoptimized lowered plan")
    run.proofs("PropC01.v")
    quick = run.tier == "quick"
    m = common.Model()
    preds.sweep(run, m, True)
    progcheck.run_programs(run, {"C01", "C19"}, 250 if quick else 6000, profile="l1", own={"C01"})
    progcheck.run_programs(run, {"C01", "C19"}, 150 if quick else 4000, profile="l2", own={"C01"}, with_steps=False)
    value_changing(run)
    import rt
    c01_concat.run_family(run, rt)
    c01_rows.run_family(run, rt)


def value_changing(run):
    """Operators that change VALUES (casts, rounding, clipping, fillna, replace, arithmetic) below filters / projections / reductions, on
    data that such operators really change (wrap-around, rounding, truncation): optimized (both fuse modes) vs the unoptimized lowering."""
    import numpy as np
    import pandas as pd
    import rt
    from e2e import canon, concat_parts, exec_expr, try_, _short
    pdf = pd.DataFrame({"a": np.array([0, 1, 100, 127, 128, 200, 255, 256, 300, 32768, 70000, -1, -129, 16777217, 5], dtype="int64"),
                        "f": [0.0, 1.0, 1.5, 2.5, -0.5, 127.0, 128.0, 300.7, 16777217.0, 3e9, -1.0, 255.9, 70000.2, 0.1, np.nan],
                        "g": range(15)})
    ops = {}
    for dst in ("int8", "int16", "int32", "uint8", "float32", "float64"):
        ops["astype a->%s" % dst] = lambda d, dst=dst: d.astype({"a": dst})
    for dst in ("float32", "int64", "int32"):
        ops["astype f->%s" % dst] = lambda d, dst=dst: d.fillna(0).astype({"f": dst})
    ops.update({"round": lambda d: d.round(), "clip": lambda d: d.clip(lower=1, upper=200), "fillna": lambda d: d.fillna(7), "replace": lambda d: d.replace(128, 3),
                "abs": lambda d: d.abs(), "mod": lambda d: d % 128, "floordiv": lambda d: d // 100, "neg": lambda d: -d, "mul": lambda d: d * 3})
    consumers = {"filter a > 100": lambda y: y[y.a > 100], "filter a < 0": lambda y: y[y.a < 0], "filter f == 16777216": lambda y: y[y.f == 16777216], "filter a == 1 then g": lambda y: y[y.a == 1].g,
                 "filter (a >= 128) & (f < 200)": lambda y: y[(y.a >= 128) & (y.f < 200)], "filter then sum": lambda y: y[y.a <= 44][["g"]].sum(), "project a": lambda y: y[["a"]],
                 "max": lambda y: y.a.max()}
    n = 0
    for on, op in ops.items():
        for cn, cf in consumers.items():
            with np.errstate(all="ignore"):
                q = try_(lambda: cf(op(rt.dx.from_pandas(pdf, npartitions=3))))
            if q[0] == "raise":
                continue
            ref = try_(lambda: canon(concat_parts(exec_expr(q[1].expr.lower_completely())), True))
            if ref[0] == "raise":
                continue
            for fuse in (True, False):
                n += 1
                run.count(("value-changing", on, cn, fuse))
                got = try_(lambda: canon(concat_parts(exec_expr(q[1].optimize(fuse=fuse).expr)), True))
                case = {"kind": "value-changing", "op": on, "consumer": cn, "fuse": fuse}
                if got[0] == "raise":
                    run.violation("%s then %s: the optimized query (fuse=%s) fails (%s), the unoptimized one computes" % (on, cn, fuse, got[1]), case)
                elif got[1] != ref[1]:
                    run.violation("%s then %s: optimized (fuse=%s) %s, unoptimized %s" % (on, cn, fuse, _short(got[1]), _short(ref[1])), case)
    # row counts answered by shortcuts (Len / Size pushed through operators) vs the unoptimized plan
    small = pd.DataFrame({"a": range(12), "b": [i % 3 for i in range(12)], "c": [float(i) for i in range(12)]})
    d = rt.dx.from_pandas(small, npartitions=3)
    d2 = rt.dx.from_pandas(small.iloc[:7].rename(columns={"a": "p", "b": "q", "c": "r"}), npartitions=2)
    shapes = {
        "concat axis=1": rt.dx.concat([d[["a"]], d[["c"]]], axis=1), "concat axis=1 of three": rt.dx.concat([d[["a"]], d[["b"]], d[["c"]]], axis=1),
        "concat axis=1 unequal lengths": rt.dx.concat([d[["a"]], d2[["p"]]], axis=1), "concat axis=1 then column": rt.dx.concat([d[["a"]], d[["c"]]], axis=1)["c"],
        "concat axis=1 then +1": rt.dx.concat([d[["a"]], d[["c"]]], axis=1) + 1, "concat axis=0": rt.dx.concat([d, d2.rename(columns={"p": "a", "q": "b", "r": "c"})]),
        "concat axis=0 then column": rt.dx.concat([d, d])["a"], "filter": d[d.b > 0], "filter then +1": d[d.b > 0] + 1, "elemwise of two filters": d[d.b > 0].a + d.a,
        "merge": d.merge(d2, left_on="b", right_on="q"), "drop_duplicates": d[["b"]].drop_duplicates(), "groupby": d.groupby("b").a.sum(), "repartition": d.repartition(npartitions=2),
        "sort": d.sort_values("c"), "set_index": d.set_index("c"), "head": d.head(5, npartitions=2, compute=False), "tail": d.tail(2, compute=False), "partitions": d.partitions[[2, 0]],
        "projection to nothing": d[[]], "isin filter": d[d.a.isin([1, 5, 7])], "dropna": d.where(d.a > 3).dropna(), "explode-like": d.map_partitions(lambda p: pd.concat([p, p])),
        "cumsum": d.cumsum(), "shift": d.shift(1), "astype": d.astype({"a": "float64"}), "fillna": d.fillna(0), "assign": d.assign(z=d.a + 1), "index": d.index, "series": d.a,
    }
    for sn, q in shapes.items():
        for what, f in (("size", lambda q: q.size), ("shape[0]", lambda q: q.shape[0] if hasattr(q, "shape") else q.size), ("count of index", lambda q: q.index.size if hasattr(q, "index") else q.size)):
            sc = try_(lambda: f(q))
            if sc[0] == "raise" or not hasattr(sc[1], "expr"):
                continue
            ref = try_(lambda: exec_expr(sc[1].expr.lower_completely())[0])
            if ref[0] == "raise":
                continue
            n += 1
            run.count(("length-shortcut", sn, what))
            got = try_(lambda: exec_expr(sc[1].optimize().expr)[0])
            case = {"kind": "length-shortcut", "query": sn, "what": what}
            if got[0] == "raise":
                run.violation("%s of %s: the optimized query fails (%s), the unoptimized one gives %s" % (what, sn, got[1], ref[1]), case)
            elif int(got[1]) != int(ref[1]):
                run.violation("%s of %s: optimized %s, unoptimized %s" % (what, sn, int(got[1]), int(ref[1])), case)
    run.section("value_changing", cases=n, operators=len(ops), consumers=len(consumers), length_shapes=len(shapes))


def replay(path):
    """Replays of the enumerated families (the generated programs are replayed by a run with the recorded seed)."""
    import json
    import random
    with open(path) as f:
        d = json.load(f)
    case = d.get("case") or {}
    fam = {"row-selection": c01_rows, "concat-history": c01_concat}.get(case.get("kind"))
    if fam is None:
        print("C01: replay by `VERIF_SEED=%s ./check C01 --tier %s`" % (d.get("seed"), d.get("tier")))
        return 2
    import rt

    class _Run:
        tier, rng, violations = "thorough", random.Random(0), []

        def count(self, *a, **k):
            pass

        def violation(self, what, case, finding=None):
            self.violations.append(what)

    r = _Run()
    n = fam.replay_case(r, rt, case)
    for w in r.violations:
        print("C01 replay:", w)
    print("C01 replay: %d plans evaluated, %d differ from the unoptimized query" % (n, len(r.violations)))
    return 1 if r.violations else 0
