"""C01 -- optimization never changes what a query computes."""
import common
import preds
import progcheck


def run(run):
    run.trusted = common.COMMON_TRUSTED + [
        "harness/steplog.py (monkeypatched logging of _simplify_up/_simplify_down calls) and its exporter Expr -> coq/Plan.v expr (fail-closed: unknown classes are skipped and counted)",
        "den of coq/Plan.v is a model of pandas on integer-valued columns with missing values; it is compared with the real system only through accepted steps executed before/after on the case's data",
        "operators outside the fragment (shuffles, merges, groupby, ...) are covered by the optimized-vs-unoptimized differential only",
    ]
    run.rule = ("seeded program generator over the public API (chains, shared sub-expressions, filters with and/or/not/isna predicates, assign, rename, drop, fillna, "
                "reductions) x data with nulls x layouts (1-4 partitions, unknown divisions, arbitrary cuts): every optimizer stage vs the unoptimized lowered plan; "
                "every logged rewrite step of the fragment validated by the verified rule_ok; non-trivial = program with >= 2 steps")
    run.proofs("PropC01.v")
    quick = run.tier == "quick"
    m = common.Model()
    preds.sweep(run, m, True)
    progcheck.run_programs(run, {"C01", "C19"}, 250 if quick else 6000, profile="l1", own={"C01"})
    progcheck.run_programs(run, {"C01", "C19"}, 150 if quick else 4000, profile="l2", own={"C01"}, with_steps=False)
