"""Tree reductions (chunk / combine / aggregate, _reductions.py: ApplyConcatApply._lower, TreeReduce._layer; _groupby.py:
GroupByApplyConcatApply) at EVERY depth of the tree.

The default of most reductions is split_every=False (one flat aggregate over all chunks), so a sweep over layouts alone never
executes the combine step.  Here every reduction that takes ``split_every`` is run with split_every in {False, 2, 3, default}
on layouts with 1 .. n partitions (n = 10 rows: up to 4 levels for split_every=2, 2 levels for the default 8), with and
without missing values (one NaN, mostly NaN incl. all-NaN partitions), float / int / bool / nullable-Int64 columns, as frame
and as series reduction, for every value of the options that the three steps have to agree on (skipna, min_count, ddof,
dropna, n, numeric_only) and -- for groupby -- keys with and without NaN (dropna=True/False).  Oracle: pandas, same method and
options on the concatenated input (the meaning the property assigns to the query).  The table itself is drawn from run.rng."""
import math

from e2e import canon, try_, _short, cut_pieces

N = 10
FRAME = ["f", "g", "h", "i"]


# ---------------------------------------------------------------------------------------------------------------- data
def make_table(pd, np, rng):
    """10 rows.  Small integral values: sums, products and means are exact in floating point whatever the association."""
    n = N
    f = [float(rng.choice([1, 2, 3, 4, 5, 6, 9, -1])) for _ in range(n)]
    g = [float(rng.choice([-2, -1, 1, 2, 3])) for _ in range(n)]
    g[rng.randrange(1, n - 1)] = np.nan                                  # exactly one missing value, not at the border
    h = [float(rng.choice([1, 2, 3, 4])) for _ in range(n)]
    for p in rng.sample(range(n), 5):                                    # half of the values missing: all-NaN partitions
        h[p] = np.nan
    i = [rng.choice([-2, -1, 1, 2, 3]) for _ in range(n)]
    b = [rng.random() < 0.5 for _ in range(n)]
    b[rng.randrange(n)] = True
    b[(b.index(True) + 1 + rng.randrange(n - 1)) % n] = False
    nul = list(range(1, n + 1))
    rng.shuffle(nul)
    nul[rng.randrange(n)] = None
    k = [rng.randrange(3) for _ in range(n)]
    kn = [float(v) for v in k]
    for p in rng.sample(range(n), 2):
        kn[p] = np.nan
    return pd.DataFrame({"f": f, "g": g, "h": h, "i": i, "b": b, "I": pd.array(nul, dtype="Int64"), "k": k, "kn": kn}, index=pd.RangeIndex(n))


def table_json(pd, pdf):
    """The table as JSON-serialisable lists (missing value = null; column I is Int64, the float columns hold NaN)."""
    out = {}
    for c in pdf.columns:
        out[c] = [None if (v is None or v is pd.NA or (isinstance(v, float) and math.isnan(v))) else (v.item() if hasattr(v, "item") else v)
                  for v in pdf[c].tolist()]
    return out


# ------------------------------------------------------------------------------------------------------------- layouts
def layout_pool(rng):
    """(cut, kind, deep?).  deep = at least 5 non-empty partitions: >= 3 levels for split_every=2, 2 levels for split_every=3."""
    n = N
    cuts = [[], [rng.randrange(1, n)], sorted(rng.sample(range(1, n), 2)), sorted(rng.sample(range(1, n), 3))]
    deep = [sorted(rng.sample(range(1, n), 4)), sorted(rng.sample(range(1, n), 5)), sorted(rng.sample(range(1, n), 6)),
            sorted(rng.sample(range(1, n), 7)), list(range(1, n))]
    a, b = sorted(rng.sample(range(1, n), 2))
    empties = [[0, a, a, b, n], list(range(1, n)) + [n, n], [a, a, a, b], sorted(rng.sample(range(1, n), 5) + [0, a, n])]
    P = []
    for c in cuts:
        P.append((c, "unknown", False))
    for c in deep:
        P.append((c, "unknown", True))
    for c in empties:
        P.append((c, "unknown", len([1 for x, y in zip([0] + c, c + [n]) if y > x]) >= 5))
    P.append((cuts[2], "known", False))
    P.append((deep[1], "known", True))
    P.append((deep[4], "known", True))
    return P


def build(rt, pdf, cut, kind):
    from e2e import _Pieces, _piece
    if kind == "known":
        divs = [pdf.index[0]] + [pdf.index[i] for i in cut] + [pdf.index[-1]]
        return rt.dx.repartition(pdf, divs)
    pieces = cut_pieces(pdf, cut)
    return rt.dx.from_map(_piece, list(range(len(pieces))), args=[_Pieces(pieces)], meta=pdf.iloc[:0])


def has_empty(cut):
    b = [0] + list(cut) + [N]
    return any(y <= x for x, y in zip(b, b[1:]))


def has_all_na_partition(pdf, cols, cut):
    cols = [cols] if isinstance(cols, str) else list(cols)
    for p in cut_pieces(pdf[cols], cut):
        if len(p) and bool(p.isna().all().any()):
            return True
    return False


# --------------------------------------------------------------------------------------------------------------- specs
def apply_spec(pd, d, spec, is_dask):
    kw = dict(spec.get("kwargs", {}))
    if is_dask and spec.get("split_every", "default") != "default":
        kw["split_every"] = spec["split_every"]
    sel = spec["sel"]
    if "by" in spec:
        obj = d.groupby(spec["by"], dropna=spec["dropna"])
        if sel is not None:
            obj = obj[sel]
    else:
        obj = d[sel]
    m = spec["method"]
    if "other" in spec:
        return getattr(obj, m)(d[spec["other"]], **kw)
    if m == "unique":
        r = obj.unique(**kw)
        return r if is_dask else pd.Series(r, name=sel)
    if m == "agg":
        return obj.agg(spec["arg"], **kw)
    return getattr(obj, m)(**kw)


SKIPNA_METHODS = ["sum", "prod", "mean", "min", "max", "var", "std", "sem", "any", "all", "idxmin", "idxmax"]
SERIES_A = ["g", "h"]                # with missing values
SERIES_B = ["f", "i", "b", "I"]      # without / other dtypes (I: nullable, one <NA>)
GROUPBY_HOWS = ["sum", "mean", "min", "max", "count", "var", "std", "first", "last", "prod", "size", "agg", "series-sum", "series-sum-min_count", "series-mean"]


def excluded(pdf, spec, cut):
    """Inputs on which the UNMODIFIED tree already differs from pandas (reported separately as findings of the pristine tree;
    kept out of the family so that the family has no violation on it)."""
    m, sel = spec["method"], spec["sel"]
    kw = spec.get("kwargs", {})
    if "by" in spec:
        return False
    cols = [sel] if isinstance(sel, str) else list(sel)
    if m in ("min", "max") and kw.get("skipna") is False and has_empty(cut):
        return True     # P1: an empty partition contributes NaN, which skipna=False then propagates
    if "I" in cols and kw.get("skipna") is False and m in ("min", "max", "any", "all"):
        return True     # P2: <NA> partial results of a nullable column: TypeError (min/max/any) or True instead of <NA> (all)
    if m in ("idxmin", "idxmax") and has_all_na_partition(pdf, cols, cut):
        return True     # P3: a non-empty partition whose values are all missing: ValueError from the chunk although skipna=True
    return False


def skipna_specs(rng, quick):
    out = []
    for m in SKIPNA_METHODS:
        for skipna in (True, False):
            for se in (False, 2, 3):
                if quick:
                    sels = [FRAME, rng.choice(SERIES_A), rng.choice(SERIES_B)]
                else:
                    sels = [FRAME] + SERIES_A + SERIES_B
                for sel in sels:
                    out.append({"method": m, "sel": sel, "kwargs": {"skipna": skipna}, "split_every": se})
    return out


def option_specs(rng, quick):
    """The other reductions that take split_every, and the other options of sum / prod / var / std."""
    out = []
    ses = [2, 3, "default"] if quick else [False, 2, 3, "default"]
    anysel = [FRAME] + SERIES_A + SERIES_B
    ser = SERIES_A + SERIES_B
    for se in ses:
        def add(method, sels, many=1, **kwargs):
            for sel in (rng.sample(sels, many) if quick else sels):
                out.append({"method": method, "sel": sel, "kwargs": kwargs, "split_every": se})
        add("count", anysel)
        for mc in (1, 6, 11):
            for sk in (True, False):
                add("sum", anysel, min_count=mc, skipna=sk)
                add("prod", anysel, min_count=mc, skipna=sk)
        for ddof in (0, 2):
            for sk in (True, False):
                add("var", anysel, ddof=ddof, skipna=sk)
                add("std", anysel, ddof=ddof, skipna=sk)
        for sk in (True, False):
            add("sum", [["f", "g", "b"]], numeric_only=True, skipna=sk)
            add("mean", [["h", "i", "b"]], numeric_only=True, skipna=sk)
        for dn in (True, False):
            add("nunique", anysel, dropna=dn)
            add("mode", ser, dropna=dn)
            add("value_counts", ser, dropna=dn)
        for k in (1, 3, 12):
            add("nlargest", ser, n=k)
            add("nsmallest", ser, n=k)
        add("unique", ser)
        add("drop_duplicates", ser + [["k", "b"], ["h", "kn"]])
        add("cov", [FRAME, ["f", "i"], ["g", "h"]])
        add("corr", [FRAME, ["f", "i"], ["g", "h"]])
        out.append({"method": "cov", "sel": "f", "other": "g", "kwargs": {}, "split_every": se})
        out.append({"method": "corr", "sel": "h", "other": "i", "kwargs": {}, "split_every": se})
        out.append({"method": "nlargest", "sel": ["f", "g", "h", "i", "k"], "kwargs": {"n": 3, "columns": ["g", "f"]}, "split_every": se})
        out.append({"method": "nsmallest", "sel": ["f", "g", "h", "i", "k"], "kwargs": {"n": 4, "columns": "h"}, "split_every": se})
    return out


def groupby_specs(rng, quick):
    out = []
    for se in (2, 3):
        for by in ("k", "kn"):
            for dn in (True, False):
                hows = rng.sample(GROUPBY_HOWS, 5) if quick else GROUPBY_HOWS
                for how in hows:
                    s = {"by": by, "dropna": dn, "split_every": se, "kwargs": {}, "sel": ["f", "h", "i"], "method": how}
                    if how == "size":
                        s["sel"] = None
                    elif how == "agg":
                        s["sel"] = None
                        s["arg"] = {"f": ["sum", "max"], "h": ["mean", "count"], "g": "var"}
                    elif how.startswith("series-"):
                        s["sel"] = "h"
                        s["method"] = how.split("-")[1]
                        if how.endswith("min_count"):
                            s["kwargs"] = {"min_count": 2}
                    out.append(s)
    return out


def canon_mode(spec):
    """(ordered, labels) as documented: the order of value_counts ties / unique values / groups is not compared."""
    m = spec["method"]
    if "by" in spec or m == "value_counts":
        return False, True
    if m in ("unique", "drop_duplicates"):
        return False, False
    return True, True


def describe(spec):
    kw = ", ".join("%s=%r" % kv for kv in spec.get("kwargs", {}).items())
    se = "" if spec.get("split_every", "default") == "default" else "split_every=%r" % (spec["split_every"],)
    args = ", ".join(x for x in (repr(spec["other"]) if "other" in spec else "", repr(spec["arg"]) if "arg" in spec else "", kw, se) if x)
    tgt = "df[%r]" % (spec["sel"],) if spec["sel"] is not None else "df"
    if "by" in spec:
        tgt = "df.groupby(%r, dropna=%r)" % (spec["by"], spec["dropna"]) + ("[%r]" % (spec["sel"],) if spec["sel"] is not None else "")
    return "%s.%s(%s)" % (tgt, spec["method"], args)


# --------------------------------------------------------------------------------------------------------------- sweep
def reduce_layer(run, rt, quick):
    import numpy as np
    import pandas as pd
    rng = run.rng
    pdf = make_table(pd, np, rng)
    data = table_json(pd, pdf)
    pool = layout_pool(rng)
    deep = [l for l in pool if l[2]]
    stats = {"cases": 0, "deep_trees": 0, "refused": 0, "no_oracle": 0, "excluded_pristine": 0}

    def layouts_for(spec):
        if not quick:
            return pool
        d = rng.choice(deep)
        if spec.get("split_every") == "default":
            d = (list(range(1, N)), rng.choice(["unknown", "known"]), True)      # the default fan-in is 8: 10 partitions = 2 levels
        return [d, rng.choice(pool)]

    def one(spec, exp, cut, kind):
        if exp[0] == "raise":
            stats["no_oracle"] += 1            # pandas itself refuses (e.g. idxmin with skipna=False over a missing value)
            return
        if excluded(pdf, spec, cut):
            stats["excluded_pristine"] += 1
            return
        ordered, labels = canon_mode(spec)
        pc = canon(exp[1], ordered, labels)
        nparts = len(cut) + 1
        se = spec.get("split_every", "default")
        fan = 8 if se == "default" else se
        is_deep = fan is not False and nparts > fan
        run.count(("reduce-tree", describe(spec), str(cut), kind), nontrivial=nparts >= 2)
        stats["cases"] += 1
        stats["deep_trees"] += int(is_deep)
        case = {"kind": "reduce-tree", "spec": spec, "cut": cut, "divisions": kind, "data": data}
        d = build(rt, pdf, cut, kind)
        got = try_(lambda: apply_spec(pd, d, spec, True))
        if got[0] == "ok" and hasattr(got[1], "compute"):
            got = try_(lambda: got[1].compute())
        where = "%s on %d partitions (cut %s, %s divisions)" % (describe(spec), nparts, cut, kind)
        if got[0] == "raise":
            if "NotImplementedError" in got[1]:
                stats["refused"] += 1
                return
            run.violation("%s raises %s (pandas: %s)" % (where, got[1], _short(pc)), case)
            return
        gc_ = canon(got[1], ordered, labels)
        if gc_ != pc:
            run.violation("%s: %s, pandas on the concatenated input: %s" % (where, _short(gc_), _short(pc)), case)

    specs = skipna_specs(rng, quick) + option_specs(rng, quick) + groupby_specs(rng, quick)
    for spec in specs:
        exp = try_(lambda: apply_spec(pd, pdf, spec, False))
        for cut, kind, _ in layouts_for(spec):
            one(spec, exp, list(cut), kind)
    run.section("reduce_tree_layer", specs=len(specs), layouts_in_pool=len(pool), rows=N, **stats)
    run.sample({"reduction": "df['g'].sum(skipna=False, split_every=2)", "layout": "cut [2, 4, 5, 7, 9] unknown divisions, 3 levels"})
