"""C17, cuts in front of a multi-input step.

The program sweep of c17.py cuts ONE variable of a generated program.  Here the query has two heads (the two inputs of
an index-aligned step) and the cut sits in front of that step: on the left input, on the right input or on both, with the
same or with different kinds of cut.  After the cut the operands of the step are re-imported roots (FromGraph /
FromDelayed / an optimized plan): whether the tail still aligns them by label -- and not partition i with partition i --
depends on how the re-imported roots are told apart, on their divisions and on their partition counts.

family = layout of the two sources (known / unknown divisions, equal / different partition counts, a user-level
         from_delayed or from_map source, both heads over ONE root) x dtype of the data (int, float, missing values,
         strings; int / string / datetime labels) x pair of heads (identity, filters, arithmetic, projections, partition
         selection) x index-aligned tail (binary operators, assign, where / mask, combine_first, fillna, combine, map,
         boolean filter, concat on both axes, index merge, align, ufunc, reductions over them) x sides that are cut x kind
         of cut.
oracle = the uncut query on the same sources (result as a multiset of labelled rows: an alignment of collections with
         unknown divisions shuffles the rows; schema; divisions when both are known).  Nothing else is demanded: a tail the
         uncut query cannot build or compute is skipped.
"""
import operator

import numpy as np
import pandas as pd

from e2e import canon, try_, _short, meta_mismatch


# ----------------------------------------------------------------------------------------------------------- data

INDEX_KINDS = ("int", "str", "datetime")
DTYPE_KINDS = ("float", "int", "float-nan", "with-str")


def make_frames(rng, n, index_kind, dtype_kind):
    """Two frames with the same schema, unique labels that overlap partly, rows in a shuffled order."""
    pool = list(range(n + n // 3))
    la = rng.sample(pool, n)
    lb = rng.sample(pool, n)

    def labels(ls):
        if index_kind == "int":
            return pd.Index(ls)
        if index_kind == "str":
            return pd.Index(["k%03d" % i for i in ls])
        return pd.DatetimeIndex([pd.Timestamp("2021-01-01") + pd.Timedelta(days=i) for i in ls])

    def frame(ls, scale, mod):
        x = [float(scale * (i + 1)) for i in range(n)]
        if dtype_kind == "int":
            x = [int(v) for v in x]
        if dtype_kind == "float-nan":
            x = [np.nan if rng.random() < 0.25 else v for v in x]
        d = {"x": x, "y": [i % mod for i in range(n)]}
        if dtype_kind == "with-str":
            d["s"] = ["s%d" % (i % 4) for i in range(n)]
        return pd.DataFrame(d, index=labels(ls))

    return frame(la, 1, 4), frame(lb, 100, 3)


class _Chunks:
    def __init__(self, pieces):
        self.pieces = pieces

    def __dask_tokenize__(self):
        from dask.base import tokenize
        return ("c17-chunks", [tokenize(p) for p in self.pieces])


def _chunk(i, holder):
    return holder.pieces[i]


def _bounds(n, k):
    return [round(j * n / k) for j in range(k + 1)]


SOURCE_KINDS = ("pandas-sorted", "pandas-unsorted", "cleared", "from_delayed", "from_delayed-divisions", "from_map")


def make_source(rt, pdf, kind, nparts):
    import dask
    dx = rt.dx
    if kind == "pandas-sorted":
        return dx.from_pandas(pdf, npartitions=nparts, sort=True)
    if kind == "pandas-unsorted":
        return dx.from_pandas(pdf, npartitions=nparts, sort=False)
    if kind == "cleared":
        return dx.from_pandas(pdf, npartitions=nparts, sort=True).clear_divisions()
    if kind == "from_delayed-divisions":
        s = pdf.sort_index()
        b = _bounds(len(s), nparts)
        pieces = [s.iloc[lo:hi] for lo, hi in zip(b, b[1:])]
        divs = tuple(s.index[lo] for lo in b[:-1]) + (s.index[-1],)
        return dx.from_delayed([dask.delayed(p) for p in pieces], meta=pdf.iloc[:0], divisions=divs)
    b = _bounds(len(pdf), nparts)
    pieces = [pdf.iloc[lo:hi] for lo, hi in zip(b, b[1:])]
    if kind == "from_delayed":
        return dx.from_delayed([dask.delayed(p) for p in pieces], meta=pdf.iloc[:0])
    if kind == "from_map":
        return dx.from_map(_chunk, list(range(len(pieces))), args=[_Chunks(pieces)], meta=pdf.iloc[:0])
    raise KeyError(kind)


# (name, kind of the left source, kind of the right source, partitions left, partitions right, one root for both heads)
LAYOUTS = [
    ("unknown/unknown 3:3", "pandas-unsorted", "pandas-unsorted", 3, 3, False),
    ("known/known 3:3", "pandas-sorted", "pandas-sorted", 3, 3, False),
    ("unknown/from_delayed 4:4", "pandas-unsorted", "from_delayed", 4, 4, False),
    ("from_delayed/from_delayed 2:2", "from_delayed", "from_delayed", 2, 2, False),
    ("one root, unknown 3", "pandas-unsorted", None, 3, 3, True),
    ("cleared/cleared 4:4", "cleared", "cleared", 4, 4, False),
    ("known/unknown 3:3", "pandas-sorted", "pandas-unsorted", 3, 3, False),
    ("unknown/unknown 2:5", "pandas-unsorted", "pandas-unsorted", 2, 5, False),
    ("known/known 1:4", "pandas-sorted", "pandas-sorted", 1, 4, False),
    ("from_map/from_map 3:3", "from_map", "from_map", 3, 3, False),
    ("from_delayed-divisions/known 3:3", "from_delayed-divisions", "pandas-sorted", 3, 3, False),
    ("from_delayed-divisions both 3:3", "from_delayed-divisions", "from_delayed-divisions", 3, 3, False),
    ("one root, known 4", "pandas-sorted", None, 4, 4, True),
    ("unknown/unknown 1:1", "pandas-unsorted", "pandas-unsorted", 1, 1, False),
    ("from_map/from_delayed 3:3", "from_map", "from_delayed", 3, 3, False),
]

# ----------------------------------------------------------------------------------------------------------- heads

HEADS = {
    "identity": (lambda d: d, lambda d: d),
    "filters": (lambda d: d[d.y > 0], lambda d: d[d.y < 2]),
    "filter / identity": (lambda d: d[d.y != 1], lambda d: d),
    "arithmetic": (lambda d: d.assign(x=d.x * 2), lambda d: d.assign(x=d.x + d.y)),
    "filter+arithmetic": (lambda d: d[d.x > d.x.min()].assign(y=d.y + 1), lambda d: d[d.y >= 1]),
    "projection": (lambda d: d[["x", "y"]], lambda d: d[["y", "x"]][["x", "y"]]),
    "dropna / fillna": (lambda d: d.dropna(), lambda d: d.fillna(-1)),
}
# heads that exist on a collection only (the cut collection is partition-filtered)
PART_HEADS = {
    "partitions reversed": (lambda d: d.partitions[list(range(d.npartitions))[::-1]], lambda d: d[d.y < 2]),
    "partitions[first] / partitions[last]": (lambda d: d.partitions[[0]], lambda d: d.partitions[[d.npartitions - 1]]),
}

# ----------------------------------------------------------------------------------------------------------- tails


def _num(d):
    return d[["x", "y"]]


def _tails(cat, on_dask):
    """The tails, for collections (cat = dx.concat) and for pandas objects (cat = pd.concat)."""
    return {
        "x+x": lambda l, r: l.x + r.x,
        "x-y": lambda l, r: l.x - r.y,
        "frame*frame": lambda l, r: _num(l) * _num(r),
        "x.lt(x)": lambda l, r: l.x.lt(r.x),
        "add(fill_value)": lambda l, r: l.x.add(r.x, fill_value=0),
        "assign": lambda l, r: l.assign(z=r.x),
        "assign two": lambda l, r: l.assign(z=r.x, w=l.y + 1, v=r.y * 2),
        "where": lambda l, r: l.x.where(r.y > 0),
        "where other": lambda l, r: l.x.where(l.y > 0, r.x),
        "mask frame": lambda l, r: _num(l).mask(_num(r) > 1),
        "combine_first": lambda l, r: l.combine_first(r),
        "combine_first series": lambda l, r: l.x.combine_first(r.x),
        "fillna": lambda l, r: l.x.fillna(r.x),
        "combine": lambda l, r: l.x.combine(r.x, operator.add, fill_value=0),
        "map": (lambda l, r: l.y.map(r.x, meta=("y", "f8"))) if on_dask else (lambda l, r: l.y.map(r.x)),
        "filter": lambda l, r: l[r.y > 0],
        "filter series": lambda l, r: l.x[r.x > 300],
        "concat axis=1": lambda l, r: cat([l.x, r.y], axis=1),
        "concat axis=1 projected": lambda l, r: cat([l[["x"]], r[["y"]].rename(columns={"y": "y2"})], axis=1)[["x"]],
        "concat axis=0": lambda l, r: cat([l, r]),
        "merge on index": lambda l, r: l.merge(r, left_index=True, right_index=True, how="outer", suffixes=("_l", "_r")),
        "join": lambda l, r: l[["x"]].join(r[["y"]], how="left"),
        "align": lambda l, r: l.x.align(r.x)[0],
        "ufunc": lambda l, r: np.add(l.x, r.x),
        "map_partitions": (lambda l, r: l.x.map_partitions(operator.add, r.x, meta=("x", "f8"))) if on_dask else (lambda l, r: l.x + r.x),
        "sum of x+x": lambda l, r: (l.x + r.x).sum(),
        "count of x*y": lambda l, r: (l.x * r.y).count(),
        "len of assign": lambda l, r: l.assign(z=r.x).z.count(),
        "three operands": lambda l, r: l.x + r.x + l.y - r.y,
        "chain": lambda l, r: ((l.x + r.x) * 2).to_frame("t").assign(u=l.y),
        "index of x+x": lambda l, r: (l.x + r.x).index,
        "tail then filter": lambda l, r: (l.x + r.x)[(l.x + r.x) > 200],
    }


CORE_TAILS = ("x+x", "assign", "where other", "combine_first", "frame*frame", "fillna", "where", "concat axis=1 projected",
              "sum of x+x", "three operands", "merge on index", "add(fill_value)")
# concat(axis=1) of collections with unknown divisions is not an index-aligned step (it is documented to assume that the
# partitions correspond): these tails belong to the family only while every operand has known divisions
NEEDS_KNOWN_DIVISIONS = ("concat axis=1", "concat axis=1 projected")
# c.optimize() of a query whose reader sits INSIDE the fused root (from_map, from_delayed) is left out: see the report of
# this family (pristine finding: such a root is taken to be co-aligned with every other collection)
# np.add(a.x, b.x) of one operand with known and one with unknown divisions fails in the pristine tree whether or not
# anything is cut (a.x + b.x computes): the ufunc tail is taken only while a cut does not produce that mix
MIXED_DIVISIONS_FAIL = ("ufunc",)
OPTIMIZE_CUT_SOURCES = ("pandas-sorted", "pandas-unsorted", "cleared")

SIDES = ("both", "left", "right")


def _res_canon(obj):
    return canon(obj, False, True)


class _Query:
    """The two heads of one (data, layout, heads) choice.  Per tail the uncut reference is computed once; a tail belongs to
    the family when pandas computes it on the (computed) heads and the uncut query agrees with pandas."""

    def __init__(self, rt, rng, layout, index_kind, dtype_kind, head, n):
        self.desc = {"layout": layout[0], "index": index_kind, "dtype": dtype_kind, "heads": head, "rows": n}
        lname, lk, rk, lp, rp, one_root = layout
        pa, pb = make_frames(rng, n, index_kind, dtype_kind)
        # the dtypes every reader of this run produces (strings): the sources of both sides then agree on them
        pa, pb = (rt.dx.from_pandas(p, npartitions=1, sort=False).compute() for p in (pa, pb))
        self.kinds = (lk, lk if one_root else rk)
        a = make_source(rt, pa, lk, lp)
        b = a if one_root else make_source(rt, pb, rk, rp)
        hf = HEADS.get(head) or PART_HEADS[head]
        self.left, self.right = hf[0](a), hf[1](b)
        self.known = bool(self.left.known_divisions and self.right.known_divisions)
        self.pl, self.pr = self.left.compute(), self.right.compute()
        self.refs = {}

    def applicable(self, tname, sides, cl, cr):
        used = [(k, src) for k, src, s in ((cl, self.kinds[0], sides != "right"), (cr, self.kinds[1], sides != "left")) if s]
        if tname in NEEDS_KNOWN_DIVISIONS and (not self.known or any(k == "delayed-unknown-divisions" for k, _ in used)):
            return False
        if any(k == "optimize-then-continue" and src not in OPTIMIZE_CUT_SOURCES for k, src in used):
            return False
        if tname in MIXED_DIVISIONS_FAIL:
            kl = self.left.known_divisions and not (sides != "right" and cl == "delayed-unknown-divisions")
            kr = self.right.known_divisions and not (sides != "left" and cr == "delayed-unknown-divisions")
            if bool(kl) != bool(kr):
                return False
        return True

    def ref(self, tname, T, TP, stats):
        if tname not in self.refs:
            self.refs[tname] = None
            pref = try_(lambda: _res_canon(TP[tname](self.pl, self.pr)))
            q = try_(lambda: T[tname](self.left, self.right))
            c = try_(lambda: _res_canon(q[1].compute())) if q[0] == "ok" else q
            why = None
            if pref[0] == "raise":
                why = "tail_undefined_in_pandas"
            elif c[0] == "raise":
                why = "uncut_query_fails"
            elif c[1] != pref[1]:
                why = "uncut_query_differs_from_pandas"
            else:
                self.refs[tname] = (q[1], c[1])
            if why:
                stats[why] = stats.get(why, 0) + 1
                stats.setdefault(why + "_tails", set()).add(tname)
        return self.refs[tname]


def one_case(run, C, T, TP, q, tname, sides, cl, cr, stats):
    """One cut of the query q in front of the tail tname."""
    case = dict(q.desc, kind="cut-multi", tail=tname, sides=sides, cut_left=cl if sides != "right" else None,
                cut_right=cr if sides != "left" else None, seed=run.seed)
    run.count(("cut-multi",) + tuple(sorted((k, str(v)) for k, v in case.items())), nontrivial=True)
    ref = q.ref(tname, T, TP, stats)
    if ref is None:
        stats["skipped"] = stats.get("skipped", 0) + 1
        return
    tail = T[tname]
    final, refc = ref
    tag = "query %s(L, R) over %s [%d rows, %s labels, %s data, heads %s], cut in front of the tail: %s" % (
        tname, q.desc["layout"], q.desc["rows"], q.desc["index"], q.desc["dtype"], q.desc["heads"],
        {"both": "L by %s and R by %s" % (cl, cr), "left": "L by %s" % cl, "right": "R by %s" % cr}[sides])

    def build():
        l = C[cl](q.left) if sides in ("both", "left") else q.left
        r = C[cr](q.right) if sides in ("both", "right") else q.right
        return tail(l, r)
    r = try_(build)
    if r[0] == "raise":
        run.violation("%s: continuing on the re-imported collections raises %s (the uncut query is built and computes)" % (tag, r[1]), case)
        return
    got = try_(lambda: r[1].compute())
    if got[0] == "raise":
        run.violation("%s: computing fails: %s (the uncut query computes)" % (tag, got[1]), case)
        return
    gc_ = _res_canon(got[1])
    stats["evaluated"] = stats.get("evaluated", 0) + 1
    if gc_ != refc:
        # known finding D207: a numpy ufunc over two operands that BOTH lost their divisions at the cut (index shuffle on both sides)
        fid = "D207" if (case.get("tail") == "ufunc" and case.get("sides") == "both" and case.get("cut_left") == "delayed-unknown-divisions" and case.get("cut_right") == "delayed-unknown-divisions") else None
        run.violation("%s: result %s differs from the uncut run %s" % (tag, _short(gc_), _short(refc)), case, finding=fid)
        return
    if hasattr(final, "_meta") and hasattr(r[1], "_meta"):
        mm = meta_mismatch(final._meta, r[1]._meta) if type(final._meta) is type(r[1]._meta) else "container kind differs"
        if mm and "dtype" not in mm:
            run.violation("%s: schema differs from the uncut run: %s" % (tag, mm), dict(case, kind="cut-multi-schema"))
    used = [k for k, s in ((cl, sides != "right"), (cr, sides != "left")) if s]
    if (hasattr(final, "known_divisions") and hasattr(r[1], "known_divisions") and final.known_divisions and r[1].known_divisions
            and "delayed-unknown-divisions" not in used and final.npartitions == r[1].npartitions):
        if tuple(final.divisions) != tuple(r[1].divisions):
            run.violation("%s: divisions %s differ from the uncut run %s" % (tag, r[1].divisions, final.divisions), dict(case, kind="cut-multi-divisions"))


def run_family(run, rt, C):
    import time
    t0 = time.time()
    T, TP = _tails(rt.dx.concat, True), _tails(pd.concat, False)
    rng = run.rng
    quick = run.tier == "quick"
    kinds = list(C)
    stats = {}
    by_kind, by_tail, by_layout = {}, {}, {}
    ncases = [0]

    def case(q, tname, sides, cl, cr):
        for k in {cl if sides != "right" else None, cr if sides != "left" else None} - {None}:
            by_kind[k] = by_kind.get(k, 0) + 1
        by_tail[tname] = by_tail.get(tname, 0) + 1
        by_layout[q.desc["layout"]] = by_layout.get(q.desc["layout"], 0) + 1
        ncases[0] += 1
        one_case(run, C, T, TP, q, tname, sides, cl, cr, stats)

    # 1. core: every kind of cut x every choice of sides, over the layouts in which the re-imported roots are easiest to
    #    confuse (same schema, same partition count, unknown or different divisions, a from_delayed source on the other side)
    core_layouts = LAYOUTS[:5] if quick else LAYOUTS
    turn = rng.randrange(len(CORE_TAILS))
    for layout in core_layouts:
        head = rng.choice(["filters", "filter / identity", "identity"]) if not layout[5] else "filters"
        q = _Query(rt, rng, layout, "int", rng.choice(["float", "int"]), head, 24)
        for cname in kinds:
            for sides in SIDES:
                if quick:
                    tails = []
                    for _k in range(len(CORE_TAILS)):
                        turn += 1
                        t = CORE_TAILS[turn % len(CORE_TAILS)]
                        if q.applicable(t, sides, cname, cname):
                            tails = [t]
                            break
                else:
                    tails = [t for t in CORE_TAILS if q.applicable(t, sides, cname, cname)]
                for tname in tails:
                    case(q, tname, sides, cname, cname)
    # 2. sweep: random members of the whole family (mixed kinds of cut, all layouts, dtypes, heads, tails)
    nsweep = 10 if quick else 250
    per_query = 4 if quick else 10
    for _ in range(nsweep):
        layout = rng.choice(LAYOUTS)
        index_kind = rng.choice(INDEX_KINDS)
        dtype_kind = rng.choice(DTYPE_KINDS)
        head = rng.choice(list(HEADS) + (list(PART_HEADS) if rng.random() < 0.3 else []))
        n = rng.choice([12, 24, 40])
        qq = try_(lambda: _Query(rt, rng, layout, index_kind, dtype_kind, head, n))
        if qq[0] == "raise":
            stats["query_not_built"] = stats.get("query_not_built", 0) + 1
            continue
        q = qq[1]
        done = 0
        for _j in range(per_query * 6):
            tname = rng.choice(list(T))
            sides = rng.choice(SIDES)
            cl, cr = rng.choice(kinds), rng.choice(kinds)
            if not q.applicable(tname, sides, cl, cr):
                continue
            case(q, tname, sides, cl, cr)
            done += 1
            if done == per_query:
                break
    stats = {k: (sorted(v) if isinstance(v, set) else v) for k, v in stats.items()}
    run.section("cuts in front of a multi-input step", cases=ncases[0], layouts=by_layout, tails=by_tail, cut_kinds=by_kind, wall_s=round(time.time() - t0, 1), **stats)
