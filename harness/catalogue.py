"""A fixed catalogue of queries covering many expression classes (used by C08, C15, C16, C17)."""
import os
import random


def tables():
    import numpy as np
    import pandas as pd
    n = 16
    pdf = pd.DataFrame({"a": [(7 * i) % 11 for i in range(n)], "b": [i % 4 for i in range(n)], "c": [float(i % 5) if i % 6 else np.nan for i in range(n)],
                        "s": ["w%d" % (i % 3) for i in range(n)], "t": pd.date_range("2021-01-01", periods=n, freq="D")})
    other = pd.DataFrame({"b": [0, 1, 2, 3, 1], "v": [10.0, 11.0, 12.0, 13.0, 14.0]})
    return pdf, other


def queries(dx, pdf, other, npart=4):
    """name -> thunk building the collection (thunks so that construction order can be permuted)."""
    def src():
        return dx.from_pandas(pdf, npartitions=npart)
    def oth():
        return dx.from_pandas(other, npartitions=2)
    def pre():
        import pandas as pd
        return dx.from_pandas(pd.DataFrame({"x": range(60), "w": range(60, 0, -1), "v": [i % 7 for i in range(60)]}), npartitions=4)
    def unsorted():
        return dx.from_pandas(pdf.iloc[_PERM], npartitions=npart)
    def big():
        import pandas as pd
        n = 2400
        return dx.from_pandas(pd.DataFrame({"k": [(i * 7919) % 2003 for i in range(n)], "v": range(n)}), npartitions=4)
    Q = {
        "source": lambda: src(),
        "add1": lambda: src()[["a", "b"]] + 1,
        "add2": lambda: src()[["a", "b"]] + 2,
        "mul": lambda: src()[["a", "b"]] * 3,
        "filter": lambda: (lambda d: d[d.a > 3])(src()),
        "filter-other-literal": lambda: (lambda d: d[d.a > 4])(src()),
        "filter-or": lambda: (lambda d: d[(d.a > 3) | (d.b == 1)])(src()),
        "proj-ab": lambda: src()[["a", "b"]],
        "proj-ba": lambda: src()[["b", "a"]],
        "series-a": lambda: src()["a"],
        "assign": lambda: (lambda d: d.assign(z=d.a + d.b))(src()),
        "fillna0": lambda: src()[["c"]].fillna(0),
        "fillna1": lambda: src()[["c"]].fillna(1),
        "astype": lambda: src().astype({"a": "float64"}),
        "rename": lambda: src().rename(columns={"a": "aa"}),
        "sum": lambda: src()[["a", "c"]].sum(),
        "sum-split2": lambda: src()[["a", "c"]].sum(split_every=2),
        "mean": lambda: src()[["a", "c"]].mean(),
        "count": lambda: src().count(),
        "max-a": lambda: src().a.max(),
        "len": lambda: src().a.size,
        "head3": lambda: src().head(3, compute=False),
        "head4": lambda: src().head(4, compute=False),
        "head3-np2": lambda: src().head(3, npartitions=2, compute=False),
        "tail3": lambda: src().tail(3, compute=False),
        "partitions-1": lambda: src().partitions[[1]],
        "partitions-2": lambda: src().partitions[[2]],
        "repartition-2": lambda: src().repartition(npartitions=2),
        "repartition-3": lambda: src().repartition(npartitions=3),
        "repartition-div": lambda: src().repartition(divisions=[0, 5, 15]),
        "shuffle-tasks": lambda: src().shuffle("b", shuffle_method="tasks"),
        "shuffle-tasks-mb2": lambda: src().shuffle("b", shuffle_method="tasks", max_branch=2),
        "shuffle-np3": lambda: src().shuffle("b", npartitions=3, shuffle_method="tasks"),
        "sort-a": lambda: src().sort_values("a"),
        "sort-b": lambda: src().sort_values("b"),
        "set_index-a": lambda: src().set_index("a"),
        "reset_index": lambda: src().reset_index(),
        "merge-inner": lambda: src().merge(oth(), on="b", shuffle_method="tasks"),
        "merge-left": lambda: src().merge(oth(), on="b", how="left", shuffle_method="tasks"),
        "merge-broadcast": lambda: src().merge(oth(), on="b", broadcast=True, shuffle_method="tasks"),
        "groupby-sum": lambda: src().groupby("b").a.sum(),
        "groupby-max": lambda: src().groupby("b").a.max(),
        "groupby-agg": lambda: src().groupby("b").agg({"a": "sum", "c": "mean"}),
        "groupby-split2": lambda: src().groupby("b").a.sum(split_out=2),
        "drop_duplicates": lambda: src()[["b"]].drop_duplicates(),
        "unique": lambda: src().b.unique(),
        "value_counts": lambda: src().s.value_counts(),
        "nunique": lambda: src().b.nunique(),
        "cumsum": lambda: src()[["a", "c"]].cumsum(),
        "cummax": lambda: src()[["a", "c"]].cummax(),
        "shift1": lambda: src()[["a"]].shift(1),
        "shift2": lambda: src()[["a"]].shift(2),
        "diff": lambda: src()[["a"]].diff(),
        "concat": lambda: dx.concat([src(), src()]),
        "concat-axis1": lambda: dx.concat([src()[["a"]], src()[["b"]]], axis=1),
        "isna": lambda: src().c.isna(),
        "where": lambda: (lambda d: d[["a", "c"]].where(d.a > 3))(src()),
        "clip": lambda: src()[["a"]].clip(2, 6),
        "str-upper": lambda: src().s.str.upper(),
        "dt-day": lambda: src().t.dt.day,
        "map_partitions": lambda: src().map_partitions(len),
        "index": lambda: src().index,
        "to_frame": lambda: src().a.to_frame(),
        "nlargest": lambda: src().nlargest(3, "a"),
        "dropna": lambda: src().dropna(),
        "loc": lambda: src().loc[3:9],
        "add-series": lambda: (lambda d: d.a + d.b)(src()),
        "sub-series": lambda: (lambda d: d.a - d.b)(src()),
        "lt": lambda: (lambda d: d.a < d.b)(src()),
        "and": lambda: (lambda d: (d.a < 5) & (d.b > 1))(src()),
        "abs": lambda: (src()[["a"]] - 5).abs(),
        "round": lambda: src()[["c"]].round(),
        "two-shifts": lambda: (lambda d: d.a.shift(1) + d.a.shift(2))(src()),
        "bcast-scalar": lambda: (lambda d: d.a + d.a.sum())(src()),
        "isin-strings": lambda: (lambda d: d[d.s.isin(["w0", "w2", "zz", "w0", "alpha", "beta"])])(src()),
        "isin-ints": lambda: (lambda d: d[d.b.isin([3, 1, 1, 7])])(src()),
        "quantile-25": lambda: src().a.quantile(0.25),
        "quantile-75": lambda: src().a.quantile(0.75),
        "iqr": lambda: (lambda d: d.a.quantile(0.75) - d.a.quantile(0.25))(src()),
        "set_index-drop-false-head": lambda: src().set_index("a", drop=False).head(3, compute=False),
        # large enough that the partition-quantile sketch samples (its sampling seed has to be a function of the operands only)
        "big-set_index": lambda: big().set_index("k"),
        "big-set_index-partition1": lambda: big().set_index("k").partitions[[1]],
        "big-sort_values": lambda: big().sort_values("k"),
        "big-sort_values-partition0": lambda: big().sort_values("k").partitions[[0]],
        # the same sort / index with other knobs (each is its own query although they read one column)
        "big-set_index-upsample2": lambda: big().set_index("k", upsample=2.0),
        "big-set_index-upsample05": lambda: big().set_index("k", upsample=0.5),
        "big-set_index-np3": lambda: big().set_index("k", npartitions=3),
        "big-sort_values-desc": lambda: big().sort_values("k", ascending=False),
        "big-sort_values-upsample2": lambda: big().sort_values("k", upsample=2.0),
        # one column, already sorted across the partitions, sorted in both directions / indexed (the cached division info
        # of a sort includes a "presorted" verdict that depends on the direction)
        "presorted-sort-asc": lambda: pre().sort_values("x"),
        "presorted-sort-desc": lambda: pre().sort_values("x", ascending=False),
        "presorted-set_index": lambda: pre().set_index("x"),
        "presorted-sort-desc-by-other": lambda: pre().sort_values("w", ascending=False),
        "presorted-sort-asc-by-other": lambda: pre().sort_values("w"),
        # a source whose index is not sorted (from_pandas sorts a private copy)
        "unsorted-source": lambda: unsorted(),
        "unsorted-source-filter": lambda: (lambda d: d[d.a > 3])(unsorted()),
        "unsorted-source-groupby": lambda: unsorted().groupby("b").a.sum(),
        "unsorted-source-nosort": lambda: dx.from_pandas(pdf.iloc[_PERM], npartitions=npart, sort=False),
        "unsorted-series": lambda: dx.from_pandas(pdf.iloc[_PERM].a, npartitions=npart),
        "from_array": lambda: dx.from_array(pdf[["a", "b"]].values, chunksize=5, columns=["p", "q"]),
        "from_map": lambda: dx.from_map(_cat_piece, [0, 1, 2], meta=_cat_piece(0).iloc[:0]),
        "from_dict": lambda: dx.from_dict({"x": [1, 2, 3, 4], "y": [5, 6, 7, 8]}, npartitions=2),
    }
    pq = os.environ.get("VERIF_CAT_PQ")
    if pq and os.path.isdir(pq):
        # single-parameter variants of one parquet read (the dataset is written once by the check, before any interpreter starts)
        for rd, kw in (("fsspec", {}), ("arrow", {"filesystem": "arrow"})):
            Q.update({
                "pq-%s" % rd: lambda kw=kw: dx.read_parquet(pq, **kw),
                "pq-%s-columns-str" % rd: lambda kw=kw: dx.read_parquet(pq, columns="a", **kw),
                "pq-%s-columns-list" % rd: lambda kw=kw: dx.read_parquet(pq, columns=["a"], **kw),
                "pq-%s-columns-ab" % rd: lambda kw=kw: dx.read_parquet(pq, columns=["a", "b"], **kw),
                "pq-%s-columns-ba" % rd: lambda kw=kw: dx.read_parquet(pq, columns=["b", "a"], **kw),
                "pq-%s-filters" % rd: lambda kw=kw: dx.read_parquet(pq, filters=[("a", ">", 3)], **kw),
                "pq-%s-filters-other" % rd: lambda kw=kw: dx.read_parquet(pq, filters=[("a", ">", 4)], **kw),
                "pq-%s-divisions" % rd: lambda kw=kw: dx.read_parquet(pq, calculate_divisions=True, **kw),
                "pq-%s-index-false" % rd: lambda kw=kw: dx.read_parquet(pq, index=False, **kw),
                "pq-%s-projected-op" % rd: lambda kw=kw: dx.read_parquet(pq, **kw)[["a"]] + 1,
                "pq-%s-getitem-a" % rd: lambda kw=kw: dx.read_parquet(pq, **kw)["a"],
                "pq-%s-getitem-list-a" % rd: lambda kw=kw: dx.read_parquet(pq, **kw)[["a"]],
            })
    return Q


_PERM = [7, 2, 9, 0, 5, 11, 3, 8, 1, 10, 6, 4, 15, 12, 14, 13]


def _cat_piece(i):
    import pandas as pd
    return pd.DataFrame({"u": [i, i + 1], "v": [10.0 * i, 10.0 * i + 1]}, index=[2 * i, 2 * i + 1])


def write_parquet_dataset(dx, path):
    """The parquet dataset of the pq-* queries (written once per run by the check that uses the catalogue)."""
    import shutil
    shutil.rmtree(path, ignore_errors=True)
    pdf, _ = tables()
    dx.from_pandas(pdf[["a", "b", "c"]], npartitions=4).to_parquet(path)
    os.environ["VERIF_CAT_PQ"] = path
    return path


def build_all(dx, order_seed=0, warmup=0):
    pdf, other = tables()
    Q = queries(dx, pdf, other)
    names = list(Q)
    random.Random(order_seed).shuffle(names)
    rng = random.Random(order_seed + 1)
    out = {}
    for i, nm in enumerate(names):
        if warmup and rng.random() < 0.3:
            # unrelated queries built and optimized in between
            junk = dx.from_pandas(pdf.assign(j=rng.random()), npartitions=2)
            (junk[["a"]] + rng.randint(0, 100)).optimize()
        out[nm] = Q[nm]()
    return out
