"""C08 -- expression names are deterministic and collision-free."""
import json
import os
import subprocess

import common


def names_in_subprocess(hashseed, order_seed, warmup):
    code = r'''
import sys, json
sys.path.insert(0, %r)
import rt, catalogue
cols = catalogue.build_all(rt.dx, order_seed=%d, warmup=%d)
out = {}
for nm, c in cols.items():
    try:
        o = c.optimize()
        keys = sorted(str(k) for k in o.__dask_graph__() if not any(p in str(k) for p in ("zpartd-", "shuffle-partition-", "barrier-")))
        out[nm] = {"logical": sorted(e._name for e in c.expr.walk()), "optimized": sorted(e._name for e in o.expr.walk()), "keys": keys}
    except Exception as ex:
        out[nm] = {"error": type(ex).__name__ + ": " + str(ex)[:100]}
print("@@" + json.dumps(out))
''' % (os.path.join(common.VERIF, "harness"), order_seed, warmup)
    env = dict(os.environ)
    env["PYTHONHASHSEED"] = str(hashseed)
    env["PYTHONPATH"] = common.REPO
    p = subprocess.run([common.PY, "-c", code], env=env, stdout=subprocess.PIPE, stderr=subprocess.PIPE, text=True, timeout=1800)
    if p.returncode != 0:
        raise RuntimeError(p.stderr[-800:])
    line = [l for l in p.stdout.split("\n") if l.startswith("@@")][-1]
    return json.loads(line[2:])


def common_try(f):
    try:
        return f()
    except Exception:
        return None


def run(run):
    import rt
    import catalogue
    import pandas as pd
    run.trusted = common.COMMON_TRUSTED + [
        "dask.base.tokenize is deterministic and collision-free on normalised operands (hypotheses tok_inj / tok_len of name_collision_iff): observed, not proved",
        "harness/gen_tables.py (class table generator: introspection + ast)",
    ]
    run.rule = ("a catalogue of ~75 queries covering ~150 expression classes built in fresh interpreters under 4 PYTHONHASHSEED values, permuted construction orders and with unrelated queries in between: "
                "names of every logical and optimized node and all graph keys must coincide; all pairs of distinct catalogue queries and single-parameter variations must have distinct names; "
                "same query twice = same object; equal-looking inputs with different data = different names; non-trivial = every catalogue query; "
                "histories of 1-3 queries whose mutable arguments (keyword dicts of reduction(), column lists, aggregation specs, mappings of 18 operators) are shared Python objects: "
                "every query, after the history, must have the names, keys, tasks and result of the same query built alone from fresh literals in another interpreter, "
                "the result of pandas, names that are the names of its operands, and a name different from the other queries of the history (harness/c08_alias.py)")
    run.proofs("PropC08.v")
    quick = run.tier == "quick"
    catalogue.write_parquet_dataset(rt.dx, os.path.join(common.BUILD, "cat_pq_c08"))     # once, before any interpreter builds the catalogue
    configs = [(0, 0, 0), (1, 1, 1), ("random", 2, 1)] + ([] if quick else [(12345, 3, 0), (7, 4, 1), ("random", 5, 1)])
    results = []
    for hs, order, warm in configs:
        results.append(((hs, order, warm), names_in_subprocess(hs, order + 10 * run.seed, warm)))
    ref_cfg, ref = results[0]
    classes = set()
    nbad = 0
    for nm in ref:
        run.count(("catalogue", nm))
        for cfg, res in results[1:]:
            a, b = ref[nm], res.get(nm)
            if "error" in a or b is None or "error" in b:
                if ("error" in a) != (b is None or "error" in b):
                    run.violation("query %s builds in one interpreter but not in another: %s / %s" % (nm, a.get("error"), (b or {}).get("error")), {"kind": "determinism", "query": nm})
                continue
            for what in ("logical", "optimized", "keys"):
                if a[what] != b[what]:
                    nbad += 1
                    diff = sorted(set(a[what]) ^ set(b[what]))[:4]
                    run.violation("%s names of query %s differ between interpreters (PYTHONHASHSEED/order/warmup %s vs %s): %s" % (what, nm, ref_cfg, cfg, diff),
                                  {"kind": "determinism", "query": nm, "what": what, "configs": [ref_cfg, cfg]})
                    break
    run.section("determinism", queries=len(ref), interpreters=len(results), differing=nbad)
    # distinctness inside one process
    cols = catalogue.build_all(rt.dx, order_seed=run.seed)
    by_name = {}
    for nm, c in cols.items():
        for e in c.expr.walk():
            classes.add(type(e).__name__)
        try:
            for e in c.optimize().expr.walk():
                classes.add(type(e).__name__)
        except Exception:
            pass
        n = c.expr._name
        if n in by_name:
            run.violation("distinct queries %s and %s share the name %s" % (by_name[n], nm, n), {"kind": "collision", "queries": [by_name[n], nm]})
        by_name[n] = nm
    # task keys across queries: evaluating two queries together (dask.compute(q1, q2)) merges their graphs, so a key shared by
    # two queries must stand for the same task
    import graphs
    key_owner, nkeys, shared = {}, 0, 0
    for nm, c in cols.items():
        g = common_try(lambda: dict(c.optimize().__dask_graph__()))
        if g is None:
            continue
        for k, t in g.items():
            if any(p in str(k) for p in ("zpartd-", "shuffle-partition-", "barrier-", "shuffle-transfer-")):
                continue            # DiskShuffle keys are fresh per materialization (known finding D14)
            nkeys += 1
            if k in key_owner:
                shared += 1
                onm, ot = key_owner[k]
                if onm != nm and not graphs.task_equal(ot, t):
                    run.violation("queries %s and %s define the task key %r with different tasks" % (onm, nm, k), {"kind": "collision-key", "queries": [onm, nm], "key": repr(k)})
            else:
                key_owner[k] = (nm, t)
    run.section("task-keys-across-queries", keys=nkeys, shared_between_queries=shared)
    # same query twice -> same name and same object
    cols2 = catalogue.build_all(rt.dx, order_seed=run.seed + 5)
    for nm in cols:
        run.count(("twice", nm))
        if cols[nm].expr._name != cols2[nm].expr._name:
            run.violation("query %s built twice has two names" % nm, {"kind": "determinism", "query": nm})
        elif cols[nm].expr is not cols2[nm].expr:
            run.violation("query %s built twice gives two different objects for one name" % nm, {"kind": "singleton", "query": nm})
    # equal-looking inputs with different data
    pdf, other = catalogue.tables()
    pdf2 = pdf.copy()
    pdf2.loc[3, "a"] = 999
    a, b = rt.dx.from_pandas(pdf, npartitions=4), rt.dx.from_pandas(pdf2, npartitions=4)
    run.count(("data", 1))
    if a.expr._name == b.expr._name or (a.a.sum()).expr._name == (b.a.sum()).expr._name:
        run.violation("two sources with different data share a name", {"kind": "collision-data"})
    # every parameter of a few constructors varied one at a time
    variations = [
        (lambda v: a.head(v, compute=False), [2, 3]), (lambda v: a.repartition(npartitions=v), [2, 3]), (lambda v: a[["a"]] + v, [1, 2, 1.0]),
        (lambda v: a.shuffle("b", npartitions=v, shuffle_method="tasks"), [2, 3]), (lambda v: a.shuffle(v, shuffle_method="tasks"), ["a", "b"]),
        (lambda v: a.shuffle("b", shuffle_method=v), ["tasks", "disk"]), (lambda v: a.a.sum(split_every=v), [2, 3, False]),
        (lambda v: a.sort_values("a", ascending=v), [True, False]), (lambda v: a.merge(a, on="b", how=v), ["inner", "left", "outer"]),
        (lambda v: a.groupby("b").a.sum(split_out=v), [1, 2]), (lambda v: a.fillna(v), [0, 1]), (lambda v: a.a.shift(v), [1, 2]),
        (lambda v: a.partitions[v], [[0], [1], [0, 1], [1, 0]]), (lambda v: a.clip(lower=v), [1, 2]), (lambda v: a.rename(columns={"a": v}), ["x", "y"]),
        (lambda v: a.astype({"a": v}), ["float64", "int32"]), (lambda v: a.drop_duplicates(subset=v), [["a"], ["b"]]), (lambda v: a.set_index(v), ["a", "b"]),
    ]
    for f, vals in variations:
        seen = {}
        for v in vals:
            run.count(("variation", repr(v)))
            try:
                n = f(v).expr._name
            except Exception:
                continue
            if n in seen and not (isinstance(v, float) and seen[n] == int(v) and False):
                run.violation("parameter values %r and %r give the same name %s" % (seen[n], v, n), {"kind": "collision-parameter", "values": [repr(seen[n]), repr(v)]})
            seen[n] = v
    # known finding D14: disk shuffle uses uuid1 for its internal keys (two materializations differ, by design)
    d = a.shuffle("b", shuffle_method="disk").optimize()
    k1, k2 = set(map(str, d.__dask_graph__())), set(map(str, d.__dask_graph__()))
    if k1 != k2:
        run.violation("DiskShuffle internal task keys differ between two materializations of one plan (uuid1)", {"kind": "known", "id": "D14"}, finding="D14")
    run.section("distinctness", catalogue_queries=len(cols), expression_classes_covered=len(classes), variations=len(variations))
    # history dimension: unrelated queries built with the SAME argument objects (dicts / lists the caller reuses)
    import c08_alias
    c08_alias.run_family(run, rt, common)
    run.sample({"query": "merge-left", "name": cols["merge-left"].expr._name})
