"""C18, piece layouts: how a parquet dataset is cut into partitions must not change any answer.

A dataset is written with several row groups per file (``row_group_size``), with or without a
``_metadata`` file, with equally or unequally sized files; it is read back with the options that
decide which row groups / files make up one partition (``split_row_groups`` = True / False / int /
"adaptive" / "infer", ``aggregate_files``, ``blocksize``; both readers; ``calculate_divisions`` on/off).
For every such read the answers the reader gives from the plan / the parquet footers / pushed-down
arguments (len, shape, size, Lengths, lengths of column- and partition-selected reads, pushed filters,
user filters, projections, divisions) are compared with the same read done in memory: the partitions
of the UNOPTIMIZED plan computed one by one, and the frame that was written.
"""
import os
import random

from e2e import canon, concat_parts, exec_expr, try_, _short, _Pieces, _piece, cut_pieces, node_truth

INDEX_KINDS = ("range", "named-int", "str", "datetime")
SPLITS = (None, True, False, 1, 2, 3, 5, "adaptive", "infer")
BLOCKSIZES = (None, 200, "1KiB")


def make_frame(spec):
    """The written frame, a function of the (JSON-serialisable) dataset description only."""
    import numpy as np
    import pandas as pd
    rng = random.Random(spec["data_seed"])
    n = spec["rows"]
    nulls = spec["nulls"]
    df = pd.DataFrame({
        "a": [np.nan if (nulls and rng.random() < 0.25) else float(rng.randint(0, 5)) for _ in range(n)],
        "b": [rng.randint(0, 5) for _ in range(n)],
        "s": [None if (nulls and rng.random() < 0.25) else rng.choice(["x", "y", "z"]) for _ in range(n)],
        "t": pd.date_range("2021-01-01", periods=n, freq="D")[[rng.randrange(n) for _ in range(n)]],
        "g": [i % 3 for i in range(n)],
    })
    k = spec["index"]
    if k == "named-int":
        df.index = pd.Index(range(100, 100 + n), name="idx")
    elif k == "str":
        df.index = pd.Index(["k%03d" % i for i in range(n)], name="key")
    elif k == "datetime":
        df.index = pd.Index(pd.date_range("2020-03-01", periods=n, freq="h"), name="when")
    return df


def write(rt, spec, pdf, path):
    kw = {}
    if spec["row_group_size"]:
        kw["row_group_size"] = spec["row_group_size"]
    if spec["metadata_file"]:
        kw["write_metadata_file"] = True
    if spec["cuts"] is None:
        src = rt.dx.from_pandas(pdf, npartitions=spec["files"])
    else:
        pieces = cut_pieces(pdf, spec["cuts"])
        src = rt.dx.from_map(_piece, list(range(len(pieces))), args=[_Pieces(pieces)], meta=pdf.iloc[:0])
    src.to_parquet(path, overwrite=True, **kw)


def dataset_specs(rng, quick):
    specs = []
    # fixed corners: many row groups per file; a single file; one row group per file (nothing to split)
    shapes = [(3, 4, None), (1, 5, None), (4, None, None), (3, 3, "uneven")]
    if quick:
        shapes = [shapes[0], shapes[rng.choice([1, 2])], shapes[3]]
    else:
        shapes += [(2, 7, None), (5, 2, "uneven"), (6, 1, None), (4, 4, "uneven"), (2, None, "uneven"), (3, 100, None)]
    for j, (files, rgs, uneven) in enumerate(shapes):
        rows = rng.choice([29, 37, 40, 43])
        cuts = None
        if uneven and files > 1:
            cuts = sorted(rng.sample(range(1, rows), files - 1))
        specs.append({
            "rows": rows, "files": files, "row_group_size": rgs, "cuts": cuts,
            "index": INDEX_KINDS[(j + rng.randrange(len(INDEX_KINDS))) % len(INDEX_KINDS)] if j else "named-int",
            "nulls": bool(j % 2 == 0 or rng.random() < 0.5),
            "metadata_file": bool(rng.random() < 0.35),
            "data_seed": rng.randrange(10 ** 6),
        })
    return specs


def read_configs(rng, quick, full=False):
    """keyword sets of read_parquet that change how files / row groups are grouped into partitions"""
    grid = []
    for srg in SPLITS:
        for agg in (None, True):
            for bs in BLOCKSIZES:
                kw = {}
                if srg is not None:
                    kw["split_row_groups"] = srg
                if agg:
                    kw["aggregate_files"] = True
                if bs is not None:
                    kw["blocksize"] = bs
                grid.append(kw)
    arrow = [{"filesystem": "arrow", "calculate_divisions": False}, {"filesystem": "arrow", "calculate_divisions": True}]
    if not quick:
        out = grid + [{"split_row_groups": 4}, {"split_row_groups": 7, "aggregate_files": True}, {"blocksize": "400B"}, {"blocksize": 120, "aggregate_files": True}]
        out = [dict(kw, calculate_divisions=cd) for kw in out for cd in (False, True)]
        # thorough: the whole grid for the first dataset, a random third of it for each further one
        return (out if full else rng.sample(out, 36)) + arrow
    core = [{}, {"split_row_groups": True}, {"split_row_groups": 2}, {"split_row_groups": 3, "aggregate_files": True},
            {"split_row_groups": "adaptive", "blocksize": 200}, {"aggregate_files": True, "blocksize": "1KiB"}]
    rest = [kw for kw in grid if kw not in core]
    # the core without divisions (lengths come from the footers), half of it with; a few random other option sets
    out = [dict(kw, calculate_divisions=False) for kw in core]
    out += [dict(kw, calculate_divisions=True) for kw in rng.sample(core, 2)]
    out += [dict(kw, calculate_divisions=rng.random() < 0.4) for kw in rng.sample(rest, 2)]
    out += arrow
    return out


def _flat(x):
    """[(3, 4, 2)] -> [3, 4, 2]"""
    out = []
    for y in x:
        if isinstance(y, (tuple, list)):
            out.extend(_flat(y))
        else:
            out.append(int(y))
    return out


def _eq_num(a, b):
    try:
        return int(a) == int(b)
    except Exception:
        return False


def null_row_group(spec, pdf):
    """Does some file hold a row group in which a column is entirely missing, next to one where it is not?
    (pristine finding P1: the arrow reader cannot aggregate such statistics -- see layout_family)"""
    if spec["cuts"] is None:
        k = spec["files"]
        # from_pandas cuts into k nearly equal pieces; use the sizes it really produced
        import rt as _rt
        pieces = [p for p in exec_expr(_rt.dx.from_pandas(pdf, npartitions=k).expr.lower_completely())]
    else:
        pieces = cut_pieces(pdf, spec["cuts"])
    r = spec["row_group_size"]
    for piece in pieces:
        groups = [piece.iloc[i:i + r] for i in range(0, len(piece), r)] if r else [piece]
        for col in piece.columns:
            empty = [bool(g[col].isna().all()) for g in groups if len(g)]
            if any(empty) and not all(empty):
                return True
    return False


def permuted_pieces(coll):
    """Does a partition of this read consist of row groups whose ids a Python set iterates out of order, e.g. [6, 7, 8]?
    (pristine finding P2: such a partition comes back with its row groups permuted when `filters=` is given)"""
    try:
        for e in coll.expr.walk():
            if type(e).__name__.startswith("ReadParquet"):
                for part in e._plan["parts"]:
                    for p in (part if isinstance(part, list) else [part]):
                        rgs = p["piece"][1]
                        if rgs and rgs != [None] and list(set(rgs)) != list(rgs):
                            return True
        return False
    except Exception:
        return True


def check_read(run, rt, spec, pdf, path, kw, quick, counter, force=None):
    """All observations for one (dataset, read options).  Reference = partitions of the unoptimized plan."""
    force = force or {}
    from dask_expr._expr import Lengths
    rng = run.rng
    base = {"kind": "layout", "dataset": spec, "read": kw}
    tag = "rows=%d files=%s row_group_size=%s index=%s%s read_parquet(%s)" % (
        spec["rows"], spec["files"] if spec["cuts"] is None else "cuts%s" % spec["cuts"], spec["row_group_size"], spec["index"],
        " _metadata" if spec["metadata_file"] else "", ", ".join("%s=%r" % it for it in kw.items()))

    def case(obs, **more):
        counter[0] += 1
        run.count(("layout", repr(sorted(spec.items(), key=repr)), repr(sorted(kw.items())), obs, repr(sorted(more.items()))))
        return dict(base, observe=obs, **more)

    def read(**extra):
        return rt.dx.read_parquet(path, **dict(kw, **extra))

    if kw.get("filesystem") == "arrow" and null_row_group(spec, pdf):
        return "left-out-P1"
    r = try_(read)
    if r[0] == "raise":
        # an option the reader does not support (arrow reader: split_row_groups / aggregate_files / blocksize)
        return "unsupported"
    d = r[1]
    # ---- reference: everything read into memory by the unoptimized plan, partition by partition
    c = case("roundtrip")
    ref = try_(lambda: exec_expr(d.expr.lower_completely()))
    if ref[0] == "raise":
        run.violation("%s: reading back raises %s" % (tag, ref[1]), c)
        return "raise"
    parts = ref[1]
    mem = concat_parts(parts)
    plens = [len(p) for p in parts]
    total = sum(plens)
    if canon(mem) != canon(pdf) or mem.index.name != pdf.index.name:
        run.violation("%s: data read back differs from the data written: %s vs %s" % (tag, _short(canon(mem)), _short(canon(pdf))), c)
        return "differs"
    got = try_(lambda: d.compute())
    if got[0] == "raise" or canon(got[1]) != canon(pdf):
        run.violation("%s: compute() of the optimized read differs from the data written (%s)" % (tag, got[1] if got[0] == "raise" else _short(canon(got[1]))), c)
    # ---- partition count / divisions reported by the plan
    c = case("npartitions")
    if d.npartitions != len(parts):
        run.violation("%s: npartitions = %d but %d partitions are computed" % (tag, d.npartitions, len(parts)), c)
    if kw.get("calculate_divisions"):
        c = case("divisions")
        o = try_(lambda: d.optimize(fuse=False).expr)
        if o[0] == "ok":
            for v in node_truth(tag, o[1], {"C06"}, "optimized", lowered=True):
                run.violation(v["what"], c)
        for cols in (["b"], "g"):
            c = case("fused-divisions", cols=cols)
            o = try_(lambda: d[cols].optimize(fuse=True).expr)
            if o[0] == "ok":
                for v in node_truth("%s[%s]" % (tag, cols), o[1], {"C06"}, "optimized", lowered=True):
                    run.violation(v["what"], c)
    # ---- lengths answered by the reader vs counted in memory
    width = len(pdf.columns)
    LEN = [
        ("len(df)", lambda d: len(d), total),
        ("df.shape[0]", lambda d: d.shape[0].compute(), total),
        ("df.size", lambda d: d.size.compute(), total * width),
        ("len(df.b)", lambda d: len(d.b), total),
        ("len(df[['s','a']])", lambda d: len(d[["s", "a"]]), total),
        ("len(df.index)", lambda d: len(d.index), total),
        ("len(df.a+1)", lambda d: len(d.a + 1), total),
        ("df.b.size", lambda d: d.b.size.compute(), total),
        ("len(df.assign(z=df.b*2)[['z','t']])", lambda d: len(d.assign(z=d.b * 2)[["z", "t"]]), total),
    ]
    for name, f, exp in LEN:
        c = case(name)
        g = try_(lambda: f(d))
        if g[0] == "raise" or not _eq_num(g[1], exp):
            run.violation("%s: %s = %s but the partitions read into memory hold %d rows (%s per partition)%s" % (
                tag, name, g[1], total, plens, "" if exp == total else " x %d columns" % width), c)
    # per-partition lengths (what Lengths / to_dask_array(lengths=True)-style callers get)
    for name, sel in (("Lengths(df)", lambda d: d), ("Lengths(df.a)", lambda d: d.a), ("Lengths(df[['b','t']]+elemwise)", lambda d: d[["b"]] * 2)):
        c = case(name)
        g = try_(lambda: _flat(exec_expr(Lengths(sel(d).expr).optimize())))
        if g[0] == "raise" or g[1] != plens:
            run.violation("%s: %s = %s but the computed partitions have %s rows" % (tag, name, g[1], plens), c)
    c = case("map_partitions(len)")
    g = try_(lambda: list(d.map_partitions(len, meta=("n", "i8")).compute()))
    if g[0] == "raise" or [int(x) for x in g[1]] != plens:
        run.violation("%s: map_partitions(len) over the optimized read = %s, unoptimized partitions have %s rows" % (tag, g[1], plens), c)
    # ---- partition subsets: data and lengths
    k = len(parts)
    sels = [[k - 1, 0] if k > 1 else [0], [rng.randrange(k)], sorted(rng.sample(range(k), max(1, k // 2)))]
    if k > 2:
        sels.append([k // 2, k // 2, 1])
    if quick:
        sels = [sels[0], rng.choice(sels[1:])]
    if "sel" in force:
        sels = [force["sel"]]
    for sel in sels:
        for cols in ((None, rng.choice([["a"], "b"])) if quick else (None, ["a"], "b")):
            c = case("partitions", sel=sel, cols=cols)
            q = try_(lambda: d.partitions[sel] if cols is None else d.partitions[sel][cols])
            if q[0] == "raise":
                run.violation("%s: partitions[%s] raises %s" % (tag, sel, q[1]), c)
                continue
            exp = concat_parts([parts[i] for i in sel])
            exp = exp if cols is None else exp[cols]
            ln, data = try_(lambda: len(q[1])), try_(lambda: q[1].compute())
            if data[0] == "raise" or canon(data[1]) != canon(exp):
                run.violation("%s: partitions[%s][%s] differs from the corresponding partitions read in memory (%s)" % (tag, sel, cols, data[1] if data[0] == "raise" else "%d rows vs %d" % (len(data[1]), len(exp))), c)
            if ln[0] == "raise" or not _eq_num(ln[1], len(exp)):
                run.violation("len(%s.partitions[%s][%s]) = %s but these partitions hold %d rows in memory" % (tag, sel, cols, ln[1], len(exp)), c)
    # ---- projections
    PROJ = [["b"], ["s", "a"], "t", ["g", "t", "a"]]
    for cols in ([rng.choice(PROJ)] if quick else PROJ):
        c = case("projection", cols=cols)
        g = try_(lambda: d[cols].compute())
        if g[0] == "raise" or canon(g[1]) != canon(mem[cols]):
            run.violation("%s: column selection %s differs from selecting in memory (%s)" % (tag, cols, g[1] if g[0] == "raise" else "values"), c)
    # ---- row filters pushed into the reader / given by the user, and the length of the filtered read
    v = force.get("v", rng.randint(1, 4))
    PRED = [("b>=%d" % v, lambda x: x.b >= v), ("a>%d" % v, lambda x: x.a > v), ("(b<%d)|(g==1)" % v, lambda x: (x.b < v) | (x.g == 1)), ("(a<=%d)&(b>0)" % v, lambda x: (x.a <= v) & (x.b > 0))]
    UF = [("b", "<=", 3)]
    combos = [(pr, uf) for pr in PRED for uf in (None, UF)]
    if quick:
        combos = [(rng.choice(PRED), rng.choice([None, UF]))]
    for (pname, pf), uf in combos:
        c = case("filter", pred=pname, user_filter=uf, v=v)
        dd = try_(lambda: d if uf is None else read(filters=uf))
        if dd[0] == "raise":
            run.violation("%s: read_parquet(filters=%s) raises %s" % (tag, uf, dd[1]), c)
            continue
        bm = mem if uf is None else mem[mem.b <= 3]
        exp = bm[pf(bm)]
        g = try_(lambda: dd[1][pf(dd[1])].compute())
        # P2 (see layout_family): the row ORDER inside such a partition is left out, the rows themselves are compared
        ordered = uf is None or not permuted_pieces(dd[1])
        if g[0] == "raise" or canon(g[1], ordered) != canon(exp, ordered):
            run.violation("%s: rows after filter %s (user filters %s) differ from filtering in memory: %s vs %d rows" % (tag, pname, uf, g[1] if g[0] == "raise" else "%d rows" % len(g[1]), len(exp)), c)
        g = try_(lambda: len(dd[1][pf(dd[1])]["b"]))
        if g[0] == "raise" or not _eq_num(g[1], len(exp)):
            run.violation("%s: len(df[%s].b) (user filters %s) = %s, filtering in memory leaves %d rows" % (tag, pname, uf, g[1], len(exp)), c)
        if uf is not None:
            g = try_(lambda: len(dd[1]))
            if g[0] == "raise" or not _eq_num(g[1], len(bm)):
                run.violation("%s: len(read_parquet(filters=%s)) = %s, filtering in memory leaves %d rows" % (tag, uf, g[1], len(bm)), c)
    return "ok"


def layout_family(run, rt, tmp, quick):
    import time
    t0 = time.time()
    counter = [0]
    specs = dataset_specs(run.rng, quick)
    # Inputs left out of the family because the UNMODIFIED tree already fails on them (reported as pristine findings):
    #  P1  filesystem="arrow": a file with several row groups, one of which holds only missing values in some column while another
    #      does not -> len() / calculate_divisions=True / a column selection raise TypeError ('<' between NoneType and float/str)
    #      in _aggregate_statistics_to_file; the arrow reads of such datasets are skipped (null_row_group).
    #  P2  read_parquet(filters=..., split_row_groups=3) on a file with >= 9 row groups: the partition made of row groups [6, 7, 8]
    #      returns them in the order 8, 6, 7; for such reads the rows are compared without their order (permuted_pieces).
    stats = {"datasets": len(specs), "reads": 0, "unsupported": 0, "split_reads": 0, "left_out_P1": 0}
    for i, spec in enumerate(specs):
        pdf = make_frame(spec)
        path = os.path.join(tmp, "layout_%d" % i)
        w = try_(lambda: write(rt, spec, pdf, path))
        if w[0] == "raise":
            run.count(("layout-write", repr(spec)))
            run.violation("to_parquet(%s) fails: %s" % (spec, w[1]), {"kind": "layout", "dataset": spec, "observe": "write"})
            continue
        for kw in read_configs(run.rng, quick, full=(i == 0)):
            res = check_read(run, rt, spec, pdf, path, kw, quick, counter)
            stats["reads"] += 1
            stats["unsupported"] += res == "unsupported"
            stats["left_out_P1"] += res == "left-out-P1"
            stats["split_reads"] += bool(res == "ok" and (kw.get("split_row_groups") not in (None, False, "infer") or kw.get("blocksize") or kw.get("aggregate_files")))
    run.section("parquet_piece_layouts", cases=counter[0], wall_s=round(time.time() - t0, 1), **stats)


def replay_case(rt, case, tmp):
    """Re-run every observation of the (dataset, read options) of a stored failing case; returns the violations."""
    class _R:
        tier = "quick"
        rng = random.Random(0)
        out = []

        def count(self, *a, **k):
            pass

        def violation(self, what, c, finding=None):
            self.out.append(what)
    r = _R()
    spec = case["dataset"]
    pdf = make_frame(spec)
    path = os.path.join(tmp, "replay")
    write(rt, spec, pdf, path)
    check_read(r, rt, spec, pdf, path, case["read"], False, [0], force={k: case[k] for k in ("sel", "v") if k in case})
    return r.out
