"""C03 -- a filter keeps exactly the rows that satisfy the user's predicate."""
import itertools

import common
import c03_reader
import c03_reset
import preds
from e2e import canon, concat_parts, exec_expr, try_, _short


def pred_builders(rng):
    """Predicate builders over a frame y (work on pandas and dask objects alike)."""
    P = {
        "a>1": lambda y: y.a > 1,
        "b==2": lambda y: y.b == 2,
        "a!=b": lambda y: y.a != y.b,
        "a<=b": lambda y: y.a <= y.b,
        "a.isna": lambda y: y.a.isna(),
        "~(b>2)": lambda y: ~(y.b > 2),
        "(a>1)&(b<3)": lambda y: (y.a > 1) & (y.b < 3),
        "(a>1)|(b<1)": lambda y: (y.a > 1) | (y.b < 1),
        "((a>1)&(b<3))|((a>1)&(c==1))": lambda y: ((y.a > 1) & (y.b < 3)) | ((y.a > 1) & (y.c == 1)),
        "((a>1)&(b<3))|((a>1)&(c==1))|(b==0)": lambda y: ((y.a > 1) & (y.b < 3)) | ((y.a > 1) & (y.c == 1)) | (y.b == 0),
        "((a>0)&(b<3))|(a>0)": lambda y: ((y.a > 0) & (y.b < 3)) | (y.a > 0),
        "a>a.mean": lambda y: y.a > y.a.mean(),
        "a+b>3": lambda y: (y.a + y.b) > 3,
        "b.notnull&(a<3)": lambda y: y.b.notnull() & (y.a < 3),
    }
    return P


def crossing_ops():
    """Operator kinds a filter can cross: y = op(df).  (name, fn, ordered_after, uses_index_pred)"""
    return [
        ("identity", lambda d: d, True),
        ("proj", lambda d: d[["c", "a", "b"]], True),
        ("rename", lambda d: d.rename(columns={"d": "dd"}), True),
        ("astype-other", lambda d: d.astype({"d": "float64"}), True),
        ("astype-pred-col", lambda d: d.astype({"a": "int64"}), True),
        ("fillna", lambda d: d.fillna(1), True),
        ("assign", lambda d: d.assign(z=d.a + 1), True),
        ("assign-overwrite", lambda d: d.assign(a=d.b), True),
        ("abs", lambda d: d.abs(), True),
        ("add-lit", lambda d: d + 1, True),
        ("reset_index", lambda d: d.reset_index(), False),
        ("reset_index-drop", lambda d: d.reset_index(drop=True), False),
        ("sort_values", lambda d: d.sort_values("b"), False),
        ("set_index", lambda d: d.set_index("d") if hasattr(d, "npartitions") else d.set_index("d").sort_index(kind="stable"), False),
        ("repartition", lambda d: d.repartition(npartitions=2) if hasattr(d, "npartitions") else d, True),
        ("shuffle", lambda d: d.shuffle("b") if hasattr(d, "npartitions") else d, False),
        ("filter-first", lambda d: d[d.c > 0], True),
        ("drop", lambda d: d.drop(columns=["d"]), True),
        ("rename_axis", lambda d: d.rename_axis(index="i"), True),
        ("copy", lambda d: d.copy(), True),
    ]


def consumers():
    """What sits above the filter (gives the Filter a parent / other consumers)."""
    return [
        ("frame", lambda z, y: z, "frame"),
        ("cols", lambda z, y: z[["b", "a"]], "frame"),
        ("col", lambda z, y: z["a"], "series"),
        ("sum", lambda z, y: z.b.sum(), "scalar"),
        ("count", lambda z, y: z.count(), "series"),
        ("shared-outside", lambda z, y: z.a.sum() + y.b.sum(), "scalar"),
        ("second-filter", lambda z, y: z[z.b > 0], "frame"),
        ("second-filter-reduction", lambda z, y: z[z.b >= z.b.min()], "frame"),
    ]


def tables(rng, nulls, nullable):
    import numpy as np
    import pandas as pd
    n = 11
    d = {}
    for c in "abcd":
        v = np.array([rng.randint(0, 4) for _ in range(n)], dtype="float64")
        if nulls:
            for i in range(n):
                if rng.random() < nulls:
                    v[i] = np.nan
        d[c] = v
    pdf = pd.DataFrame(d)
    if not nulls:
        pdf = pdf.astype("int64")
    if nullable:
        pdf = pdf.astype("Int64") if nulls else pdf
    return pdf


def known(opname, pname, cname):
    """Classifier for known findings (call site + condition)."""
    return None


def scenario_sweep(run):
    import rt
    import pandas as pd
    quick = run.tier == "quick"
    P = pred_builders(run.rng)
    ops = crossing_ops()
    cons = consumers()
    combos = list(itertools.product(ops, P.items(), cons))
    if quick:
        run.rng.shuffle(combos)
        combos = combos[:700]
    datasets = [(0.0, False), (0.25, False), (0.25, True)]
    n = 0
    for (opname, op, ordered_after), (pname, pred), (cname, consumer, kind) in combos:
        for nulls, nullable in (datasets if not quick else [datasets[n % 3]]):
            pdf = tables(run.rng, nulls, nullable)
            if opname == "astype-pred-col" and nulls:
                continue  # casting NaN to int raises in pandas itself
            if opname in ("set_index", "sort_values") and nulls:
                continue  # nulls in the index / sort key: outside what dask supports (quantile divisions)
            n += 1
            case = {"op": opname, "pred": pname, "consumer": cname, "nulls": nulls, "nullable": nullable, "data": pdf.to_dict(orient="list")}
            run.count(("scenario", opname, pname, cname, nulls, nullable))

            def prog(src, _op=op, _pred=pred, _cons=consumer):
                y = _op(src)
                z = y[_pred(y)]
                return _cons(z, y)
            exp = try_(lambda: prog(pdf))
            if exp[0] == "raise":
                continue
            for npart in (1, 3):
                df = rt.dx.from_pandas(pdf, npartitions=npart)
                got = try_(lambda: prog(df))
                if got[0] == "raise":
                    run.violation("building raises %s (%s) but pandas computes it" % (got[1], case_str(case)), dict(case, npartitions=npart, kind="scenario"))
                    continue
                ordered = ordered_after and opname not in ("shuffle",)
                opt = try_(lambda: canon(concat_parts(exec_expr(got[1].optimize().expr)), ordered))
                un = try_(lambda: canon(concat_parts(exec_expr(got[1].expr.lower_completely())), ordered))
                pc = canon(exp[1], ordered)
                if kind == "scalar":
                    pc = ("scalar", pc[1])
                if opt[0] == "raise":
                    if un[0] == "ok":
                        run.violation("optimized filter query fails (%s): %s" % (opt[1], case_str(case)), dict(case, npartitions=npart, kind="scenario"),
                                      finding=known(opname, pname, cname))
                    continue
                if opname in ("reset_index", "reset_index-drop"):
                    # index labels after reset_index are unspecified (restart per partition): compare without them
                    opt = ("ok", strip_index(opt[1])); pc = strip_index(pc)
                    if un[0] == "ok":
                        un = ("ok", strip_index(un[1]))
                if opt[1] != pc:
                    run.violation("filtered rows differ from the rows satisfying the predicate (%s): got %s expected %s" % (case_str(case), _short(opt[1]), _short(pc)),
                                  dict(case, npartitions=npart, kind="scenario"), finding=known(opname, pname, cname))
    run.section("scenarios", cases=n, operators=len(ops), predicates=len(P), consumers=len(cons))


def strip_index(c):
    if c[0] == "frame":
        return ("frame", c[1], sorted([r[1:] for r in c[2]], key=repr))
    if c[0] == "series":
        return ("series", c[1], sorted([r[1:] for r in c[2]], key=repr))
    return c


def case_str(case):
    return "op=%s pred=%s consumer=%s nulls=%s nullable=%s" % (case["op"], case["pred"], case["consumer"], case["nulls"], case["nullable"])


def join_table(run):
    """Join-side rules: how x predicate side x suffixes x collisions x other consumers, vs pandas."""
    import rt
    import numpy as np
    import pandas as pd
    rng = run.rng
    n = 0
    hows = ["inner", "left", "right", "outer", "leftsemi"]
    suffix_sets = [("_x", "_y"), ("_l", ""), ("", "_r"), ("_l", "_r")]
    for how in hows:
        for sfx in suffix_sets:
            for npl, npr in ((1, 1), (2, 3)):
                L = pd.DataFrame({"k": [rng.randint(0, 4) for _ in range(9)], "v": [rng.randint(0, 4) for _ in range(9)], "lo": range(9)})
                R = pd.DataFrame({"k": [rng.randint(0, 4) for _ in range(7)], "v": [rng.randint(0, 4) for _ in range(7)], "ro": range(7)})
                preds_ = {
                    "left-only-col": lambda m: m.lo > 3,
                    "right-only-col": lambda m: m.ro < 4,
                    "key": lambda m: m.k >= 2,
                    "left-suffixed": (lambda m, s=sfx: m["v" + s[0]] > 1),
                    "right-suffixed": (lambda m, s=sfx: m["v" + s[1]] > 1),
                    "both": lambda m: (m.lo > 2) & (m.ro < 5),
                    "and left-first": lambda m: (m.lo > 2) & (m.ro < 5),
                    "and right-first": lambda m: (m.ro < 5) & (m.lo > 2),
                    "and key+right": lambda m: (m.k >= 1) & (m.ro != 3),
                    "and three": lambda m: (m.ro < 6) & (m.lo > 1) & (m.k < 4),
                    "or mixed": lambda m: (m.lo > 5) | (m.ro < 2),
                    "ne-right": lambda m: m.ro != 2,
                    "isna-right": lambda m: m.ro.isna(),
                }
                for pn, pf in preds_.items():
                    if how == "leftsemi":
                        if pn in ("right-only-col", "right-suffixed", "both", "ne-right", "isna-right", "and left-first", "and right-first", "and key+right", "and three", "or mixed"):
                            continue
                        if pn == "left-suffixed":
                            pf = lambda m: m.v > 1
                    for cons in ("frame", "cols"):
                        n += 1
                        case = {"how": how, "suffixes": sfx, "pred": pn, "consumer": cons, "npl": npl, "npr": npr,
                                "L": L.to_dict(orient="list"), "R": R.to_dict(orient="list")}
                        run.count(("join", how, sfx, pn, cons, npl, npr))

                        def q(l, r, is_dask):
                            if how == "leftsemi":
                                if is_dask:
                                    m = l.merge(r[["k"]], on="k", how="leftsemi")
                                else:
                                    m = l[l.k.isin(r.k)]
                            else:
                                m = l.merge(r, on="k", how=how, suffixes=sfx)
                            z = m[pf(m)]
                            return z if cons == "frame" else z[[c for c in z.columns][:2]]
                        exp = try_(lambda: q(L, R, False))
                        if exp[0] == "raise":
                            continue
                        dl, dr = rt.dx.from_pandas(L, npartitions=npl), rt.dx.from_pandas(R, npartitions=npr)
                        got = try_(lambda: q(dl, dr, True))
                        if got[0] == "raise":
                            run.violation("join filter query cannot be built: %s (%s %s %s)" % (got[1], how, sfx, pn), dict(case, kind="join"))
                            continue
                        opt = try_(lambda: strip_index(canon(concat_parts(exec_expr(got[1].optimize().expr)), False)))
                        pc = strip_index(canon(exp[1], False))
                        if opt[0] == "raise":
                            run.violation("optimized join+filter fails: %s (how=%s suffixes=%s pred=%s)" % (opt[1], how, sfx, pn), dict(case, kind="join"))
                        elif opt[1] != pc:
                            run.violation("join+filter rows differ from pandas (how=%s suffixes=%s pred=%s consumer=%s): got %s expected %s" % (
                                how, sfx, pn, cons, _short(opt[1]), _short(pc)), dict(case, kind="join"))
    run.section("join_table", cases=n, hows=hows, suffixes=[list(s) for s in suffix_sets])


def targeted(run):
    """Value-changing and order-changing operators under a filter (the hypotheses the pass-through proofs need)."""
    import rt
    import numpy as np
    import pandas as pd
    n = 0
    pdf = pd.DataFrame({"a": [0.5, 1.5, 2.5, 1.0, 3.7, 1.2, 0.1, 2.0], "b": [3, 1, 2, 7, 5, 0, 6, 4], "c": [1, 1, 0, 0, 1, 0, 1, 0]})
    cases = {
        "astype-truncation": lambda d: (lambda y: y[y.a == 1])(d.astype({"a": "int64"})),
        "astype-all-cols": lambda d: (lambda y: y[y.a > 1])(d.astype("int64")),
        "sort-then-cumsum-pred": lambda d: (lambda y: y[y.c.cumsum() > 2])(d.sort_values("b")),
        "set_index-then-cumsum-pred": lambda d: (lambda y: y[y.c.cumsum() > 2])(d.set_index("b") if hasattr(d, "npartitions") else d.set_index("b").sort_index()),
        "sort-then-shift-pred": lambda d: (lambda y: y[y.c.shift(1) == 1])(d.sort_values("b")),
        "fillna-then-pred": lambda d: (lambda y: y[y.a > 1])(d.fillna(5)),
        "abs-then-pred": lambda d: (lambda y: y[y.a > 1])((d - 2).abs()),
        "round-then-pred": lambda d: (lambda y: y[y.a == 2])(d.round()),
        "clip-then-pred": lambda d: (lambda y: y[y.a >= 2])(d.clip(lower=2)),
        "replace-then-pred": lambda d: (lambda y: y[y.c == 9])(d.replace(1, 9)),
        "to_frame-then-pred": lambda d: (lambda y: y[y.a > 1])(d.a.to_frame()),
        "rename-series-then-pred": lambda d: (lambda y: y[y > 1])(d.a.rename("q")),
        "reset_index-index-pred": lambda d: (lambda y: y[y["index"] > 2])(d.reset_index()),
        "add_prefix-then-pred": lambda d: (lambda y: y[y.p_a > 1])(d.add_prefix("p_")),
    }
    for nm, f in cases.items():
        exp = try_(lambda: f(pdf))
        if exp[0] == "raise":
            continue
        for npart in (1, 3):
            n += 1
            run.count(("targeted", nm, npart))
            df = rt.dx.from_pandas(pdf, npartitions=npart)
            got = try_(lambda: f(df))
            if got[0] == "raise":
                run.violation("building %s raises %s" % (nm, got[1]), {"kind": "targeted", "name": nm})
                continue
            ordered = not nm.startswith(("sort", "set_index", "reset_index"))
            opt = try_(lambda: canon(concat_parts(exec_expr(got[1].optimize().expr)), ordered))
            pc = canon(exp[1], ordered)
            if nm.startswith("reset_index"):
                opt = (opt[0], strip_index(opt[1]) if opt[0] == "ok" else opt[1]); pc = strip_index(pc)
            if opt[0] == "raise":
                run.violation("optimized %s fails: %s" % (nm, opt[1]), {"kind": "targeted", "name": nm, "npartitions": npart}, finding=KNOWN_TARGETED.get(nm))
            elif opt[1] != pc:
                run.violation("filter after %s returns %s, pandas %s" % (nm, _short(opt[1]), _short(pc)), {"kind": "targeted", "name": nm, "npartitions": npart},
                              finding=KNOWN_TARGETED.get(nm))
    run.section("targeted", cases=n, names=sorted(cases))


KNOWN_TARGETED = {}


def cast_grid(run):
    """A filter whose predicate reads a column above an astype: every numeric source/destination dtype pair, on data that
    changes under the narrowing casts (wrap-around, rounding, truncation, sign), several predicates, vs pandas."""
    import rt
    import numpy as np
    import pandas as pd
    vals = {"int64": [0, 1, 100, 127, 128, 200, 255, 256, 300, 32768, 70000, 2**31 + 5, -1, -129, 16777217],
            "float64": [0.0, 1.0, 1.5, 2.5, -0.5, 127.0, 128.0, 300.7, 16777217.0, 3e9, -1.0, 255.9, 70000.2, 0.1, 1e-3],
            "int32": [0, 1, 100, 127, 128, 200, 255, 256, 300, 32768, 70000, -1, -129, 16777217, 5],
            "uint8": [0, 1, 100, 127, 128, 200, 255, 3, 4, 5, 6, 7, 8, 9, 10]}
    dsts = ["int8", "int16", "int32", "int64", "uint8", "uint16", "float32", "float64"]
    compound = {"(a == K) & (b > 0)": lambda y, k: y[(y.a == k) & (y.b > 0)], "(b > 0) & (a == K)": lambda y, k: y[(y.b > 0) & (y.a == k)],
                "(a == K) | (b > 12)": lambda y, k: y[(y.a == k) | (y.b > 12)], "(b > 12) | (a >= K)": lambda y, k: y[(y.b > 12) | (y.a >= k)],
                "~(a >= K) & (b < 8)": lambda y, k: y[~(y.a >= k) & (y.b < 8)], "(a > K) & (a < K + 200) & (b >= 0)": lambda y, k: y[(y.a > k) & (y.a < k + 200) & (y.b >= 0)]}
    preds = {"> 100": lambda c: c > 100, "< 0": lambda c: c < 0, "== 1": lambda c: c == 1, "== 16777216": lambda c: c == 16777216, ">= 128": lambda c: c >= 128,
             "<= 44": lambda c: c <= 44, "!= 0": lambda c: c != 0}
    n = 0
    for src, vs in vals.items():
        pdf = pd.DataFrame({"a": np.array(vs, dtype=src), "b": range(len(vs))})
        for dst in dsts:
            if dst == src:
                continue
            for form, cast in (("dict", lambda d: d.astype({"a": dst})), ("all", lambda d: d.astype(dst))):
                for pn, pf in preds.items():
                    with np.errstate(all="ignore"):
                        exp = try_(lambda: (lambda y: y[pf(y.a)])(cast(pdf)))
                    if exp[0] == "raise":
                        continue
                    n += 1
                    run.count(("cast", src, dst, form, pn))
                    df = rt.dx.from_pandas(pdf, npartitions=3)
                    got = try_(lambda: canon(concat_parts(exec_expr((lambda y: y[pf(y.a)])(cast(df)).optimize().expr)), True))
                    pc = canon(exp[1], True)
                    case = {"kind": "cast", "src": src, "dst": dst, "form": form, "pred": pn}
                    if got[0] == "raise":
                        run.violation("filter a %s above astype(%s -> %s, %s) fails when optimized: %s" % (pn, src, dst, form, got[1]), case)
                    elif got[1] != pc:
                        run.violation("filter a %s above astype(%s -> %s, %s) returns %s, pandas %s" % (pn, src, dst, form, _short(got[1]), _short(pc)), case)
    # compound predicates: every operand order (a rule that inspects only one operand of the predicate is wrong for the other order)
    for src, vs in vals.items():
        pdf = pd.DataFrame({"a": np.array(vs, dtype=src), "b": range(len(vs))})
        for dst in dsts:
            if dst == src:
                continue
            for cn, cf in compound.items():
                for k in (1, 100, 128):
                    with np.errstate(all="ignore"):
                        exp = try_(lambda: cf(pdf.astype({"a": dst}), k))
                    if exp[0] == "raise":
                        continue
                    n += 1
                    run.count(("cast-compound", src, dst, cn, k))
                    df = rt.dx.from_pandas(pdf, npartitions=3)
                    got = try_(lambda: canon(concat_parts(exec_expr(cf(df.astype({"a": dst}), k).optimize().expr)), True))
                    pc = canon(exp[1], True)
                    case = {"kind": "cast-compound", "src": src, "dst": dst, "pred": cn, "k": k}
                    if got[0] == "raise":
                        run.violation("filter %s (K=%d) above astype(%s -> %s) fails when optimized: %s" % (cn, k, src, dst, got[1]), case)
                    elif got[1] != pc:
                        run.violation("filter %s (K=%d) above astype(%s -> %s) returns %s, pandas %s" % (cn, k, src, dst, _short(got[1]), _short(pc)), case)
    run.section("cast_grid", cases=n, sources=sorted(vals), destinations=dsts)


def run(run):
    run.trusted = common.COMMON_TRUSTED + [
        "structural equality of sub-predicates stands for `_name` equality (justified by C08)",
        "pandas evaluates the predicate trees (oracle of the scenario sweeps); pandas & / | on nullable booleans is Kleene logic, on NaN-bearing floats comparisons are False (!= True)",
    ]
    run.rule = ("exhaustive: all And/Or predicate trees up to 4 (quick) / 5 (thorough) leaves over 4 atoms + factoring-shaped random trees: real rewrite_filters vs proved model; "
                "scenario grid: operator kind crossed x predicate x consumer x nulls (NaN / pd.NA) x partitions vs pandas; join table how x side x suffixes; "
                "index resets: label layouts of the frame under reset_index (data columns called index / level_0 / '' / integers x index name None / string / '' / 0 / "
                "index / level_0, DataFrames and Series) x index values (unique, permuted, duplicates, floats, strings, timestamps, missing) x data dtypes with NaN / pd.NA / None x "
                "histories of the frame x drop x operators between the reset and the filter x predicates on every column of the reset frame (former index and data) x consumers "
                "vs pandas evaluating the predicate on the computed unfiltered frame; "
                "reader hand-over: parquet (both readers, several file / row-group layouts, NaN / None / pd.NA, user filters) x And/Or/Not shapes up to 3 (quick) / 4 (thorough) leaves x "
                "every assignment of {reader-expressible comparison, other term} to the leaves x 14 surroundings of the filter vs pandas on the data read in full (and the unoptimized plan); "
                "non-trivial = factoring fired / scenario executed / the leaves take all valuations on the data")
    run.proofs("PropC03.v")
    m = common.Model()
    preds.sweep(run, m, run.tier == "quick")
    scenario_sweep(run)
    join_table(run)
    targeted(run)
    cast_grid(run)
    c03_reset.reset_sweep(run)
    c03_reader.reader_sweep(run)
