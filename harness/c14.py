"""C14 -- blockwise fusion only changes task granularity."""
import random

import common
import progcheck
from common import sx
from e2e import canon, concat_parts, exec_expr, try_, _short


class OutOfModel(Exception):
    pass


class FusedExporter:
    """Real Fused expression -> (self, group, deps) of coq/Fusion.v, and its _task(index) dict -> model vocabulary."""

    def __init__(self):
        self.names = {}

    def nm(self, name):
        return self.names.setdefault(name, len(self.names))

    def member(self, e):
        from dask_expr._expr import Expr, Fused
        if isinstance(e, Fused):
            deps = [[self.nm(d._name), d.npartitions] for d in e.dependencies()]
            return ["fused", self.nm(e._name), e.npartitions, [self.member(x) for x in e.exprs], deps]
        # operand positions are taken from the member's own task (classes such as Index override _task and add literals)
        from dask.utils import apply
        deps = {d._name: d for d in e.dependencies()}
        t = e._task(0)
        # the model's plain_task gives every partition of a member the same call shape; members whose task depends on the
        # partition number (label indexing: a call at the ends of the slice, an alias inside) are outside it
        def shape(x):
            return (type(x).__name__, len(x) if isinstance(x, tuple) else 0, callable(x[0]) if isinstance(x, tuple) and x else False)
        for i in range(1, e.npartitions):
            if shape(e._task(i)) != shape(t):
                raise OutOfModel("%s: task shape depends on the partition number" % type(e).__name__)
        targs = list(t[2]) if (t and t[0] is apply) else list(t[1:])
        args = []
        for pos, a in enumerate(targs):
            if isinstance(a, tuple) and len(a) == 2 and isinstance(a[0], str) and a[0] in deps:
                d = deps[a[0]]
                args.append(["dep", self.nm(d._name), d.npartitions, d.ndim])
            else:
                args.append(["lit", pos])
        return ["plain", self.nm(e._name), e.npartitions, e.ndim, args]

    def key(self, k):
        if isinstance(k, tuple) and len(k) == 2 and isinstance(k[0], str) and isinstance(k[1], int):
            return ["part", self.nm(k[0]), k[1]]
        if self.is_place(k):
            return ["place", k[2]]
        if isinstance(k, str):
            return ["name", self.nm(k)]
        raise ValueError("unexpected key %r" % (k,))

    @staticmethod
    def is_place(k):
        """placeholder of the i-th external input of a fused group: (name of the fused node, "_dep", i)"""
        return isinstance(k, tuple) and len(k) == 3 and isinstance(k[0], str) and k[1] == "_dep" and isinstance(k[2], int)

    def is_key(self, x, graph):
        try:
            return x in graph
        except TypeError:
            return False

    def task(self, member_name, t, graph):
        from dask.utils import apply
        if self.is_key(t, graph) or isinstance(t, str) or self.is_place(t):
            return ["alias", self.key(t)]
        assert isinstance(t, tuple), t
        if t and t[0] is apply:
            args = list(t[2])
        else:
            args = list(t[1:])
        out = []
        for pos, a in enumerate(args):
            if self.is_key(a, graph) or (isinstance(a, tuple) and len(a) == 2 and isinstance(a[0], str) and a[0] in self.names and isinstance(a[1], int)):
                out.append(self.key(a))
            else:
                out.append(["lit", pos])
        return ["call", member_name, out]

    def real_task(self, fused, index):
        from dask_expr._expr import Fused
        t = fused._task(index)
        assert t[0] is Fused._execute_task or t[0] == Fused._execute_task
        graph, root = t[1], t[2]
        entries = []
        for k, v in graph.items():
            kk = self.key(k)
            if self.is_place(k):
                mn = 0
            elif isinstance(k, tuple):
                mn = self.nm(k[0])
            else:
                mn = self.nm(k)
            entries.append(sx([kk, self.task(mn, v, graph)]))
        return [sorted(entries), self.key(root), [self.key(k) for k in t[3:]]]


def fused_nodes(expr):
    from dask_expr._expr import Fused
    return [n for n in expr.walk() if isinstance(n, Fused)]


def check_fused(run, model, fused, tag, stats):
    ex = FusedExporter()
    try:
        mem = ex.member(fused)
    except OutOfModel as exn:
        stats["out_of_model"] = stats.get("out_of_model", 0) + 1
        run.count(("fused-out-of-model", str(exn)))
        return False
    self_n, group, deps = mem[1], mem[3], mem[4]
    reqs = ["(valid_group %d %s %s)" % (self_n, sx(group), sx(deps))]
    idxs = sorted(set([0, fused.npartitions - 1, fused.npartitions // 2]))
    real = []
    for i in idxs:
        reqs.append("(fused_task %d %s %s %d)" % (self_n, sx(group), sx(deps), i))
        real.append(ex.real_task(fused, i))
    ans = model.batch(reqs)
    stats["fused"] += 1
    nested = any(m[0] == "fused" for m in group)
    stats["nested"] += nested
    run.count(("fused", tag, fused._name), nontrivial=len(group) >= 2)
    if ans[0] != "(true true)":
        stats["invalid"] += 1
        run.broken_tie("valid_group rejects a real fused group (hypothesis of fused_task_eq not established by _fusion_pass)",
                       {"where": tag, "fused": str(fused), "verdict": ans[0], "group": sx(group)[:600]})
    for i, a, r in zip(idxs, ans[1:], real):
        exp = "(%s %s %s)" % ("(" + " ".join(r[0]) + ")", sx(r[1]), sx(r[2]))
        if a != exp:
            stats["mismatch"] += 1
            if stats["mismatch"] <= 3:
                run.broken_tie("T-LAYER Fused._task", {"where": tag, "index": i, "model": a[:700], "real": exp[:700]})
    return nested


def scenarios(rt):
    """Targeted DAG shapes: shared nodes, broadcast operands, mixed partition counts, nested groups, blockwise between non-blockwise stages."""
    import pandas as pd
    pa = pd.DataFrame({"x": range(12), "y": [i % 5 for i in range(12)]})
    pb = pd.DataFrame({"x": [1000 + i for i in range(12)], "y": [7 * i for i in range(12)]})
    out = []
    for npart in (1, 3, 4):
        a = rt.dx.from_pandas(pa, npartitions=npart)
        c = rt.dx.from_pandas(pb, npartitions=npart)
        inner = ((a + 1) * 2).optimize(fuse=True)
        out.append(("nested-second-input", c - inner, pb - (pa + 1) * 2))
        out.append(("nested-first-input", inner - c, (pa + 1) * 2 - pb))
        inner2 = (inner + c).optimize(fuse=True)
        out.append(("nested-twice", (a * 3) - inner2, pa * 3 - ((pa + 1) * 2 + pb)))
        out.append(("shared-node", (lambda t: t + t * t)(a + 1), (lambda t: t + t * t)(pa + 1)))
        out.append(("broadcast-scalar", (a.x + 1) * a.x.sum(), (pa.x + 1) * pa.x.sum()))
        out.append(("broadcast-frame-reduction", (a + 1) - a.sum(), (pa + 1) - pa.sum()))
        out.append(("two-consumers", ((a + 1).x + (a + 1).y), ((pa + 1).x + (pa + 1).y)))
        out.append(("blockwise-between-shuffles", (a.shuffle("y") + 1).x.sum(), (pa + 1).x.sum()))
        out.append(("filter-chain", (lambda t: t[t.x > 3][["y"]] * 2)(a + 1), (lambda t: t[t.x > 3][["y"]] * 2)(pa + 1)))
        out.append(("assign-chain", (a.assign(z=a.x + a.y) + 1)[["z", "x"]], (pa.assign(z=pa.x + pa.y) + 1)[["z", "x"]]))
        # stacked chains whose tops feed several consumers: several fusion passes substitute into each other's groups
        d2 = (a.x + 1).abs()
        d1 = (d2 * 3).abs()
        top = d1 * 2 + 1
        p2 = (pa.x + 1).abs(); p1 = (p2 * 3).abs(); ptop = p1 * 2 + 1
        out.append(("three-stacked-chains", rt.dx.concat([top, d1.repartition(npartitions=max(1, npart - 1)), d2.repartition(npartitions=1)]), pd.concat([ptop, p1, p2])))
        out.append(("three-stacked-chains-reductions", top.sum() + d1.max() + d2.min(), ptop.sum() + p1.max() + p2.min()))
        out.append(("stacked-chains-shared-by-shuffle", (top.to_frame("t").assign(u=d1, v=d2)).shuffle("v").t.sum() + d1.sum(), ptop.sum() + p1.sum()))
        # label indexing and string literals inside fused groups
        out.append(("loc-slice-in-group", a.loc[3:9] + 1, pa.loc[3:9] + 1))
        out.append(("loc-list-in-group", (a + 1).loc[[2, 7, 10]] * 2, (pa + 1).loc[[2, 7, 10]] * 2))
        out.append(("placeholder-like-literal", a.assign(s="_0").fillna("_1").rename(columns={"s": "t"}), pa.assign(s="_0").fillna("_1").rename(columns={"s": "t"})))
        single = rt.dx.from_pandas(pb.iloc[:1], npartitions=1)
        out.append(("nested-with-1-partition-dep", (a.x + 1).optimize(fuse=True) * 2 + single.x.sum(), (pa.x + 1) * 2 + pb.iloc[:1].x.sum()))
    return out


def run(run):
    import rt
    run.trusted = common.COMMON_TRUSTED + [
        "dask.core.get on the inner dict of a fused task is modelled by exec_fused (alias chasing + call of an uninterpreted per-member function); Blockwise._task of each member is modelled by plain_task; both compared structurally with the real dicts",
    ]
    run.rule = ("every Fused node of optimized plans (generated programs + targeted DAG shapes incl. nested groups, broadcast deps, shared nodes): real Fused._task(i) vs model fused_task, "
                "real group certified by valid_group (hypothesis of fused_task_eq); fuse=True vs fuse=False per partition / npartitions / divisions / meta on the real system; "
                "non-trivial = group of >= 2 members")
    run.proofs("PropC14.v")
    quick = run.tier == "quick"
    m = common.Model()
    import collections
    stats = collections.Counter()
    # targeted shapes
    for tag, coll, expect in scenarios(rt):
        fe = try_(lambda: coll.optimize(fuse=True).expr)
        ue = try_(lambda: coll.optimize(fuse=False).expr)
        if fe[0] == "raise" or ue[0] == "raise":
            if ue[0] == "ok":
                run.violation("fusing %s raises %s" % (tag, fe[1]), {"kind": "scenario", "name": tag})
            continue
        for f in fused_nodes(fe[1]):
            check_fused(run, m, f, tag, stats)
        pf, pu = try_(lambda: exec_expr(fe[1])), try_(lambda: exec_expr(ue[1]))
        run.count(("scenario", tag, fe[1].npartitions))
        if pu[0] == "ok":
            if pf[0] == "raise":
                run.violation("fused plan of %s fails: %s" % (tag, pf[1]), {"kind": "scenario", "name": tag})
                continue
            if len(pf[1]) != len(pu[1]) or fe[1].npartitions != ue[1].npartitions or tuple(fe[1].divisions) != tuple(ue[1].divisions):
                run.violation("fusion changes the partition structure of %s" % tag, {"kind": "scenario", "name": tag})
                continue
            for i, (x, y) in enumerate(zip(pf[1], pu[1])):
                if canon(x) != canon(y):
                    run.violation("fusion changes partition %d of %s: fused %s, unfused %s" % (i, tag, _short(canon(x)), _short(canon(y))),
                                  {"kind": "scenario", "name": tag, "partition": i})
                    break
            got = canon(concat_parts(pf[1]))
            exp = canon(expect)
            if got != exp and tag != "blockwise-between-shuffles":
                run.violation("fused %s differs from pandas: %s vs %s" % (tag, _short(got), _short(exp)), {"kind": "scenario", "name": tag})
    # fused nodes of generated programs
    import gen
    import e2e
    n = 120 if quick else 2500
    for idx in range(n):
        rng = random.Random(run.seed * 1000003 + 4242 + idx)
        tables = gen.make_tables(rng, nrows=9)
        g = gen.ProgGen(rng, profile=rng.choice(["l1", "l2"]), max_steps=rng.randint(2, 7))
        prog = g.generate({"t0": list(tables["t0"].columns)})
        src = e2e.build_sources({"t0": tables["t0"]}, {"t0": ("npartitions", rng.choice([1, 2, 3]))}, rt)
        r = try_(lambda: gen.run_program(prog, src, True)[prog["result"]].optimize(fuse=True).expr)
        if r[0] == "raise":
            continue
        for f in fused_nodes(r[1]):
            check_fused(run, m, f, "program:" + gen.describe(prog)[:200], stats)
    run.section("fused_tasks", **{k: int(v) for k, v in stats.items()})
    run.sample({"scenario": "c - optimize((a+1)*2)  (nested group with a second external input)"})
    progcheck.run_programs(run, {"C14"}, 150 if quick else 4000, profile="l1", own={"C14"}, with_steps=False)
    progcheck.run_programs(run, {"C14"}, 100 if quick else 3000, profile="l2", own={"C14"}, with_steps=False)
