"""C16 -- collections survive serialization to another process."""
import json
import os
import pickle
import subprocess
import tempfile

import common
from e2e import canon, try_, _short


LOADER = r'''
import sys, json, pickle
sys.path.insert(0, %r)
import rt
from e2e import canon
import pandas as pd
out = {}
blobs = pickle.load(open(%r, "rb"))
for key, blob in blobs.items():
    try:
        c = pickle.loads(blob)
        res = c.compute()
        out[key] = {"name": c.expr._name, "npartitions": c.npartitions, "divisions": repr(tuple(c.divisions)),
                    "meta": repr(type(c._meta).__name__) + repr(list(getattr(c._meta, "columns", [getattr(c._meta, "name", None)]))),
                    "result": repr(canon(res, False))}
    except Exception as ex:
        out[key] = {"error": type(ex).__name__ + ": " + str(ex)[:160]}
print("@@" + json.dumps(out))
'''


AMBIENT_LOADER = r'''
import sys, json, pickle
sys.path.insert(0, %r)
import rt
from c16_ambient import describe
out = {}
blobs = pickle.load(open(%r, "rb"))
for key, blob in blobs.items():
    try:
        out[key] = describe(pickle.loads(blob))
    except Exception as ex:
        out[key] = {"error": type(ex).__name__ + ": " + str(ex)[:160]}
print("@@" + json.dumps(out))
'''


def ambient_family(run, rt):
    """Queries planned, described and pickled inside a `dask.config.set(...)` context of the originating process
    (see c16_ambient.py), loaded by a fresh interpreter with the default configuration."""
    import shutil
    import time
    import dask
    import c16_ambient as A
    t0 = time.time()
    quick = run.tier == "quick"
    tmp = tempfile.mkdtemp(prefix="c16_amb_", dir=common.BUILD)
    try:
        T = A.tables(run.rng)
        pq = os.path.join(tmp, "facts.parquet")
        rt.dx.from_pandas(T["fact"][["k", "s", "v"]], npartitions=3).to_parquet(pq)
        cases = A.plan_cases(run.rng, quick, pq)
        blobs, local, origin = {}, {}, {}
        unbuildable, uncomputable = 0, []
        for case in cases:
            th = A.thunk_of(case, pq)
            with dask.config.set(case["config"]):
                c = try_(lambda: th(rt.dx, T))
                if c[0] == "raise":
                    unbuildable += 1
                    continue
                for fn, f in A.forms(rt.dx).items():
                    if fn not in case["forms"]:
                        continue
                    key = A.case_key(case, fn)
                    x = try_(lambda: f(c[1]))
                    if x[0] == "raise":
                        uncomputable.append(key)
                        continue
                    b = try_(lambda: pickle.dumps(x[1]))
                    d = try_(lambda: A.describe(x[1]))
                    if d[0] == "raise":
                        uncomputable.append(key)        # the originating process cannot compute it either: nothing to compare with
                        continue
                    origin[key] = (case, fn)
                    if b[0] == "raise":
                        run.count(("ambient", key))
                        run.violation("%s cannot be pickled: %s" % (key, b[1]), {"kind": "ambient-pickle", "case": case, "form": fn})
                        continue
                    blobs[key], local[key] = b[1], d[1]
        t_origin = time.time() - t0
        path = os.path.join(tmp, "blobs.pkl")
        pickle.dump(blobs, open(path, "wb"))
        env = dict(os.environ)
        env["PYTHONHASHSEED"] = "4242"
        env["PYTHONPATH"] = common.REPO
        for k in list(env):
            if k.startswith("DASK_"):       # the receiver has the default configuration
                del env[k]
        p = subprocess.run([common.PY, "-c", AMBIENT_LOADER % (os.path.join(common.VERIF, "harness"), path)], env=env,
                           stdout=subprocess.PIPE, stderr=subprocess.PIPE, text=True, timeout=3000)
        if p.returncode != 0:
            run.broken_tie("receiving interpreter failed (ambient family)", p.stderr[-1000:])
            return
        remote = json.loads([l for l in p.stdout.split("\n") if l.startswith("@@")][-1][2:])
    finally:
        shutil.rmtree(tmp, ignore_errors=True)
    bad = 0
    per_family = {}
    for key, loc in local.items():
        case, fn = origin[key]
        run.count(("ambient", key))
        per_family[case["family"]] = per_family.get(case["family"], 0) + 1
        rem = remote.get(key, {"error": "missing"})
        if "error" in rem:
            bad += 1
            run.violation("%s: planned under %s; loading / computing in a fresh process fails: %s" % (key, case["config"], rem["error"]),
                          {"kind": "ambient", "case": case, "form": fn, "what": "error"})
            continue
        for what in A.FIELDS:
            if what == "row order" and not A.ordered_is_defined(case):
                continue
            if loc[what] != rem[what]:
                bad += 1
                run.violation("%s: planned under %s; %s differs after the round trip: fresh process %s vs originating process %s"
                              % (key, case["config"], what, _short(rem[what]), _short(loc[what])),
                              {"kind": "ambient", "case": case, "form": fn, "what": what, "fresh": _short(rem[what]), "origin": _short(loc[what])})
                break
    run.section("ambient-config", cases=len(cases), objects=len(local), differing=bad, unbuildable=unbuildable, uncomputable_in_origin=uncomputable[:20], per_family=per_family,
                wall_s=round(time.time() - t0, 1), origin_s=round(t_origin, 1))


def _load_elsewhere(blobs, hashseed="777"):
    """{key: pickle bytes} -> {key: c16_ambient.describe(...) | {"error": ...}} as seen by a fresh interpreter (or the stderr tail when it died)."""
    import shutil
    tmp = tempfile.mkdtemp(prefix="c16_opt_", dir=common.BUILD)
    try:
        path = os.path.join(tmp, "blobs.pkl")
        pickle.dump(blobs, open(path, "wb"))
        env = dict(os.environ)
        env["PYTHONHASHSEED"] = hashseed
        env["PYTHONPATH"] = common.REPO
        p = subprocess.run([common.PY, "-c", AMBIENT_LOADER % (os.path.join(common.VERIF, "harness"), path)], env=env,
                           stdout=subprocess.PIPE, stderr=subprocess.PIPE, text=True, timeout=3000)
        if p.returncode != 0:
            return p.stderr[-1000:]
        return json.loads([l for l in p.stdout.split("\n") if l.startswith("@@")][-1][2:])
    finally:
        shutil.rmtree(tmp, ignore_errors=True)


def _options_diff(case, loc, rem):
    """None, or (what, fresh process, originating process)"""
    import c16_ambient as A
    if "error" in rem:
        return ("error", rem["error"], None)
    for what in A.FIELDS:
        if what == "row order" and not case["ordered"]:
            continue
        if loc[what] != rem[what]:
            return (what, rem[what], loc[what])
    return None


def replay(path):
    """Replays of the option-carrying-operators family (the other kinds are replayed by a run with the recorded seed)."""
    import random
    import rt
    import c16_ambient as A
    import c16_groupby as G
    with open(path) as f:
        d = json.load(f)
    rec = d.get("case") or {}
    if rec.get("kind") not in ("options", "options-pickle"):
        print("C16: replay by `VERIF_SEED=%s ./check C16 --tier %s`" % (d.get("seed"), d.get("tier")))
        return 2
    case, fn, history = rec["case"], rec["form"], rec["history"]
    T = G.tables(random.Random(case["tables"]))
    x = A.forms(rt.dx)[fn](G.build(rt.dx, T, case))
    if history == "fresh":
        blob = try_(lambda: pickle.dumps(x))
        loc = A.describe(x)
    else:
        loc = A.describe(x)
        try_(lambda: G.use(rt.dx, x))
        blob = try_(lambda: pickle.dumps(x))
    if blob[0] == "raise":
        print("C16 replay: cannot be pickled: %s" % blob[1])
        return 1
    remote = _load_elsewhere({"x": blob[1]})
    if isinstance(remote, str):
        print("C16 replay: receiving interpreter failed: %s" % remote)
        return 1
    diff = _options_diff(case, loc, remote["x"])
    if diff is None:
        print("C16 replay: %s agrees in both processes" % G.case_key(case, fn, history))
        return 0
    print("C16 replay: %s: %s: fresh process %s vs originating process %s" % (G.case_key(case, fn, history), diff[0], _short(diff[1]), _short(diff[2])))
    return 1


def options_family(run, rt):
    """Grouped aggregations (every GroupBy method x key kind x selection x sort / dropna / observed x split_every / split_out / ddof / ...)
    and other operators that carry option containers among their operands (see c16_groupby.py): pickled right after they were built and
    again after the originating process has used them, in every form, loaded by a fresh interpreter."""
    import random
    import time
    import c16_ambient as A
    import c16_groupby as G
    t0 = time.time()
    quick = run.tier == "quick"
    table_seed = run.rng.randrange(10 ** 6)
    T = G.tables(random.Random(table_seed))
    cases = G.plan_cases(run.rng, quick)
    for case in cases:
        case["tables"] = table_seed         # a case dict is sufficient to rebuild the query (see `replay`)
    forms = A.forms(rt.dx)
    blobs, local, origin = {}, {}, {}
    unbuildable, uncomputable, changed_by_use = [], [], []
    for case in cases:
        label = case.get("agg", case.get("op"))
        c = try_(lambda: G.build(rt.dx, T, case))
        if c[0] == "raise":
            unbuildable.append(label)
            continue
        for fn in case["forms"]:
            x = try_(lambda: forms[fn](c[1]))
            if x[0] == "raise":
                uncomputable.append(label + "|" + fn)
                continue
            fresh = try_(lambda: pickle.dumps(x[1]))            # before anything else looks at the object
            d = try_(lambda: A.describe(x[1]))
            if d[0] == "raise":
                uncomputable.append(label + "|" + fn)           # the originating process cannot compute it either: nothing to compare with
                continue
            try_(lambda: G.use(rt.dx, x[1]))
            used = try_(lambda: pickle.dumps(x[1]))             # after the session has looked at it, planned it and computed it
            for history, b in (("fresh", fresh), ("used", used)):
                key = G.case_key(case, fn, history)
                if b[0] == "raise":
                    run.count(("options", key))
                    run.violation("%s cannot be pickled: %s" % (key, b[1]), {"kind": "options-pickle", "case": case, "form": fn, "history": history})
                    continue
                if history == "used" and fresh[0] == "ok" and b[1] == fresh[1]:
                    continue                                    # byte-identical to the fresh pickle: the same case
                if history == "used":
                    changed_by_use.append(label + "|" + fn)
                origin[key] = (case, fn, history)
                blobs[key], local[key] = b[1], d[1]
    t_origin = time.time() - t0
    remote = _load_elsewhere(blobs)
    if isinstance(remote, str):
        run.broken_tie("receiving interpreter failed (options family)", remote)
        return
    bad = 0
    per_op = {}
    for key, loc in local.items():
        case, fn, history = origin[key]
        label = case.get("agg", case.get("op"))
        run.count(("options", key))
        per_op[label] = per_op.get(label, 0) + 1
        diff = _options_diff(case, loc, remote.get(key, {"error": "missing"}))
        if diff is None:
            continue
        bad += 1
        rec = {"kind": "options", "case": case, "form": fn, "history": history, "what": diff[0], "fresh": _short(diff[1]), "origin": _short(diff[2])}
        if diff[0] == "error":
            run.violation("%s: loading / computing in a fresh process fails: %s" % (key, diff[1]), rec)
        else:
            run.violation("%s: %s differs after the round trip (pickled %s): fresh process %s vs originating process %s"
                          % (key, diff[0], "right after it was built" if history == "fresh" else "after the originating process used it",
                             _short(diff[1]), _short(diff[2])), rec)
    run.section("option-carrying-operators", cases=len(cases), objects=len(local), differing=bad, unbuildable=sorted(set(unbuildable)),
                uncomputable_in_origin=sorted(set(uncomputable))[:20], pickle_changed_by_use=sorted(set(changed_by_use))[:20], per_operator=per_op,
                wall_s=round(time.time() - t0, 1), origin_s=round(t_origin, 1))


def run(run):
    import rt
    import catalogue
    run.trusted = common.COMMON_TRUSTED + [
        "pickle / cloudpickle and the process boundary are runtime behaviour: observed (fresh interpreter with empty caches), not modelled",
        "harness/gen_tables.py ast scan of global reads (which methods read which module-level mutable containers)",
    ]
    run.rule = ("every catalogue query x {as built, optimize(), optimize(fuse=False), lowered without optimization} pickled, loaded in a fresh interpreter (empty caches, different PYTHONHASHSEED): "
                "name, npartitions, divisions, schema and computed result compared with the originating process; non-trivial = every (query, form); "
                "plus the ambient-configuration family (c16_ambient.py): merges / joins (join kind x how x broadcast x partition counts), shuffles, set_index, sort_values, "
                "groupby.*, drop_duplicates, unique, value_counts and string readers planned, described and pickled INSIDE a dask.config.set(...) context "
                "(dataframe.shuffle.method, dataframe.convert-string) of the originating process and loaded by a fresh interpreter with the default configuration; "
                "plus the option-carrying-operators family (c16_groupby.py): every GroupBy method (count ... cov, corr, var, std, agg specs, median, nunique, head, apply, "
                "transform, cum*, get_group) x key kind (int, string, float with NaN, categorical, two keys, derived series) x frame / column list / single column x "
                "sort / dropna / observed x split_every / split_out / ddof / numeric_only / min_count / n x partition counts x missing values, and ~55 non-groupby operators "
                "with dict / list / user keyword operands (cov, corr, var, quantile, fillna, replace, rename, astype, map_partitions, rolling, ...), each pickled right after it "
                "was built AND after the originating process used it (schema, divisions, optimize, lower, compute), in the as-built, optimized and lowered form")
    run.proofs("PropC16.v")
    quick = run.tier == "quick"
    catalogue.write_parquet_dataset(rt.dx, os.path.join(common.BUILD, "cat_pq_c16"))
    cols = catalogue.build_all(rt.dx, order_seed=run.seed)
    blobs, local = {}, {}
    forms = {"built": lambda c: c, "optimized": lambda c: c.optimize(), "optimized-nofuse": lambda c: c.optimize(fuse=False),
             "lowered": lambda c: rt.dx.new_collection(c.expr.lower_completely())}
    # warm the process-wide caches of the originating process the way a session would: every sort / set_index query is planned once
    # (its divisions end up in divisions_lru) BEFORE the variants are pickled in their as-built form
    for nm, c in cols.items():
        if "set_index" in nm or "sort" in nm:
            try_(lambda: c.optimize().divisions)
    cols = catalogue.build_all(rt.dx, order_seed=run.seed + 1)     # built again, in another order, on the warm caches
    for nm, c in cols.items():
        for fn, f in forms.items():
            if quick and fn == "optimized-nofuse" and hash(nm) % 2:
                continue
            key = "%s|%s" % (nm, fn)
            x = try_(lambda: f(c))
            if x[0] == "raise":
                continue
            b = try_(lambda: pickle.dumps(x[1]))
            if b[0] == "raise":
                run.violation("%s cannot be pickled: %s" % (key, b[1]), {"kind": "pickle", "query": nm, "form": fn})
                continue
            r = try_(lambda: x[1].compute())
            if r[0] == "raise":
                continue
            blobs[key] = b[1]
            m = x[1]._meta
            local[key] = {"name": x[1].expr._name, "npartitions": x[1].npartitions, "divisions": repr(tuple(x[1].divisions)),
                          "meta": repr(type(m).__name__) + repr(list(getattr(m, "columns", [getattr(m, "name", None)]))),
                          "result": repr(canon(r[1], False))}
    tmp = tempfile.mkdtemp(prefix="c16_", dir=common.BUILD)
    try:
        path = os.path.join(tmp, "blobs.pkl")
        pickle.dump(blobs, open(path, "wb"))
        env = dict(os.environ)
        env["PYTHONHASHSEED"] = "4242"
        env["PYTHONPATH"] = common.REPO
        p = subprocess.run([common.PY, "-c", LOADER % (os.path.join(common.VERIF, "harness"), path)], env=env, stdout=subprocess.PIPE, stderr=subprocess.PIPE, text=True, timeout=3000)
        if p.returncode != 0:
            run.broken_tie("receiving interpreter failed", p.stderr[-1000:])
            return
        remote = json.loads([l for l in p.stdout.split("\n") if l.startswith("@@")][-1][2:])
    finally:
        import shutil
        shutil.rmtree(tmp, ignore_errors=True)
    bad = 0
    for key, loc in local.items():
        run.count(("roundtrip", key))
        rem = remote.get(key, {"error": "missing"})
        if "error" in rem:
            bad += 1
            run.violation("%s: loading / computing in a fresh process fails: %s" % (key, rem["error"]), {"kind": "roundtrip", "key": key})
            continue
        for what in ("name", "npartitions", "divisions", "meta", "result"):
            if "disk" in key and what == "result":
                pass
            if loc[what] != rem[what]:
                bad += 1
                run.violation("%s: %s differs after the round trip: %s vs %s" % (key, what, _short(rem[what]), _short(loc[what])), {"kind": "roundtrip", "key": key, "what": what})
                break
    run.section("roundtrip", objects=len(local), differing=bad, forms=list(forms))
    ambient_family(run, rt)
    options_family(run, rt)
    run.sample({"object": "set_index-a|optimized", "observed": local.get("set_index-a|optimized", {}).get("divisions")})
