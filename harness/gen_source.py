"""T-SRC: translate the bodies of small pure methods of dask-expr (the `_divisions` formulas) from the Python source under
$VERIF_REPO into Gallina definitions over coq/PySeq.v, written to coq/GeneratedSource.v on every run.
coq/SourceChecks.v then proves each generated definition equal to the hand-written model (Divisions.v) -- so the theorems
of PropC06/C11 are re-checked against what the source says now, not against a sample of its behaviour.

Fail-closed: any construct outside the supported fragment aborts the translation of that target; the target is then
emitted as a comment and its name is left undefined, so the equivalence lemma (and the check of the property) breaks.

Supported fragment (statements): return e | x = e | x = [] | x.append(e) | x += e | if c: ... [else: ...] |
  for v in S: x.append(e) | for v in S: x += e | docstrings.
(expressions): names bound by the target's environment (source text -> Coq variable), integer constants, + - on ints,
  + on sequences, comparisons, `is None` on sequence elements, not/and/or, s[i], s[a:b], len(s), tuple(s)/list(s), (a, b) tuples,
  (None,) * n, generator / list comprehensions over a sequence, range(n) or zip(s, t), all(...) / any(...),
  min / max of two integers, `.divisions` of a frame that is represented by its divisions, calls of other translated functions."""
import ast
import inspect
import os
import sys
import textwrap

OUT = os.environ.get("GEN_SOURCE_OUT") or os.path.join(os.path.dirname(os.path.dirname(os.path.abspath(__file__))), "coq", "GeneratedSource.v")

Z, B, L, LL, D, OZ = "Z", "bool", "list Z", "list (list Z)", "pydivs", "option Z"
SKIP = "<skip>"      # environment entry for an opaque sub-expression: `x = <it>` binds nothing, only attribute chains on x listed in the environment are used
ELT = {L: Z, LL: L}
DEFAULT = {Z: "0", L: "[]"}


class Unsupported(Exception):
    pass


class Tr:
    def __init__(self, env, ret, funcs):
        self.env = env          # source text -> (coq name, type)
        self.ret = ret
        self.funcs = funcs      # python function name -> (coq name, [arg types], ret type)

    # ---------------- expressions ----------------
    def e(self, n, loc):
        src = ast.unparse(n)
        if src in self.env:
            return self.env[src]
        if isinstance(n, ast.Name):
            if n.id in loc:
                return loc[n.id]
            raise Unsupported("unbound name %s" % n.id)
        if isinstance(n, ast.Constant):
            if isinstance(n.value, bool):
                return ("true" if n.value else "false", B)
            if isinstance(n.value, int):
                return ("(%d)" % n.value, Z)
            raise Unsupported("constant %r" % (n.value,))
        if isinstance(n, ast.UnaryOp) and isinstance(n.op, ast.USub):
            a, t = self.e(n.operand, loc)
            self.want(t, Z, n)
            return ("(- %s)" % a, Z)
        if isinstance(n, ast.UnaryOp) and isinstance(n.op, ast.Not):
            a, t = self.e(n.operand, loc)
            self.want(t, B, n)
            return ("(negb %s)" % a, B)
        if isinstance(n, ast.BoolOp):
            parts = [self.e(v, loc) for v in n.values]
            for _, t in parts:
                self.want(t, B, n)
            op = "&&" if isinstance(n.op, ast.And) else "||"
            return ("(" + (" %s " % op).join(p for p, _ in parts) + ")", B)
        if isinstance(n, ast.BinOp):
            if isinstance(n.op, ast.Mult) and ast.unparse(n.left) == "(None,)":
                k, t = self.e(n.right, loc)
                self.want(t, Z, n)
                return ("(Unknown %s)" % k, D)
            a, ta = self.e(n.left, loc)
            b, tb = self.e(n.right, loc)
            if isinstance(n.op, ast.Add) and ta == Z and tb == Z:
                return ("(%s + %s)" % (a, b), Z)
            if isinstance(n.op, ast.Sub) and ta == Z and tb == Z:
                return ("(%s - %s)" % (a, b), Z)
            if isinstance(n.op, ast.Add) and ta == tb and ta in (L, LL):
                return ("(%s ++ %s)" % (a, b), ta)
            raise Unsupported("binary operator in %s" % src)
        if isinstance(n, ast.Compare) and len(n.ops) == 1:
            a, ta = self.e(n.left, loc)
            if isinstance(n.ops[0], ast.Is) and ast.unparse(n.comparators[0]) == "None":
                self.want(ta, Z, n)
                return ("(py_is_none_Z %s)" % a, B)
            b, tb = self.e(n.comparators[0], loc)
            self.want(ta, Z, n)
            self.want(tb, Z, n)
            ops = {ast.Lt: "(%s <? %s)", ast.LtE: "(%s <=? %s)", ast.Gt: "(%s >? %s)", ast.GtE: "(%s >=? %s)", ast.Eq: "(%s =? %s)"}
            for k, f in ops.items():
                if isinstance(n.ops[0], k):
                    return (f % (a, b), B)
            raise Unsupported("comparison in %s" % src)
        if isinstance(n, ast.Subscript):
            v, tv = self.e(n.value, loc)
            if tv not in ELT:
                raise Unsupported("subscript of a non-sequence in %s" % src)
            if isinstance(n.slice, ast.Slice):
                if n.slice.step is not None:
                    raise Unsupported("slice step")
                lo = self.optz(n.slice.lower, loc)
                hi = self.optz(n.slice.upper, loc)
                return ("(py_slice %s %s %s)" % (v, lo, hi), tv)
            i, ti = self.e(n.slice, loc)
            self.want(ti, Z, n)
            return ("(py_index %s %s %s)" % (DEFAULT[ELT[tv]], v, i), ELT[tv])
        if isinstance(n, ast.Attribute) and n.attr == "divisions":
            v, tv = self.e(n.value, loc)
            if tv == L:
                return (v, L)          # a frame is represented by its divisions
            raise Unsupported("attribute .divisions of %s" % tv)
        if isinstance(n, (ast.Tuple, ast.List)):
            parts = [self.e(x, loc) for x in n.elts]
            for _, t in parts:
                self.want(t, Z, n)
            return ("[" + "; ".join(p for p, _ in parts) + "]", L)
        if isinstance(n, (ast.GeneratorExp, ast.ListComp)):
            return self.comp(n, loc, "map")
        if isinstance(n, ast.Call) and isinstance(n.func, ast.Name) and not n.keywords:
            f = n.func.id
            if f == "len" and len(n.args) == 1:
                a, t = self.e(n.args[0], loc)
                if t not in ELT:
                    raise Unsupported("len of %s" % t)
                return ("(py_len %s)" % a, Z)
            if f in ("tuple", "list") and len(n.args) == 1:
                a, t = self.e(n.args[0], loc)
                if t not in ELT:
                    raise Unsupported("%s() of %s" % (f, t))
                return (a, t)
            if f in ("all", "any") and len(n.args) == 1 and isinstance(n.args[0], ast.GeneratorExp):
                return self.comp(n.args[0], loc, "forallb" if f == "all" else "existsb")
            if f in ("min", "max") and len(n.args) == 2:
                a, ta = self.e(n.args[0], loc)
                b, tb = self.e(n.args[1], loc)
                self.want(ta, Z, n)
                self.want(tb, Z, n)
                return ("(Z.%s %s %s)" % (f, a, b), Z)
            if f == "range" and len(n.args) == 1:
                a, t = self.e(n.args[0], loc)
                self.want(t, Z, n)
                return ("(py_range %s)" % a, L)
            if f in self.funcs:
                cn, ats, rt = self.funcs[f]
                if len(ats) != len(n.args):
                    raise Unsupported("arity of %s" % f)
                args = []
                for a, at in zip(n.args, ats):
                    c, t = self.e(a, loc)
                    self.want(t, at, n)
                    args.append(c)
                return ("(%s %s)" % (cn, " ".join(args)), rt)
        raise Unsupported("expression %s" % src)

    def optz(self, n, loc):
        if n is None:
            return "None"
        a, t = self.e(n, loc)
        self.want(t, Z, n)
        return "(Some %s)" % a

    def want(self, t, exp, n):
        if t != exp:
            raise Unsupported("type %s where %s is expected in %s" % (t, exp, ast.unparse(n)))

    def binder(self, target, it, loc):
        """(coq pattern, coq iterable, new locals) for `for target in it`."""
        if isinstance(it, ast.Call) and isinstance(it.func, ast.Name) and it.func.id == "zip" and len(it.args) == 2 and isinstance(target, ast.Tuple) and len(target.elts) == 2:
            a, ta = self.e(it.args[0], loc)
            b, tb = self.e(it.args[1], loc)
            if ta not in ELT or tb not in ELT:
                raise Unsupported("zip of non-sequences")
            x, y = target.elts
            if not (isinstance(x, ast.Name) and isinstance(y, ast.Name)):
                raise Unsupported("zip target")
            new = dict(loc)
            new[x.id] = ("py_" + x.id, ELT[ta])
            new[y.id] = ("py_" + y.id, ELT[tb])
            return ("'(py_%s, py_%s)" % (x.id, y.id), "(combine %s %s)" % (a, b), new)
        if not isinstance(target, ast.Name):
            raise Unsupported("loop target %s" % ast.unparse(target))
        s, ts = self.e(it, loc)
        if ts not in ELT:
            raise Unsupported("iteration over %s" % ts)
        new = dict(loc)
        new[target.id] = ("py_" + target.id, ELT[ts])
        return ("py_" + target.id, s, new)

    def comp(self, n, loc, how):
        if len(n.generators) != 1 or n.generators[0].ifs or n.generators[0].is_async:
            raise Unsupported("comprehension shape")
        g = n.generators[0]
        pat, it, new = self.binder(g.target, g.iter, loc)
        body, tb = self.e(n.elt, new)
        if how == "map":
            if tb == Z:
                return ("(map (fun %s => %s) %s)" % (pat, body, it), L)
            if tb == L:
                return ("(map (fun %s => %s) %s)" % (pat, body, it), LL)
            raise Unsupported("comprehension element type %s" % tb)
        self.want(tb, B, n)
        return ("(%s (fun %s => %s) %s)" % (how, pat, body, it), B)

    # ---------------- statements ----------------
    def ret_of(self, c, t):
        if self.ret == D:
            if t == D:
                return c
            if t == L:
                return "(Known %s)" % c
        if self.ret == OZ and t == Z:
            return "(Some %s)" % c
        if t == self.ret:
            return c
        raise Unsupported("return of type %s in a function of type %s" % (t, self.ret))

    def block(self, stmts, loc):
        if not stmts:
            if self.ret == OZ:
                return "None"          # falling off the end returns None
            raise Unsupported("control reaches the end without return")
        s, rest = stmts[0], stmts[1:]
        if isinstance(s, ast.Expr) and isinstance(s.value, ast.Constant) and isinstance(s.value.value, str):
            return self.block(rest, loc)
        if isinstance(s, ast.Return):
            if s.value is None:
                raise Unsupported("bare return")
            c, t = self.e(s.value, loc)
            return self.ret_of(c, t)
        if isinstance(s, ast.Assign) and len(s.targets) == 1 and isinstance(s.targets[0], ast.Name):
            nm = s.targets[0].id
            if self.env.get(ast.unparse(s.value), (None, None))[1] == SKIP:
                return self.block(rest, loc)      # opaque object: only its listed attribute chains are used
            if isinstance(s.value, ast.List) and not s.value.elts:
                c, t = "[]", L
            else:
                c, t = self.e(s.value, loc)
            new = dict(loc)
            new[nm] = ("py_" + nm, t)
            return "(let py_%s : %s := %s in\n   %s)" % (nm, t, c, self.block(rest, new))
        if isinstance(s, ast.AugAssign) and isinstance(s.op, ast.Add) and isinstance(s.target, ast.Name):
            nm = s.target.id
            if nm not in loc:
                raise Unsupported("+= on unbound %s" % nm)
            cur, tc = loc[nm]
            c, t = self.e(s.value, loc)
            self.want(t, tc, s)
            return "(let py_%s : %s := (%s ++ %s) in\n   %s)" % (nm, tc, cur, c, self.block(rest, loc))
        ap = self.append_of(s)
        if ap:
            nm, val = ap
            if nm not in loc or loc[nm][1] != L:
                raise Unsupported("append to %s" % nm)
            c, t = self.e(val, loc)
            self.want(t, Z, s)
            return "(let py_%s : %s := (%s ++ [%s]) in\n   %s)" % (nm, L, loc[nm][0], c, self.block(rest, loc))
        if isinstance(s, ast.For) and not s.orelse and len(s.body) == 1:
            pat, it, new = self.binder(s.target, s.iter, loc)
            b = s.body[0]
            ap = self.append_of(b)
            leak = ""
            if isinstance(s.target, ast.Name):
                # Python leaves the loop variable bound to the last element
                tv = new[s.target.id][1]
                leak = "let py_%s : %s := last %s %s in\n   " % (s.target.id, tv, it, DEFAULT[tv])
            if ap:
                nm, val = ap
                if nm not in loc or loc[nm][1] != L:
                    raise Unsupported("append to %s" % nm)
                c, t = self.e(val, new)
                self.want(t, Z, b)
                after = dict(loc)
                if leak:
                    after[s.target.id] = new[s.target.id]
                return "(let py_%s : %s := (%s ++ map (fun %s => %s) %s) in\n   %s%s)" % (nm, L, loc[nm][0], pat, c, it, leak, self.block(rest, after))
            if isinstance(b, ast.AugAssign) and isinstance(b.op, ast.Add) and isinstance(b.target, ast.Name):
                nm = b.target.id
                if nm not in loc or loc[nm][1] != L:
                    raise Unsupported("+= on %s" % nm)
                c, t = self.e(b.value, new)
                self.want(t, L, b)
                after = dict(loc)
                if leak:
                    after[s.target.id] = new[s.target.id]
                return "(let py_%s : %s := (%s ++ flat_map (fun %s => %s) %s) in\n   %s%s)" % (nm, L, loc[nm][0], pat, c, it, leak, self.block(rest, after))
            raise Unsupported("loop body %s" % ast.unparse(b))
        if isinstance(s, ast.If):
            c, t = self.e(s.test, loc)
            self.want(t, B, s)
            both_append = (len(s.body) == 1 and len(s.orelse) == 1 and self.append_of(s.body[0]) and self.append_of(s.orelse[0])
                           and self.append_of(s.body[0])[0] == self.append_of(s.orelse[0])[0])
            if both_append:
                nm = self.append_of(s.body[0])[0]
                if nm not in loc or loc[nm][1] != L:
                    raise Unsupported("append to %s" % nm)
                if ast.unparse(self.append_of(s.body[0])[1]) == "None" and c.startswith("(py_is_none_Z "):
                    # `if x is None: acc.append(None)`: unreachable for known (integer) values; the branch is kept as the test's value
                    v2, t2 = self.e(self.append_of(s.orelse[0])[1], loc)
                    self.want(t2, Z, s)
                    return "(let py_%s : %s := (%s ++ [if %s then 0 else %s]) in\n   %s)" % (nm, L, loc[nm][0], c, v2, self.block(rest, loc))
                v1, t1 = self.e(self.append_of(s.body[0])[1], loc)
                v2, t2 = self.e(self.append_of(s.orelse[0])[1], loc)
                self.want(t1, Z, s)
                self.want(t2, Z, s)
                return "(let py_%s : %s := (%s ++ [if %s then %s else %s]) in\n   %s)" % (nm, L, loc[nm][0], c, v1, v2, self.block(rest, loc))
            if not self.returns(s.body):
                raise Unsupported("if-branch without return: %s" % ast.unparse(s.test))
            then = self.block(s.body, loc)
            els = self.block((s.orelse or []) + rest, loc)
            return "(if %s\n   then %s\n   else %s)" % (c, then, els)
        raise Unsupported("statement %s" % ast.unparse(s).split("\n")[0])

    @staticmethod
    def append_of(s):
        if (isinstance(s, ast.Expr) and isinstance(s.value, ast.Call) and isinstance(s.value.func, ast.Attribute) and s.value.func.attr == "append"
                and isinstance(s.value.func.value, ast.Name) and len(s.value.args) == 1 and not s.value.keywords):
            return s.value.func.value.id, s.value.args[0]
        return None

    def returns(self, stmts):
        last = stmts[-1]
        if isinstance(last, ast.Return):
            return True
        if isinstance(last, ast.If) and last.orelse:
            return self.returns(last.body) and self.returns(last.orelse)
        return False


def _fn_node(obj):
    if isinstance(obj, property):
        obj = obj.fget
    if hasattr(obj, "func"):         # functools.cached_property
        obj = obj.func
    src = textwrap.dedent(inspect.getsource(obj))
    tree = ast.parse(src)
    fn = tree.body[0]
    if not isinstance(fn, ast.FunctionDef):
        raise Unsupported("not a function")
    return fn


def _branch(fn, test_src):
    """the body of the `if <test_src>:` statement at the top level of fn"""
    pre = []
    for s in fn.body:
        if isinstance(s, ast.If) and ast.unparse(s.test) == test_src:
            return pre + s.body
        if isinstance(s, ast.Assign):
            pre.append(s)          # plain bindings in front of the branch (e.g. `dfs = self._frames`)
    raise Unsupported("no top-level `if %s:` in %s" % (test_src, fn.name))


def targets():
    import dask_expr._expr as E
    import dask_expr._repartition as R
    import dask_expr._concat as C
    import dask_expr.io.io as IO
    g = inspect.getattr_static
    return [
        # coq name, function object, parameters [(coq var, type)], environment {source text: coq var}, return type, optional branch selector
        ("src_is_strictly_increasing", E._is_strictly_increasing, [("partitions", L)], {}, B, None),
        ("src_nested_selection", E._nested_selection, [("outer", Z), ("inner", Z)], {}, OZ, None),
        ("src_Tail_divisions", g(E.Tail, "_divisions"), [("divs", L)], {"self.frame.divisions": "divs"}, L, None),
        ("src_BlockwiseHead_divisions", g(E.BlockwiseHead, "_divisions"), [("divs", L), ("parts", L)],
         {"self.frame.divisions": "divs", "self._partitions": "parts"}, L, None),
        ("src_Head_divisions", g(E.Head, "_divisions"), [("divs", L), ("k", Z)], {"self.frame.divisions": "divs", "self.operand('npartitions')": "k"}, L, None),
        ("src_RepartitionToFewer_divisions", g(R.RepartitionToFewer, "_divisions"), [("divs", L), ("bs", L)],
         {"self.frame.divisions": "divs", "self._partitions_boundaries": "bs"}, L, None),
        ("src_Partitions_divisions", g(E.Partitions, "_divisions"), [("divs", L), ("sel", L)], {"self.frame.divisions": "divs", "self.partitions": "sel"}, D, None),
        ("src_PartitionsFiltered_divisions", g(E.PartitionsFiltered, "divisions"), [("full", L), ("filtered", B), ("sel", L)],
         {"super().divisions": "full", "self._filtered": "filtered", "self._partitions": "sel"}, D, None),
        ("src_FusedIO_divisions", g(IO.FusedIO, "_divisions"), [("divs", L), ("seldivs", L), ("buckets", LL)],
         {"self.operand('_expr')": SKIP, "expr._divisions()": "divs", "expr.divisions": "seldivs", "self._fusion_buckets": "buckets"}, D, None),
        ("src_Concat_monotonic_divisions", g(C.Concat, "_monotonic_divisions"), [("dfs", LL), ("known", B)],
         {"self._frames": "dfs", "self._all_known_divisions": "known"}, B, None),
        ("src_Concat_divisions_monotonic", g(C.Concat, "_divisions"), [("dfs", LL)], {"self._frames": "dfs"}, L, "self._monotonic_divisions"),
    ]


def main():
    import dask_expr  # noqa
    lines = ["(* GENERATED by harness/gen_source.py from the source tree -- do not edit. *)",
             "From Coq Require Import ZArith List Bool.", "From DX Require Import PySeq.", "Import ListNotations.", "Open Scope Z_scope.", ""]
    funcs = {}
    ok = 0
    for name, obj, params, env, ret, branch in targets():
        ptypes = dict(params)
        try:
            fn = _fn_node(obj)
            tr = Tr({k: ((v, ptypes[v]) if v != SKIP else (SKIP, SKIP)) for k, v in env.items()}, ret, dict(funcs))
            loc = {}
            if not env:      # a module-level function: its own parameters are the variables
                argn = [a.arg for a in fn.args.args]
                if len(argn) != len(params):
                    raise Unsupported("parameter list of %s changed" % fn.name)
                for a, (cv, t) in zip(argn, params):
                    loc[a] = (cv, t)
            body = fn.body if branch is None else _branch(fn, branch)
            term = tr.block(body, loc)
            lines.append("(* %s%s *)" % (fn.name, "" if branch is None else "  [branch `if %s:`]" % branch))
            lines.append("Definition %s %s : %s :=\n  %s.\n" % (name, " ".join("(%s : %s)" % (v, t) for v, t in params), ret, term))
            if not env:
                funcs[fn.name] = (name, [t for _, t in params], ret)
            ok += 1
        except Unsupported as ex:
            lines.append("(* %s: NOT TRANSLATED -- %s *)\n" % (name, str(ex).replace("*)", "* )")))
        except (OSError, TypeError, AttributeError, IndexError, SyntaxError) as ex:
            lines.append("(* %s: NOT TRANSLATED -- %s: %s *)\n" % (name, type(ex).__name__, str(ex).replace("*)", "* )")))
    new = "\n".join(lines) + "\n"
    old = open(OUT).read() if os.path.exists(OUT) else None
    if new != old:
        with open(OUT, "w") as f:
            f.write(new)
    print("source translation: %d of %d targets translated" % (ok, len(targets())))


if __name__ == "__main__":
    main()
