"""T-LAYER for the predicate algebra: real rewrite_filters vs the proved model (Pred.v), exhaustively
over all And/Or trees up to a size bound."""
import itertools

from common import sx


def trees(n_leaves, atoms):
    """All binary And/Or trees with exactly n_leaves leaves over the given atoms (as nested tuples)."""
    if n_leaves == 1:
        for a in atoms:
            yield ("a", a)
        return
    for k in range(1, n_leaves):
        for l in trees(k, atoms):
            for r in trees(n_leaves - k, atoms):
                yield ("and", l, r)
                yield ("or", l, r)


def to_sx(t):
    if t[0] == "a":
        return "(a %d)" % t[1]
    return "(%s %s %s)" % (t[0], to_sx(t[1]), to_sx(t[2]))


def random_tree(rng, n_leaves, atoms):
    if n_leaves == 1:
        return ("a", rng.choice(atoms))
    k = rng.randint(1, n_leaves - 1)
    return (rng.choice(["and", "or", "or"]), random_tree(rng, k, atoms), random_tree(rng, n_leaves - k, atoms))


def factoring_tree(rng, atoms):
    """Trees where OR-factoring actually fires: (c & x1) | (c & x2) | ... with variations."""
    common = rng.sample(atoms, rng.randint(1, 2))
    nclauses = rng.randint(2, 4)
    clauses = []
    for i in range(nclauses):
        extra = [a for a in rng.sample(atoms, rng.randint(0, 2))]
        parts = common + extra if rng.random() < 0.85 else extra or common
        rng.shuffle(parts)
        t = ("a", parts[0])
        for p in parts[1:]:
            t = ("and", t, ("a", p)) if rng.random() < 0.7 else ("and", ("a", p), t)
        clauses.append(t)
    t = clauses[0]
    for c in clauses[1:]:
        t = ("or", t, c) if rng.random() < 0.7 else ("or", c, t)
    return t


def sweep(run, model, quick):
    import rt
    import pandas as pd
    from dask_expr._expr import And, Or, rewrite_filters
    pdf = pd.DataFrame({"a": range(8), "b": range(8)})
    df = rt.dx.from_pandas(pdf, npartitions=2)
    natoms = 4
    atom_exprs = [(df.a > i).expr for i in range(natoms)]
    name2atom = {e._name: i for i, e in enumerate(atom_exprs)}

    def build(t):
        if t[0] == "a":
            return atom_exprs[t[1]]
        l, r = build(t[1]), build(t[2])
        return And(l, r) if t[0] == "and" else Or(l, r)

    def back(e):
        if e._name in name2atom:
            return ("a", name2atom[e._name])
        if isinstance(e, And):
            return ("and", back(e.left), back(e.right))
        if isinstance(e, Or):
            return ("or", back(e.left), back(e.right))
        raise ValueError("rewrite_filters produced a node that is neither And/Or nor one of the atoms: %r" % e)

    cases = []
    maxl = 4 if quick else 5
    for n in range(1, maxl + 1):
        cases += list(trees(n, list(range(natoms if n <= 4 else 3))))
    for n in (5, 6, 7):
        for _ in range(600 if quick else 4000):
            cases.append(random_tree(run.rng, n, list(range(natoms))))
    for _ in range(1500 if quick else 10000):
        cases.append(factoring_tree(run.rng, list(range(natoms))))
    reqs, reals = [], []
    for t in cases:
        reqs.append("(rewrite_filters %s)" % to_sx(t))
        reals.append(to_sx(back(rewrite_filters(build(t)))))
    ans = model.batch(reqs)
    bad, fired = 0, 0
    first_bad = None
    for t, m, r in zip(cases, ans, reals):
        changed = r != to_sx(t)
        fired += changed
        run.count(("rewrite_filters", t), nontrivial=changed)
        if m != r:
            bad += 1
            if first_bad is None:
                first_bad = t
            if bad <= 3:
                run.broken_tie("T-LAYER rewrite_filters", {"tree": to_sx(t), "model": m, "real": r})
    run.section("rewrite_filters", trees=len(cases), exhaustive_up_to_leaves=maxl, factoring_fired=fired, disagreements=bad)
    run.sample({"rewrite_filters": {"in": "(or (and (a 0) (a 1)) (and (a 0) (a 2)))", "out": model.batch(["(rewrite_filters (or (and (a 0) (a 1)) (and (a 0) (a 2))))"])[0]}})
    if bad:
        # failing-input search: the real rewriting must keep the truth table (3-valued) of the predicate
        search_truth_tables(run, cases, reals, natoms)
    return bad


def k3_eval(t, v):
    if t[0] == "a":
        return v[t[1]]
    a, b = k3_eval(t[1], v), k3_eval(t[2], v)
    if t[0] == "and":
        return 0 if (a == 0 or b == 0) else (1 if (a == 1 and b == 1) else None)
    return 1 if (a == 1 or b == 1) else (0 if (a == 0 and b == 0) else None)


def parse_sx_tree(s):
    from common import parse_sx
    def conv(x):
        if x[0] == "a":
            return ("a", x[1])
        return (x[0], conv(x[1]), conv(x[2]))
    return conv(parse_sx(s))


def search_truth_tables(run, cases, reals, natoms):
    for t, r in zip(cases, reals):
        rt_ = parse_sx_tree(r)
        for v in itertools.product([0, 1, None], repeat=natoms):
            if (k3_eval(t, v) == 1) != (k3_eval(rt_, v) == 1):
                run.violation("rewrite_filters changes which rows are kept: %s -> %s under atom values %s" % (to_sx(t), r, v),
                              {"kind": "rewrite_filters", "tree": to_sx(t), "result": r, "valuation": list(v)})
                return
