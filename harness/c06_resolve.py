"""C06 family `resolve_layer`: divisions that dask-expr COMPUTES from the data of an already ordered frame.

`set_index(col, sorted=True)` (no divisions given) and `compute_current_divisions(set_divisions=True)` read the
(min, max, len) of the key in every partition, report `mins + (last max,)` as divisions and - because a label may
straddle a partition border - move rows between neighbouring partitions (ResolveOverlappingDivisions, with empty
partitions dropped).  The user asserts the ORDER only; the divisions are the library's own claim, so the property
demands that every computed partition i holds only index values of [divisions[i], divisions[i+1]) (last one closed),
that the number of computed partitions is the reported npartitions, and that len() equals the computed row count.

The family enumerates the partition LAYOUTS of ordered keys (which label each partition starts / ends with: no
straddling label, a label straddling one border, a label running over 1..k whole partitions, single-row partitions,
runs of duplicates, empty partitions anywhere) x key dtypes x entry points x plan stages x consumers that derive their
own divisions from the computed ones.  The oracle is the really computed partitions (graph of the logical plan, of
the optimized plans and of to_delayed()), compared with the reported tuple by `truthful` below (the Python twin of
Divisions.v `truthfulb`, which is used as a second opinion on integer keys).
"""
import itertools

import common
from e2e import exec_expr, node_truth, try_


# ------------------------------------------------------------------------------------------------ labels and pieces
def _labels(dtype):
    import numpy as np
    import pandas as pd
    if dtype == "int":
        return [-4, 0, 1, 2, 5, 6, 9, 12], "int64"
    if dtype == "uint8":
        return [0, 1, 2, 3, 7, 200, 254, 255], "uint8"
    if dtype == "float":
        return [-2.5, -0.0, 0.25, 1.0, 1.5, 3.0, 1e9, float(np.inf)], "float64"
    if dtype == "str":
        return ["", "A", "a", "aa", "ab", "b", "ba", "c"], "object"
    if dtype == "datetime":
        return list(pd.Timestamp("2021-03-01") + pd.to_timedelta([0, 1, 2, 3, 30, 31, 400, 401], unit="h")), "datetime64[ns]"
    if dtype == "Int64":
        return [-4, 0, 1, 2, 5, 6, 9, 12], "Int64"
    if dtype == "timedelta":
        return list(pd.to_timedelta([0, 1, 2, 3, 30, 31, 400, 401], unit="s")), "timedelta64[ns]"
    raise ValueError(dtype)


NRANKS = 8


class _KeyPieces:
    """Partition i of an ordered source: key column `k` holding the labels of the ranks layout[i] (possibly none),
    a unique row id `v` and a payload `w` with missing values.  indexed=True: `k` is the (unsorted-claim) index."""

    def __init__(self, layout, dtype, indexed=False):
        self.layout = tuple(tuple(p) for p in layout)
        self.dtype = dtype
        self.indexed = indexed

    def __call__(self, i):
        import pandas as pd
        labels, dt = _labels(self.dtype)
        ranks = self.layout[i]
        base = sum(len(p) for p in self.layout[:i])
        vs = list(range(base, base + len(ranks)))
        df = pd.DataFrame({"k": pd.Series([labels[r] for r in ranks], dtype=dt),
                           "v": pd.Series(vs, dtype="int64"),
                           "w": pd.Series([None if v % 3 == 1 else v / 2 for v in vs], dtype="float64")})
        return df.set_index("k") if self.indexed else df

    def meta(self):
        return _KeyPieces(((),), self.dtype, self.indexed)(0)

    def __dask_tokenize__(self):
        return ("c06-keypieces", self.layout, self.dtype, self.indexed)


def _expand(rng, pairs, empties=False, fat=False):
    """(first rank, last rank) of each partition -> the rows of each partition."""
    out = []
    for lo, hi in pairs:
        if lo == hi:
            rows = [lo] * rng.choice([1, 1, 2, 3] if fat else [1, 2])
        else:
            rows = [lo] * rng.choice([1, 1, 2]) + [r for r in range(lo + 1, hi) if (fat and rng.random() < 0.5)] + [hi] * rng.choice([1, 1, 2])
        out.append(rows)
    if empties:
        for _ in range(rng.choice([1, 1, 2])):
            out.insert(rng.randrange(len(out) + 1), [])
    return out


def _chains(nparts, nranks):
    """every ordered layout of nparts partitions over nranks labels, as (first, last) pairs."""
    for c in itertools.combinations_with_replacement(range(nranks), 2 * nparts):
        yield [(c[2 * i], c[2 * i + 1]) for i in range(nparts)]


def _random_pairs(rng, nparts):
    """ordered layouts biased to the interesting region: touching neighbours and single-label partitions."""
    v, out = rng.randint(0, 1), []
    for _ in range(nparts):
        hi = min(NRANKS - 1, v + rng.choice([0, 0, 0, 1, 1, 2]))
        out.append((v, hi))
        v = min(NRANKS - 1, hi + rng.choice([0, 0, 0, 1, 1, 2]))
    return out


# ------------------------------------------------------------------------------------------------------- the oracle
def truthful(divs, parts, nrep):
    """None when the reported (divs, nrep) are truthful for the computed partitions, else what is wrong."""
    import pandas as pd
    if nrep != len(parts):
        return "reports npartitions=%s but computes %d partitions" % (nrep, len(parts))
    divs = tuple(divs)
    if len(divs) != len(parts) + 1:
        return "reports %d divisions for %d partitions" % (len(divs), len(parts))
    if all(d is None for d in divs):
        return None                                   # unknown divisions: no claim
    if any(d is None or d != d for d in divs):
        return "reports partly unknown divisions %s" % (divs,)
    if any(a > b for a, b in zip(divs[:-1], divs[1:])):
        return "reports unsorted divisions %s" % (divs,)
    for i, p in enumerate(parts):
        idx = p if isinstance(p, pd.Index) else p.index
        last = i == len(parts) - 1
        for val in idx:
            if val != val:
                continue
            if val < divs[i] or val > divs[i + 1] or (val == divs[i + 1] and not last):
                return "reports divisions %s, computed partition %d holds the index value %r outside of [%r, %r%s (computed partitions hold %s)" % (
                    _show(divs), i, _s(val), _s(divs[i]), _s(divs[i + 1]), "]" if last else ")", [[_s(x) for x in (q if isinstance(q, pd.Index) else q.index)] for q in parts])
    return None


def _s(v):
    return v if isinstance(v, (int, float, str)) else str(v)


def _show(divs):
    return tuple(_s(d) for d in divs)


# ------------------------------------------------------------------------------------------------------ entry points
def _entries(rt):
    import pandas as pd

    def src(layout, dtype, indexed=False):
        pc = _KeyPieces(layout, dtype, indexed)
        return rt.dx.from_map(pc, list(range(len(layout))), meta=pc.meta())

    def from_pandas(layout, dtype):
        # the same rows through from_pandas(sort=False): only for layouts whose partitions have equal sizes
        pc = _KeyPieces(layout, dtype)
        pdf = pd.concat([pc(i) for i in range(len(layout))], ignore_index=True)
        return rt.dx.from_pandas(pdf, chunksize=len(layout[0]), sort=False)

    return {
        "set_index('k', sorted=True)": lambda l, d: src(l, d).set_index("k", sorted=True),
        "set_index(df.k, sorted=True)": lambda l, d: (lambda s: s.set_index(s.k, sorted=True))(src(l, d)),
        "set_index('k', sorted=True, drop=False)": lambda l, d: src(l, d).set_index("k", sorted=True, drop=False),
        "compute_current_divisions(set_divisions=True)": lambda l, d: src(l, d, indexed=True).compute_current_divisions(set_divisions=True),
        "projection.set_index('k', sorted=True)": lambda l, d: src(l, d)[["v", "k"]].set_index("k", sorted=True),
        "filter.set_index('k', sorted=True)": lambda l, d: (lambda s: s[s.v % 4 != 3].set_index("k", sorted=True))(src(l, d)),
        "from_pandas(sort=False).set_index('k', sorted=True)": lambda l, d: from_pandas(l, d).set_index("k", sorted=True),
    }


def _consumers(rt, layout, dtype):
    """collections that derive their own divisions from the computed ones (label arguments taken from the data)."""
    import pandas as pd
    labels, dt = _labels(dtype)
    ranks = sorted({r for p in layout for r in p})
    lo, mid, hi = labels[ranks[0]], labels[ranks[len(ranks) // 2]], labels[ranks[-1]]
    other = pd.DataFrame({"z": range(len(ranks))}, index=pd.Index([labels[r] for r in ranks], dtype=dt, name="k"))
    return {
        "index": lambda c: c.index,
        "column": lambda c: c.v,
        "elementwise": lambda c: c[["v"]] + 1,
        "filter": lambda c: c[c.v % 2 == 0],
        "loc[mid:]": lambda c: c.loc[mid:],
        "loc[:mid]": lambda c: c.loc[:mid],
        "loc[mid]": lambda c: c.loc[mid:mid],
        "repartition(npartitions=2)": lambda c: c.repartition(npartitions=2),
        "repartition(npartitions=n+1)": lambda c: c.repartition(npartitions=c.npartitions + 1),
        "repartition(divisions=[lo, mid, hi])": lambda c: c.repartition(divisions=sorted({lo, mid, hi}) if lo != hi else [lo, hi], force=True),
        "partitions[1:]": lambda c: c.partitions[1:],
        "partitions[[n-1, 0]]": lambda c: c.partitions[[c.npartitions - 1, 0]],
        "join(2-partition frame on the index)": lambda c: c.join(rt.dx.from_pandas(other, npartitions=2)),
        "index merge with itself": lambda c: c[["v"]].merge(c[["w"]].partitions[:1], left_index=True, right_index=True, how="left"),
        "concat with itself": lambda c: rt.dx.concat([c, c]),
        "cumsum": lambda c: c.v.cumsum(),
        "shift": lambda c: c.shift(1),
        "reset_index.set_index sorted again": lambda c: c.reset_index().set_index("k", sorted=True),
        "head(npartitions=2)": lambda c: c.head(2, npartitions=min(2, c.npartitions), compute=False),
        "tail": lambda c: c.tail(2, compute=False),
    }


_INDEX_JOINS = ("join(2-partition frame on the index)", "index merge with itself")


# --------------------------------------------------------------------------------------------------------- the check
def _check(run, m, case, coll, stages=("logical", "optimized", "fused", "to_delayed"), lengths=True):
    """reported structure of `coll` vs its really computed partitions, at the requested stages.  -> bool (ok)"""
    import dask
    labels = _labels(case["dtype"])[0]
    tag = "%s on %d pieces ordered by the %s key k, holding k = %s" % (case["entry"] + ("" if not case.get("consumer") else " -> " + case["consumer"]), len(case["layout"]), case["dtype"],
                                                                     [[_s(labels[r]) for r in p] for p in case["layout"]])
    bad = []

    def stage_parts(st):
        if st == "logical":
            return coll.expr, exec_expr(coll.expr.lower_completely())
        if st in ("optimized", "fused"):
            e = coll.optimize(fuse=(st == "fused")).expr
            return e, exec_expr(e)
        return coll.expr, list(dask.compute(*coll.to_delayed(), scheduler="sync"))

    total = None
    for st in stages:
        r = try_(lambda: stage_parts(st))
        if r[0] == "raise":
            continue                                   # an exception is not a (wrong) report
        e, parts = r[1]
        claim = try_(lambda: (tuple(e.divisions), e.npartitions))
        if claim[0] == "raise":
            continue
        msg = truthful(claim[1][0], parts, claim[1][1])
        if msg is None and case["dtype"] in ("int", "uint8") and claim[1][0][0] is not None and all(float(d) == int(d) for d in claim[1][0]):
            # second opinion of the verified model on integer keys
            tb = m.batch(["(truthfulb %s %s)" % (common.sx([int(d) for d in claim[1][0]]), common.sx([[int(v) for v in (p if not hasattr(p, "index") else p.index)] for p in parts]))])[0]
            if tb != "true":
                msg = "reports divisions %s: Divisions.v truthfulb rejects the computed partitions" % (claim[1][0],)
        if msg:
            bad.append("%s @%s: %s" % (tag, st, msg))
            break
        total = sum(len(p) for p in parts)
    if not bad and lengths and total is not None:
        for what, f in (("len()", lambda: len(coll)), ("map_partitions(len) sum", lambda: int(sum(coll.map_partitions(len).compute(scheduler="sync"))))):
            got = try_(f)
            if got[0] == "ok" and got[1] != total:
                bad.append("%s: %s reports %s rows, the computed partitions hold %s" % (tag, what, got[1], total))
    for b in bad:
        run.violation("computed divisions of ordered data: " + b, dict(case, kind="resolve-layer"))
    return not bad


def resolve_layer(run, rt, quick):
    rng = run.rng
    m = common.Model()
    entries = _entries(rt)
    main = "set_index('k', sorted=True)"
    stats = {"layouts": 0, "raised": 0, "consumer cases": 0, "straddling": 0, "by_entry": {}}

    def one(pairs, layout, dtype, entry, stages, consumers=()):
        case = {"dtype": dtype, "layout": [list(p) for p in layout], "entry": entry}
        nonempty = [p for p in layout if p]
        straddle = any(a[-1] == b[0] for a, b in zip(nonempty[:-1], nonempty[1:]))
        run.count(("resolve", dtype, entry, tuple(map(tuple, layout))), nontrivial=len(nonempty) >= 2)
        stats["layouts"] += 1
        stats["straddling"] += bool(straddle)
        stats["by_entry"][entry] = stats["by_entry"].get(entry, 0) + 1
        c = try_(lambda: entries[entry](layout, dtype))
        if c[0] == "raise":
            stats["raised"] += 1
            return
        if not _check(run, m, case, c[1], stages=stages):
            return
        cons = _consumers(rt, layout, dtype)
        for cn in consumers:
            run.count(("resolve-consumer", dtype, entry, cn, tuple(map(tuple, layout))), nontrivial=len(nonempty) >= 2)
            stats["consumer cases"] += 1
            if cn in _INDEX_JOINS and len(set(c[1].divisions)) == 1:
                continue      # pristine finding (reported, left out): index merge of a frame whose divisions are all equal with a 1-partition frame
            d = try_(lambda: cons[cn](c[1]))
            if d[0] == "raise":
                continue
            _check(run, m, dict(case, consumer=cn), d[1], stages=("logical", "fused"), lengths=False)

    # (1) every layout of 3 partitions over 3 labels and of 4 partitions over 2 labels (quick) / wider (thorough)
    full = [(2, 3), (3, 3), (4, 2)] if quick else [(2, 4), (3, 4), (4, 3), (5, 2)]
    for nparts, nranks in full:
        for pairs in _chains(nparts, nranks):
            one(pairs, _expand(rng, pairs), "int", main, stages=("logical", "fused"))
    # (2) random layouts of 3..6 partitions biased to touching neighbours, all dtypes x entry points, with empty partitions
    dtypes = ["int", "float", "str", "datetime", "uint8", "Int64", "timedelta"]
    names = list(entries)
    cons_names = list(_consumers(rt, [[0], [1]], "int"))
    for j in range(56 if quick else 700):
        nparts = rng.choice([3, 3, 4, 4, 5, 6])
        pairs = _random_pairs(rng, nparts)
        dtype = dtypes[j % len(dtypes)]
        entry = names[(j // len(dtypes) + j) % len(names)]
        if entry.startswith("from_pandas"):
            # equal partition sizes (from_pandas cuts by position): single rows, or pairs of rows
            k = rng.choice([1, 2, 3])
            flat = sorted(r for p in _expand(rng, pairs, fat=True) for r in p)
            layout = [flat[i:i + k] for i in range(0, len(flat), k)]
        else:
            layout = _expand(rng, pairs, empties=(rng.random() < 0.35), fat=True)
        one(pairs, layout, dtype, entry, stages=("logical", "optimized", "fused", "to_delayed"),
            consumers=rng.sample(cons_names, 3 if quick else 6) if (j % 3 == 0 or not quick) else ())
    run.section("resolve_layer", **stats)
