"""C05, hash partitioning by keys: the tasks that compute a partition number for every row.

``shuffle`` (and the operators built on it: hash joins, ``groupby(..., split_out=)``, ``set_index`` / ``sort_values``)
start with one task per input partition that receives the partition -- and, when the keys are given as a collection, the
matching partition of the *keys* collection -- selects the key columns, brings them into a hashable form (datetime-like
columns are re-expressed, categoricals / numeric keys are cast) and assigns the partition number.  The partitions these
tasks receive are inputs like any other: they may be persisted, they may have more consumers in the same graph, the user
may compute the keys collection again afterwards.  The property demands that

  * no partitioning task modifies what it received (arguments bit-identical after each call),
  * every dependency-respecting order of the graph (the other consumers of the shared partitions before or after the
    partitioning task) gives the same partitions,
  * repeated computes of one collection -- the query, the keys collection, the persisted base -- give the same answer,
  * the user's pandas objects are left as they were.

Family: operator (shuffle tasks/disk with max_branch, ignore_index; hash join; groupby split_out; set_index; sort_values;
drop_duplicates / unique split_out) x spelling of the keys (label, list of labels, index, Series collection, DataFrame
collection with one / two columns, derived blockwise frame, the base collection of the frame, the frame itself) x dtype
of the key (integers, floats, strings, categoricals, nullable, booleans, datetime64 / timedelta64 in every resolution,
tz-aware) x missing values x partition counts in / out x lazy or persisted base x fusion.

Oracle ("private inputs", as in c05_readers): the same graph executed by an executor that hands every task deep copies of
all it receives.  No task can observe there what another task did to its arguments, so if tasks do not modify their inputs
every real execution has to agree with it, partition by partition and dtype-exactly (rows sorted inside disk-shuffled
partitions, whose row order the property leaves open).  Nothing is compared with pandas.
"""
import random

import numpy as np
import pandas as pd

import graphs
from c05_readers import exact, run_private
from e2e import try_, _short

# ----------------------------------------------------------------------------- data

KEY_DTYPES = [
    "int64", "int8", "uint32", "float64", "float32", "bool", "string", "object", "category", "category-int", "Int64", "boolean",
    "datetime64[ns]", "datetime64[us]", "datetime64[ms]", "datetime64[s]",
    "timedelta64[ns]", "timedelta64[us]", "timedelta64[ms]", "timedelta64[s]",
    "datetime64[ns, UTC]", "datetime64[us, Europe/Berlin]", "datetime64[ms, US/Eastern]", "datetime64[s, UTC]",
]
NO_NULLS = {"int64", "int8", "uint32", "bool"}
TEMPORAL = [d for d in KEY_DTYPES if "datetime" in d or "timedelta" in d]


def key_values(rng, dtype, nrows, nulls):
    """A key column with duplicates (a pool of 5 distinct values), optionally with missing values."""
    pool = rng.sample(range(1, 60), 5)
    picks = [rng.choice(pool) for _ in range(nrows)]
    holes = [nulls and dtype not in NO_NULLS and rng.random() < 0.25 for _ in range(nrows)]
    if nulls and dtype not in NO_NULLS and not any(holes):
        holes[rng.randrange(nrows)] = True
    if dtype in ("int64", "int8", "uint32"):
        return pd.Series(np.array(picks, dtype=dtype))
    if dtype == "bool":
        return pd.Series(np.array([p % 2 == 0 for p in picks]))
    if dtype in ("float64", "float32"):
        return pd.Series(np.array([np.nan if h else p / 4.0 for p, h in zip(picks, holes)], dtype=dtype))
    if dtype in ("string", "object", "category"):
        vals = [None if h else "v%02d" % p for p, h in zip(picks, holes)]
        if dtype == "object":
            return pd.Series(vals, dtype=object)
        s = pd.Series(pd.array(vals, dtype="string"))
        return s.astype("category") if dtype == "category" else s
    if dtype == "category-int":
        return pd.Series(pd.array([None if h else p for p, h in zip(picks, holes)], dtype="Int64")).astype("category")
    if dtype in ("Int64", "boolean"):
        return pd.Series(pd.array([None if h else (p if dtype == "Int64" else p % 2 == 0) for p, h in zip(picks, holes)], dtype=dtype))
    if dtype.startswith("timedelta64"):
        s = pd.Series(pd.to_timedelta([None if h else p * 3600 + 7 for p, h in zip(picks, holes)], unit="s"))
        return s.astype(dtype)
    if dtype.startswith("datetime64"):
        s = pd.Series(pd.to_datetime([None if h else 946684800 + p * 3600 for p, h in zip(picks, holes)], unit="s"))
        if "," in dtype:
            unit, tz = dtype[len("datetime64["):-1].split(", ")
            return s.dt.tz_localize("UTC").dt.tz_convert(tz).dt.as_unit(unit)
        return s.astype(dtype)
    raise KeyError(dtype)


def make_pdf(seed, dtype, nrows, nulls):
    rng = random.Random(seed)
    return pd.DataFrame({
        "t": key_values(rng, dtype, nrows, nulls),
        "k": np.array([rng.randrange(3) for _ in range(nrows)], dtype="int64"),
        "x": np.array([rng.randrange(-20, 20) / 2.0 for _ in range(nrows)]),
        "s": pd.array([rng.choice(["ab", "cd", "ef"]) for _ in range(nrows)], dtype="string"),
    })


def coarser(dtype):
    """The same instants in another resolution (equal join keys)."""
    for a, b in (("[ns", "[ms"), ("[us", "[s"), ("[ms", "[us"), ("[s", "[ns")):
        if a in dtype:
            return dtype.replace(a, b)
    return dtype


# ----------------------------------------------------------------------------- user functions (pure)


def _consume(part):
    """Another consumer of a partition: returns a new frame, leaves its argument alone."""
    f = part.to_frame() if part.ndim == 1 else part
    return f.assign(_n=np.arange(len(f)))


def _stable(part, by, **kwargs):
    return part.sort_values(by, kind="stable", **kwargs)


# ----------------------------------------------------------------------------- the family

# spelling of the keys of a shuffle; "class" = what the partitioning task receives besides the frame's partition
KEYFORMS = {
    "label": "labels", "list of labels": "labels", "on_index": "labels", "index name": "labels",
    "series collection": "collection", "frame collection (1 column)": "collection", "frame collection (2 columns)": "collection",
    "derived frame collection": "collection", "derived series collection": "collection",
    "the base collection of the frame": "shared", "the frame itself": "shared", "the frame itself (2 columns)": "shared",
}
FORMS_OF = {c: [f for f, cc in KEYFORMS.items() if cc == c] for c in ("labels", "collection", "shared")}

OTHER_OPS = ["merge on label", "merge on label, other resolution", "merge left_on/right_on", "merge on index", "groupby split_out", "groupby two keys split_out",
             "set_index", "sort_values", "drop_duplicates split_out", "unique split_out", "value_counts split_out"]


def build(rt, case, pdfs):
    """(query, other consumer, collections whose repeated compute is compared).  `pdfs`: the user's pandas frames."""
    dx = rt.dx
    pdf = pdfs["left"]
    op, form = case["op"], case.get("keyform")
    nin, nout, method = case["npartitions"], case["npartitions_out"], case["method"]
    persist = case["history"] == "persisted"

    def source(frame, npartitions=nin, **kw):
        c = dx.from_pandas(frame, npartitions=npartitions, **kw)
        return c.persist() if persist else c
    kw = dict(npartitions=nout, shuffle_method=method)
    if case.get("max_branch"):
        kw["max_branch"] = case["max_branch"]
    if case.get("ignore_index"):
        kw["ignore_index"] = True
    if op == "shuffle":
        if form in ("on_index", "index name"):
            base = source(pdf.set_index("t"), sort=False)
            q = base.shuffle(on_index=True, **kw) if form == "on_index" else base.shuffle(on="t", **kw)
            return q, base.map_partitions(_consume), [base]
        if form == "the base collection of the frame":
            base = source(pdf[["t"]])
            df = base.assign(x=1.5, n=base.t.isna())
            return df.shuffle(on=base, **kw), base.map_partitions(_consume), [base]
        if form.startswith("the frame itself"):
            base = source(pdf[["t", "k"]] if "2 columns" in form else pdf[["t"]])
            return base.shuffle(on=base, **kw), base.map_partitions(_consume), [base]
        base = source(pdf)
        if form == "label":
            on = "t"
        elif form == "list of labels":
            on = ["k", "t"]
        elif form == "series collection":
            on = base["t"]
        elif form == "frame collection (1 column)":
            on = base[["t"]]
        elif form == "frame collection (2 columns)":
            on = base[["t", "k"]]
        elif form == "derived frame collection":
            on = base[["k", "t"]].rename(columns={"k": "kk", "t": "tt"})
        elif form == "derived series collection":
            on = base["t"].rename("tt")
        else:
            raise KeyError(form)
        q = base.shuffle(on=on, **kw)
        other = (on if hasattr(on, "map_partitions") else base).map_partitions(_consume)
        return q, other, [base] + ([on] if hasattr(on, "compute") else [])
    base = source(pdf)
    jkw = dict(shuffle_method=method, broadcast=False)
    if op.startswith("merge"):
        right = pdfs["right"]
        if op == "merge on index":
            lb = source(pdf.set_index("t"), sort=False)
            rb = source(right.set_index("t"), npartitions=max(1, nout - 1), sort=False)
            q = lb.merge(rb, left_index=True, right_index=True, how=case["how"], **jkw)
            return q, lb.map_partitions(_consume), [lb, rb]
        rb = source(right, npartitions=max(1, nout - 1))
        if op == "merge left_on/right_on":
            rb2 = rb.rename(columns={"t": "u"})
            q = base.merge(rb2, left_on="t", right_on="u", how=case["how"], **jkw)
        else:
            q = base.merge(rb, on="t", how=case["how"], **jkw)
        return q, rb.map_partitions(_consume), [base, rb]
    if op == "groupby split_out":
        q = base.groupby("t", dropna=case["nulls"] and case["seed"] % 2 == 0, observed=True).agg({"x": "sum", "k": "max"}, split_out=nout, shuffle_method=method)
    elif op == "groupby two keys split_out":
        q = base.groupby(["k", "t"], observed=True).x.sum(split_out=nout, shuffle_method=method).to_frame()
    elif op == "set_index":
        q = base.set_index("t", npartitions=nout, shuffle_method=method)
    elif op == "sort_values":
        q = base.sort_values("t", npartitions=nout, shuffle_method=method, sort_function=_stable)
    elif op == "drop_duplicates split_out":
        q = base[["t", "k"]].drop_duplicates(split_out=nout, shuffle_method=method)
    elif op == "unique split_out":
        q = base.t.unique(split_out=nout, shuffle_method=method)
    elif op == "value_counts split_out":
        q = base.t.value_counts(split_out=nout)
    else:
        raise KeyError(op)
    return q, base.map_partitions(_consume), [base]


def cases(rng, quick):
    out = []

    def add(op, dtype, **kw):
        nin = kw.pop("npartitions", None) or rng.choice([1, 2, 3, 4] if quick else [1, 2, 3, 4, 5, 7])
        case = {"kind": "partition-keys", "op": op, "dtype": dtype, "nulls": dtype not in NO_NULLS and rng.random() < 0.5,
                "npartitions": nin, "npartitions_out": rng.choice([1, 2, 3, 5] if quick else [1, 2, 3, 4, 6, 9]), "nrows": nin * rng.randint(2, 4) + rng.randint(0, 3),
                "method": "tasks" if rng.random() < 0.75 else "disk", "history": rng.choice(["lazy", "persisted"]), "fuse": rng.random() < 0.5,
                "how": rng.choice(["inner", "left", "outer"]), "seed": rng.randrange(10 ** 6)}
        case.update(kw)
        if (case.get("keyform") in ("on_index", "index name") or op == "merge on index") and dtype not in ("float64", "float32"):
            case["nulls"] = False       # from_pandas refuses a non-numeric index with missing values
        if op == "value_counts split_out":
            case["method"] = "disk"     # no shuffle_method argument: the configured default (disk, no cluster)
        if case["method"] == "tasks" and rng.random() < 0.2:
            case["max_branch"] = rng.choice([2, 3])
        if op == "shuffle" and rng.random() < 0.25:
            case["ignore_index"] = True
        out.append(case)
    # shuffle: every key dtype with one spelling of every class (labels / a collection / an object shared with the frame);
    # lazy and persisted, fused and not, alternate so that every dtype meets both
    reps = 1 if quick else 2
    for di, dtype in enumerate(KEY_DTYPES):
        for ci, cls in enumerate(("labels", "collection", "shared")):
            for r in range(reps):
                forms = FORMS_OF[cls]
                form = forms[(di + r) % len(forms)] if r else rng.choice(forms)
                if quick and cls == "labels" and dtype not in TEMPORAL and di % 2:
                    continue
                add("shuffle", dtype, keyform=form, history=("lazy", "persisted")[(di + ci + r) % 2], fuse=bool((di // 2 + ci + r) % 2))
    if not quick:
        for dtype in KEY_DTYPES:
            for form in KEYFORMS:
                add("shuffle", dtype, keyform=form)
    # every spelling at least once more with a key whose hashing needs a rewrite / a cast, on several partitions
    for form in KEYFORMS:
        add("shuffle", rng.choice(TEMPORAL + ["category", "float32", "Int64"]), keyform=form, npartitions=rng.choice([2, 3, 4]))
    # the operators built on the same partitioning tasks
    for op in OTHER_OPS:
        for r in range(1 if quick else 5):
            dtype = rng.choice(TEMPORAL) if (r + len(out)) % 2 == 0 else rng.choice(KEY_DTYPES)
            if op in ("set_index", "sort_values", "merge on index") and dtype in ("bool", "boolean", "category", "category-int", "object"):
                dtype = rng.choice(TEMPORAL)
            add(op, dtype)
    return out


def _tag(case):
    return "%s%s key %s%s | %d -> %d partitions, %d rows, %s%s%s | base %s | fuse=%s" % (
        case["op"], " on=" + case["keyform"] if case.get("keyform") else "", case["dtype"], " with missing values" if case["nulls"] else "",
        case["npartitions"], case["npartitions_out"], case["nrows"], case["method"], " max_branch=%d" % case["max_branch"] if case.get("max_branch") else "",
        " ignore_index" if case.get("ignore_index") else "", case["history"], case["fuse"])


def _sources(case):
    pdfs = {"left": make_pdf(case["seed"], case["dtype"], case["nrows"], case["nulls"])}
    if case["op"].startswith("merge"):
        rd = coarser(case["dtype"]) if "other resolution" in case["op"] else case["dtype"]
        right = make_pdf(case["seed"], case["dtype"], case["nrows"], case["nulls"])     # the same pool of key values
        right = right.iloc[::-1].iloc[: max(2, case["nrows"] - 2)].reset_index(drop=True).rename(columns={"k": "k2", "x": "y", "s": "s2"})
        if rd != case["dtype"]:
            right["t"] = right["t"].dt.as_unit(rd.split("[")[1].split(",")[0].rstrip("]")) if "datetime" in rd or "timedelta" in rd else right["t"]
        pdfs["right"] = right
    return pdfs


def _rows_sorted(v):
    """Rows of a disk-shuffled partition in a canonical order (their order is left open by the property)."""
    if isinstance(v, (pd.DataFrame, pd.Series)) and len(v) > 1:
        f = v.to_frame() if isinstance(v, pd.Series) else v
        keys = [repr(r) for r in zip(f.index.tolist(), *[[exact_scalar(x) for x in f[c].tolist()] for c in f.columns])] if f.columns.is_unique else [repr(r) for r in f.itertuples()]
        order = sorted(range(len(keys)), key=lambda i: keys[i])
        return v.iloc[order]
    return v


def exact_scalar(x):
    return None if (x is None or x is pd.NA or x is pd.NaT or (isinstance(x, float) and x != x)) else str(x)


def _merge_infos(a, b):
    """One graph that holds the tasks of both collections (keys of the same name are the same task)."""
    order = list(a["order"]) + [k for k in b["order"] if k not in a["graph"]]
    deps = dict(b["deps"])
    deps.update(a["deps"])
    graph = dict(b["graph"])
    graph.update(a["graph"])
    return {"graph": graph, "deps": deps, "order": order, "outs": list(a["outs"]) + list(b["outs"]), "nkeys": len(graph), "problems": a["problems"] + b["problems"]}


def check_case(run, rt, case, quick):
    tag = _tag(case)
    rng = random.Random(case["seed"] + 1)
    disk = case["method"] == "disk"
    norm = (lambda v: exact(_rows_sorted(v))) if disk else exact
    pdfs = _sources(case)
    src_fp = {n: graphs.fingerprint(p) for n, p in pdfs.items()}
    built = try_(lambda: build(rt, case, pdfs))
    if built[0] == "raise":
        return "not supported"
    q, other, watched = built[1]
    fuse = case["fuse"]

    def infos():
        a = graphs.analyse(q.optimize(fuse=fuse).expr)
        b = graphs.analyse(other.optimize(fuse=fuse).expr)
        return a, b
    # ---- oracle: both collections with private inputs for every task (nothing of the real run has happened yet)
    ref = try_(lambda: ([norm(p) for p in run_private(q.optimize(fuse=fuse).expr)], [exact(p) for p in run_private(other.optimize(fuse=fuse).expr)]))
    if ref[0] == "raise":
        return "oracle raises"
    ref_q, ref_o = ref[1]
    # ---- the collections the user holds, before
    first = [try_(lambda: exact(w.compute(scheduler="sync"))) for w in watched]
    # ---- one graph with both consumers, in adversarial and random orders
    ab = try_(infos)
    if ab[0] == "raise":
        run.violation("materializing the graph fails (%s) but the query computes when every task has private inputs [%s]" % (ab[1], tag), case)
        return "violation"
    a, b = ab[1]
    nq = len(a["outs"])
    if nq != len(ref_q):
        run.violation("%d output partitions, %d in the execution with private task inputs [%s]" % (nq, len(ref_q), tag), case)
        return "violation"
    merged = _merge_infos(a, b)
    consumers = {}
    for k, ds in merged["deps"].items():
        for d in ds:
            consumers[d] = consumers.get(d, 0) + 1
    shared = sum(1 for v in consumers.values() if v >= 2)
    flipped = dict(merged, outs=list(b["outs"]) + list(a["outs"]))
    schedules = [("demand, query first", merged, "demand", False), ("demand, other consumer first", flipped, "demand", True), ("reverse", merged, "reverse", False),
                 ("random", merged, "random", False)]
    if quick:
        del schedules[2 + case["seed"] % 2]
    else:
        schedules += [("lifo", flipped, "lifo", True), ("fifo", merged, "fifo", False), ("random", flipped, "random", True), ("random", merged, "random", False), ("random", merged, "random", False)]
    # arguments are fingerprinted before / after every task in one of the orders (every third outside the quick tier): a task
    # that modifies an input does so in whatever order it runs; the other orders show whether a consumer can observe it
    hashed = case["seed"] % (len(schedules) if quick else 3)
    for n, (pol, info, policy, flip) in enumerate(schedules):
        if disk and n:
            # a disk shuffle graph carries fresh partd keys per materialization
            ab = try_(infos)
            if ab[0] == "raise":
                run.violation("materializing the graph again fails (%s) [%s]" % (ab[1], tag), dict(case, schedule=pol))
                return "violation"
            a, b = ab[1]
            info = _merge_infos(a, b)
            if flip:
                info = dict(info, outs=list(b["outs"]) + list(a["outs"]))
        r = try_(lambda: graphs.run_schedule(info, rng, policy, check_mutation=(n == hashed if quick else n % 3 == hashed)))
        if r[0] == "raise":
            run.violation("execution in order '%s' fails (%s) but the query computes when every task has private inputs [%s]" % (pol, r[1], tag), dict(case, schedule=pol))
            return "violation"
        vals, muts = r[1]
        vq, vo = (vals[len(b["outs"]):], vals[:len(b["outs"])]) if flip else (vals[:nq], vals[nq:])
        for mu in muts[:2]:
            run.violation("%s (order '%s') [%s]" % (mu, pol, tag), dict(case, schedule=pol))
        if muts:
            return "violation"
        for what, got, want, f in (("the query", vq, ref_q, norm), ("the other consumer of the keys / the base", vo, ref_o, exact)):
            for i, (v, w) in enumerate(zip(got, want)):
                g = f(v)
                if g != w:
                    run.violation("partition %d of %s computed in order '%s' differs from the same partition computed with private task inputs: %s vs %s [%s]" % (i, what, pol, _short(g), _short(w), tag),
                                  dict(case, schedule=pol, partition=i))
                    return "violation"
    # ---- repeated computes of the query, sequentially and on threads
    results = []
    computes = [("first compute", {"scheduler": "sync"}), ("second compute", {"scheduler": "sync"}), ("compute on 4 threads", {"scheduler": "threads", "num_workers": 4})]
    if quick:
        del computes[1 + case["seed"] % 2]
    for how, kw in computes:
        r = try_(lambda: q.compute(**kw))
        if r[0] == "raise":
            if not results and how == "first compute":
                break       # compute() (the final concatenation) of this query is not supported: nothing to compare
            run.violation("%s fails (%s) after the first compute succeeded [%s]" % (how, r[1], tag), dict(case, compute=how))
            return "violation"
        results.append((how, norm(r[1])))
    for how, got in results[1:]:
        if got != results[0][1]:
            run.violation("%s of one collection differs from its first compute: %s vs %s [%s]" % (how, _short(got), _short(results[0][1]), tag), dict(case, compute=how))
            return "violation"
    # ---- the collections the user holds, after
    for j, w in enumerate(watched):
        again = try_(lambda: exact(w.compute(scheduler="sync")))
        if again != first[j] and first[j][0] == "ok":
            run.violation("computing the %s again after the query ran gives another answer: %s vs %s [%s]" % ("base collection" if j == 0 else "keys collection" if case["op"] == "shuffle" else "second input",
                                                                                                         _short(again[1]), _short(first[j][1]), tag), dict(case, compute="collection %d again" % j))
            return "violation"
    for n, p in pdfs.items():
        if graphs.fingerprint(p) != src_fp[n]:
            run.violation("the user's pandas frame (%s) was modified [%s]" % (n, tag), dict(case, compute="user object"))
            return "violation"
    return "ok" if shared else "ok (nothing shared)"


def run_family(run, rt):
    quick = run.tier == "quick"
    rng = random.Random(run.rng.randrange(10 ** 9))
    todo = cases(rng, quick)
    stats = {}
    for case in todo:
        run.count(("partition-keys", case["op"], case.get("keyform"), case["dtype"], case["nulls"], case["npartitions"], case["npartitions_out"], case["method"],
                   case.get("max_branch"), case.get("ignore_index"), case["history"], case["fuse"]), nontrivial=case["npartitions"] > 1 or case["history"] == "persisted")
        st = check_case(run, rt, case, quick)
        stats[st] = stats.get(st, 0) + 1
    run.section("partitioning keys", cases=len(todo), **{k.replace(" ", "_").replace("(", "").replace(")", ""): v for k, v in stats.items()})
