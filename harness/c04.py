"""C04 -- column pruning never changes a result."""
import itertools

import common
import progcheck
from e2e import canon, concat_parts, exec_expr, try_, _short
from c03 import strip_index
import c04_labels


def ops_table():
    """Operators a projection is pushed through: (name, fn(d, other) -> frame, ordered, keys implicit)."""
    def isd(d):
        return hasattr(d, "npartitions")
    T = [
        ("identity", lambda d, o: d, True),
        ("add-lit", lambda d, o: d + 1, True),
        ("fillna", lambda d, o: d.fillna(0), True),
        ("abs", lambda d, o: d.abs(), True),
        ("filter", lambda d, o: d[d.count_ > 1], True),
        ("filter-or", lambda d, o: d[(d.count_ > 2) | (d.mass > 1)], True),
        ("assign", lambda d, o: d.assign(z=d.count_ + d.mass), True),
        ("assign-overwrite", lambda d, o: d.assign(mass=d.count_ * 2), True),
        ("assign-two", lambda d, o: d.assign(z=d.count_ + 1, w=d.mass), True),
        ("rename", lambda d, o: d.rename(columns={"count_": "n", "mass": "m"}), True),
        ("rename-swap", lambda d, o: d.rename(columns={"count_": "mass", "mass": "count_"}), True),
        ("add_prefix", lambda d, o: d.add_prefix("col_"), True),
        ("add_suffix", lambda d, o: d.add_suffix("_sum"), True),
        ("add_prefix-2_", lambda d, o: d.add_prefix("2_"), True),
        ("astype", lambda d, o: d.astype({"mass": "float64"}), True),
        ("drop", lambda d, o: d.drop(columns=["k"]), True),
        ("dropna-subset", lambda d, o: d.dropna(subset=["mass"]), True),
        ("drop_duplicates-subset", lambda d, o: d.drop_duplicates(subset=["k"]), False),
        ("sort_values", lambda d, o: d.sort_values("idn"), True),
        ("set_index", lambda d, o: d.set_index("idn") if isd(d) else d.set_index("idn").sort_index(), True),
        ("reset_index", lambda d, o: d.reset_index(), False),
        ("shuffle", lambda d, o: d.shuffle("k") if isd(d) else d, False),
        ("repartition", lambda d, o: d.repartition(npartitions=2) if isd(d) else d, True),
        ("merge-inner", lambda d, o: d.merge(o, on="k"), False),
        ("merge-left-suffix", lambda d, o: d.merge(o, on="k", how="left", suffixes=("_l", "_r")), False),
        ("merge-left_on", lambda d, o: d.merge(o, left_on="k", right_on="k2"), False),
        ("concat", lambda d, o: __import__("dask_expr").concat([d, d]) if isd(d) else __import__("pandas").concat([d, d]), False),
        ("groupby-sum", lambda d, o: d.groupby("k").sum().reset_index(), False),
        ("groupby-agg", lambda d, o: d.groupby("k").agg({"mass": "max", "count_": "sum"}).reset_index(), False),
        ("cumsum", lambda d, o: d.cumsum(), True),
        ("shift", lambda d, o: d.shift(1), True),
        ("clip", lambda d, o: d.clip(lower=1), True),
        ("where", lambda d, o: d.where(d.count_ > 1, 0), True),
        ("isna", lambda d, o: d.isna(), True),
        ("head", lambda d, o: d.head(3, compute=False) if isd(d) else d.head(3), True),
    ]
    return T


def make(rng):
    import numpy as np
    import pandas as pd
    n = 12
    pdf = pd.DataFrame({
        "k": [rng.randint(0, 3) for _ in range(n)],
        "count_": [rng.randint(0, 4) for _ in range(n)],
        "mass": [float(rng.randint(0, 4)) for _ in range(n)],
        "idn": rng.sample(range(100), n),
        "unused1": [rng.randint(0, 9) for _ in range(n)],
    })
    other = pd.DataFrame({"k": [0, 1, 2, 3, 1], "k2": [0, 1, 2, 3, 3], "mass": [10.0, 11.0, 12.0, 13.0, 14.0], "extra": [5, 6, 7, 8, 9]})
    return pdf, other


def selections(cols, rng):
    cols = list(cols)
    sels = []
    for c in cols:
        sels.append(("scalar", c))
    for k in (1, 2, 3):
        if len(cols) >= k:
            sels.append(("list", rng.sample(cols, k)))
    sels.append(("list", list(reversed(cols))))
    return sels


def scenario_sweep(run):
    import rt
    quick = run.tier == "quick"
    n = 0
    for opname, op, ordered in ops_table():
        pdf, other = make(run.rng)
        base = try_(lambda: op(pdf, other))
        if base[0] == "raise":
            run.broken_tie("scenario does not run on pandas", {"op": opname, "err": base[1]})
            continue
        sels = selections(base[1].columns, run.rng)
        if quick:
            sels = sels[: 4] + sels[-2:]
        for kind, sel in sels:
            for cons in ("plain", "sum", "shared"):
                if quick and cons == "shared" and n % 2:
                    continue
                n += 1
                case = {"op": opname, "select": sel, "consumer": cons}
                run.count(("scenario", opname, str(sel), cons))

                def q(d, o):
                    y = op(d, o)
                    z = y[sel]
                    if cons == "sum":
                        return z.sum() if not (opname in ("isna",)) else z.sum()
                    if cons == "shared":
                        first = list(y.columns)[0]
                        return (z.count() if kind == "scalar" else z.count().sum()) + y[first].count()
                    return z
                exp = try_(lambda: q(pdf, other))
                if exp[0] == "raise":
                    continue
                for npart in (1, 3):
                    df, do = rt.dx.from_pandas(pdf, npartitions=npart), rt.dx.from_pandas(other, npartitions=2)
                    got = try_(lambda: q(df, do))
                    if got[0] == "raise":
                        run.violation("query cannot be built (%s): %s" % (case, got[1]), dict(case, kind="scenario"))
                        continue
                    opt = try_(lambda: canon(concat_parts(exec_expr(got[1].optimize().expr)), ordered))
                    pc = canon(exp[1], ordered)
                    if opt[0] == "raise":
                        un = try_(lambda: canon(concat_parts(exec_expr(got[1].expr.lower_completely())), ordered))
                        if un[0] == "ok":
                            run.violation("column pruning breaks the query (%s): %s" % (case, opt[1]), dict(case, kind="scenario", npartitions=npart))
                        continue
                    a, b = opt[1], pc
                    if opname in ("reset_index", "merge-inner", "merge-left-suffix", "merge-left_on", "groupby-sum", "groupby-agg", "concat", "drop_duplicates-subset", "shuffle"):
                        a, b = strip_index(a), strip_index(b)
                    if a != b:
                        run.violation("selecting %s after %s gives %s, pandas %s" % (sel, opname, _short(a), _short(b)), dict(case, kind="scenario", npartitions=npart))
    run.section("scenarios", cases=n, operators=len(ops_table()))


class _SrcPiece:
    def __init__(self, pdf, n):
        self.pdf, self.n = pdf, n

    def __call__(self, i):
        k = (len(self.pdf) + self.n - 1) // self.n
        return self.pdf.iloc[i * k:(i + 1) * k]

    def __dask_tokenize__(self):
        return ("c04-piece", self.n, tuple(self.pdf.columns))


def source_sweep(run):
    """Column selections absorbed by every kind of data source, with labels that are not in sorted order: every ordered
    pair / triple of columns and every single column, plain and below an operator, vs pandas on the same data."""
    import os
    import shutil
    import tempfile
    import dask
    import pandas as pd
    import rt
    cols = ["z", "a", "m", "k"]
    pdf = pd.DataFrame({c: [100 * (j + 1) + i for i in range(12)] for j, c in enumerate(cols)})
    tmp = tempfile.mkdtemp(prefix="c04_", dir=common.BUILD)
    n = 0
    try:
        pdf.iloc[:6].to_csv(os.path.join(tmp, "p0.csv"), index=False)
        pdf.iloc[6:].to_csv(os.path.join(tmp, "p1.csv"), index=False)
        rt.dx.from_pandas(pdf, npartitions=3).to_parquet(os.path.join(tmp, "pq"))
        sources = {
            "from_pandas": lambda: rt.dx.from_pandas(pdf, npartitions=3),
            "from_array": lambda: rt.dx.from_array(pdf.values, chunksize=5, columns=cols),
            "from_map": lambda: rt.dx.from_map(_SrcPiece(pdf, 3), [0, 1, 2], meta=pdf.iloc[:0]),
            "from_delayed": lambda: rt.dx.from_delayed([dask.delayed(_SrcPiece(pdf, 2))(i) for i in (0, 1)], meta=pdf.iloc[:0]),
            "from_dict": lambda: rt.dx.from_dict({c: list(pdf[c]) for c in cols}, npartitions=2),
            "read_csv": lambda: rt.dx.read_csv(os.path.join(tmp, "p*.csv")),
            "read_parquet": lambda: rt.dx.read_parquet(os.path.join(tmp, "pq")),
            "read_parquet-arrow": lambda: rt.dx.read_parquet(os.path.join(tmp, "pq"), filesystem="arrow"),
        }
        sels = [("scalar", c) for c in cols] + [("list", list(p)) for p in itertools.permutations(cols, 2)] + \
               [("list", list(p)) for p in list(itertools.permutations(cols, 3))[:: (3 if run.tier == "quick" else 1)]] + [("list", list(reversed(cols)))]
        consumers = {"plain": lambda y, sel: y[sel], "below add": lambda y, sel: (y + 1)[sel], "sum": lambda y, sel: y[sel].sum(),
                     "two selections": lambda y, sel: y[sel].sum().sum() + y[cols[0]].sum() if isinstance(sel, list) else y[sel].sum() + y[cols[-1]].sum()}
        for sn, mk in sources.items():
            for kind, sel in sels:
                for cn, cf in consumers.items():
                    n += 1
                    run.count(("source", sn, str(sel), cn))
                    exp = cf(pdf, sel)
                    got = try_(lambda: cf(mk(), sel))
                    case = {"kind": "source", "source": sn, "select": sel, "consumer": cn}
                    if got[0] == "raise":
                        run.violation("selecting %s from a %s source (%s) cannot be built: %s" % (sel, sn, cn, got[1]), case)
                        continue
                    opt = try_(lambda: got[1].compute())
                    if opt[0] == "raise":
                        run.violation("selecting %s from a %s source (%s) fails: %s" % (sel, sn, cn, opt[1]), case)
                        continue
                    a, b = strip_index(canon(opt[1], True)), strip_index(canon(exp, True))
                    if a != b:
                        run.violation("selecting %s from a %s source (%s) gives %s, pandas %s" % (sel, sn, cn, _short(a), _short(b)), case)
    finally:
        shutil.rmtree(tmp, ignore_errors=True)
    run.section("sources", cases=n, sources=sorted(sources))


def widening(run, n):
    """Adding columns the query never mentions cannot change its result."""
    import random
    import rt
    import gen
    import e2e
    bad = 0
    for idx in range(n):
        rng = random.Random(run.seed * 1000003 + 999 + idx)
        tables = gen.make_tables(rng, nrows=8, nulls=rng.choice([0.0, 0.2]))
        g = gen.ProgGen(rng, profile=rng.choice(["l1", "l2"]), max_steps=rng.randint(1, 6))
        base_cols = list(tables["t0"].columns)[:3]
        prog = g.generate({"t0": base_cols})
        narrow = tables["t0"][base_cols]
        wide = tables["t0"].assign(u1=1, u2=[float(i) for i in range(len(narrow))])
        uses_all = any(st["op"] in ("sum", "count", "max", "min", "mean", "abs", "fillna", "add_lit", "sub_lit", "mul_lit") and st["in"][0] == "t0" for st in prog["steps"])
        # programs that read the whole source frame (reductions / arithmetic over all columns) DO mention the extra columns
        res = {}
        for nm, tab in (("narrow", narrow), ("wide", wide)):
            src = e2e.build_sources({"t0": tab}, {"t0": ("npartitions", 3)}, rt)
            r = try_(lambda: gen.run_program(prog, src, True)[prog["result"]])
            if r[0] == "raise":
                res = None
                break
            res[nm] = try_(lambda: canon(concat_parts(exec_expr(r[1].optimize().expr)), prog["ordered"]))
        if res is None:
            continue
        run.count(("widen", idx))
        if whole_frame_use(prog):
            continue
        if res["narrow"][0] == "ok" and (res["wide"][0] == "raise" or res["wide"][1] != res["narrow"][1]):
            bad += 1
            run.violation("adding unused source columns changes the result: %s vs %s [program %s]" % (_short(res["wide"][1]), _short(res["narrow"][1]), gen.describe(prog)),
                          {"kind": "widening", "program": gen.describe(prog), "idx": idx})
    run.section("widening", programs=n, differing=bad)


def whole_frame_use(prog):
    """True when some step consumes every column of its input frame (then extra columns are mentioned)."""
    full = {"t0"}
    for st in prog["steps"]:
        op = st["op"]
        src = st["in"][0]
        if op in ("proj", "getcol"):
            continue
        if src in full:
            if op in ("filter", "assign", "rename", "drop", "repartition", "shuffle", "sort_values", "astype"):
                full.add(st["out"])
            elif op not in ("len",):
                return True
    return prog["result"] in full


def run(run):
    run.trusted = common.COMMON_TRUSTED + [
        "harness/steplog.py exporter; den of coq/Plan.v as model of pandas on the fragment; operators outside the fragment (merge, groupby, sort, shuffle, prefix/suffix ...) are covered by the scenario grid against pandas only",
    ]
    run.rule = ("scenario grid: operator x selected columns (scalar, lists of 1-3, reversed) x consumer (plain, reduction, second consumer of the intermediate) x partitions vs pandas; "
                "labels grid: column-wise statistic (reductions, quantile with scalar / list q, describe, cov, ...) x table x partitions x operator below x selected labels "
                "(every label, every ordered pair, triples, permutations, repeated) x consumer (plain, arithmetic, nested / second selection, next to the whole statistic) "
                "vs the plan lowered without optimization, vs pandas' selection of the computed complete statistic, vs pandas; "
                "T-STEP: every logged projection-pushdown step of the fragment validated by the verified rule_ok; widening: same program on sources with extra unused columns; "
                "non-trivial = executed scenario / program with >= 2 steps")
    run.proofs("PropC04.v")
    quick = run.tier == "quick"
    scenario_sweep(run)
    source_sweep(run)
    progcheck.run_programs(run, {"C01"}, 200 if quick else 5000, profile="l1", own={"C01"})
    widening(run, 120 if quick else 3000)
    c04_labels.label_sweep(run)
