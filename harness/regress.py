"""Regression corpus: one standalone reproducer per repaired defect (regressions/<Dxx>_<Cxx>.py, written when the defect was
repaired; exits 0 iff the behaviour is right -- each compares the real implementation with pandas, with the unoptimized plan or
with the fully computed collection on a family of inputs around the original failure).  The check of a property runs the
reproducers of its own defects first; a non-zero exit is a violation with the script as replay."""
import json
import os
import subprocess
from concurrent.futures import ThreadPoolExecutor

import common

DIR = os.path.join(common.VERIF, "regressions")


def run_regressions(run, pid):
    idx = json.load(open(os.path.join(DIR, "index.json")))
    mine = sorted((d, e) for d, e in idx.items() if e["property"] == pid)
    if not mine:
        return
    env = dict(os.environ)
    env["PYTHONPATH"] = common.REPO
    env.setdefault("PYTHONHASHSEED", "0")

    def one(item):
        did, e = item
        path = os.path.join(DIR, e["script"])
        try:
            p = subprocess.run([common.PY, path], env=env, stdout=subprocess.PIPE, stderr=subprocess.STDOUT, text=True, timeout=900, cwd=DIR)
            return did, e, p.returncode, p.stdout[-1500:]
        except subprocess.TimeoutExpired:
            return did, e, -9, "timeout"

    with ThreadPoolExecutor(max_workers=6) as ex:
        results = list(ex.map(one, mine))
    bad = 0
    for did, e, rc, out in results:
        run.count(("regression", did))
        if rc != 0:
            bad += 1
            tail = [l for l in out.strip().split("\n") if l.strip()][-3:]
            run.violation("%s has returned (%s; repaired by %s): %s" % (did, e["commit"][5:120], e["commit_hash"], " | ".join(tail)[:500]),
                          {"kind": "regression", "defect": did, "script": os.path.join(DIR, e["script"]),
                           "how": "PYTHONPATH=/repo /venv/bin/python " + os.path.join(DIR, e["script"])})
    run.section("regression_corpus", scripts=len(results), failing=bad, defects=[d for d, _ in mine])
