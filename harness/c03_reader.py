"""C03, hand-over of a row filter to a file reader.

A parquet dataset is written, read back with both readers (fsspec, and pyarrow-filesystem -- the one that takes
reader filters) and filtered with predicate TREES whose leaves are drawn from two pools: comparisons a reader can
evaluate (column <,<=,>,>=,== literal, on float/int/string/timestamp/nullable columns) and terms it cannot
(isin, isna/notnull, !=, column-vs-column, column-vs-reduction, negation, arithmetic).  Every And/Or/Not shape up to a
size bound is crossed with every assignment of the two pools to its leaves, and with what surrounds the filter
(projection before / after, a Series or a reduction consumer, a second filter, an elementwise operation or rename
below the filter, a shared source, filters already given to read_parquet).

Oracle: the same program evaluated by pandas on the unfiltered data (the source read in full into memory); for a
part of the cases additionally the plan lowered without optimization.
"""
import itertools
import os
import shutil
import tempfile

import common
from e2e import canon, concat_parts, exec_expr, try_, _short


# ----------------------------------------------------------------------------- data

def dataset(rng, n, nulls):
    """columns: a, c float (NaN); b int; s string (None); t timestamp (sorted); n nullable Int64 (pd.NA); e read by no predicate; rowid unique."""
    import numpy as np
    import pandas as pd

    def fl(hi):
        v = np.array([rng.randint(0, hi) for _ in range(n)], dtype="float64")
        for i in range(n):
            if nulls and rng.random() < nulls:
                v[i] = np.nan
        return v
    s = [rng.choice(["u", "v", "w", "x"]) for _ in range(n)]
    ni = [rng.randint(0, 6) for _ in range(n)]
    if nulls:
        s = [None if rng.random() < nulls else x for x in s]
        ni = [None if rng.random() < nulls else x for x in ni]
    pdf = pd.DataFrame({
        "a": fl(6), "b": np.array([rng.randint(0, 6) for _ in range(n)], dtype="int64"), "c": fl(4),
        "s": pd.Series(s, dtype="object"), "t": pd.Timestamp("2024-01-01") + pd.to_timedelta(np.arange(n), unit="D"),
        "n": pd.Series(ni, dtype="Int64"), "e": np.arange(n, dtype="float64") * 2, "rowid": np.arange(n, dtype="int64"),
    })
    return pdf


def data_dict(pdf):
    """JSON-serialisable copy of the data (missing values -> None, timestamps -> text)"""
    import pandas as pd
    return {c: [None if pd.isna(x) else (str(x) if c == "t" else x) for x in pdf[c].tolist()] for c in pdf.columns}


def write(rt, pdf, path, layout):
    """layout: ("dask", k) = to_parquet of a k-partition collection; ("pandas", k, rg) = k files written by pandas with
    row groups of rg rows (several row groups per file)."""
    shutil.rmtree(path, ignore_errors=True)
    if layout[0] == "dask":
        rt.dx.from_pandas(pdf, npartitions=layout[1]).to_parquet(path, write_index=False)
    else:
        os.makedirs(path)
        k, rg = layout[1], layout[2]
        step = -(-len(pdf) // k)
        for i in range(k):
            pdf.iloc[i * step:(i + 1) * step].to_parquet(os.path.join(path, "part.%d.parquet" % i), index=False, row_group_size=rg)


# ----------------------------------------------------------------------------- predicates

def conv_atoms(rng):
    """Comparisons of a column with a literal: what a reader filter can express.  name -> builder over a frame y."""
    import pandas as pd
    k = lambda lo, hi: rng.randint(lo, hi)
    ka, kb, kc, kn, kt = k(1, 4), k(1, 4), k(1, 2), k(1, 4), k(8, 30)
    ts = pd.Timestamp("2024-01-01") + pd.Timedelta(days=kt)
    sv = rng.choice(["u", "v", "w", "x"])
    A = {
        "a>%d" % ka: lambda y: y.a > ka,
        "a<=%d" % (ka + 1): lambda y: y.a <= ka + 1,
        "a==%d" % ka: lambda y: y.a == ka,
        "%d<a" % (ka - 1): lambda y: (ka - 1) < y.a,
        "b>=%d" % kb: lambda y: y.b >= kb,
        "b<%d" % (kb + 1): lambda y: y.b < kb + 1,
        "b==%d" % kb: lambda y: y.b == kb,
        "c<%d" % (kc + 1): lambda y: y.c < kc + 1,
        "c>=%d.5" % kc: lambda y: y.c >= kc + 0.5,
        "s==%s" % sv: lambda y: y.s == sv,
        "s>=v": lambda y: y.s >= "v",
        "n>%d" % kn: lambda y: y.n > kn,
        "n<=%d" % kn: lambda y: y.n <= kn,
        "t>=d%d" % kt: lambda y: y.t >= ts,
        "t<d%d" % kt: lambda y: y.t < ts,
        "rowid>%d" % kt: lambda y: y.rowid > kt,
    }
    return A


def other_atoms(rng):
    """Terms a reader filter cannot express (or must not: != on missing values)."""
    k = lambda lo, hi: rng.randint(lo, hi)
    ka, kb = k(1, 4), k(1, 4)
    sl = sorted(rng.sample(["u", "v", "w", "x"], 2))
    bl = sorted(rng.sample(range(6), 3))
    al = sorted(rng.sample(range(6), 3))
    A = {
        "s.isin%s" % "".join(sl): lambda y: y.s.isin(sl),
        "b.isin%s" % "".join(map(str, bl)): lambda y: y.b.isin(bl),
        "a.isin%s" % "".join(map(str, al)): lambda y: y.a.isin([float(x) for x in al]),
        "a.isna": lambda y: y.a.isna(),
        "c.isna": lambda y: y.c.isna(),
        "s.isna": lambda y: y.s.isna(),
        "n.isna": lambda y: y.n.isna(),
        "a.notnull": lambda y: y.a.notnull(),
        "c.notnull": lambda y: y.c.notnull(),
        "s.notnull": lambda y: y.s.notnull(),
        "a!=%d" % ka: lambda y: y.a != ka,
        "b!=%d" % kb: lambda y: y.b != kb,
        "c!=1": lambda y: y.c != 1,
        "s!=w": lambda y: y.s != "w",
        "n!=%d" % kb: lambda y: y.n != kb,
        "a<b": lambda y: y.a < y.b,
        "a>=c": lambda y: y.a >= y.c,
        "b==c": lambda y: y.b == y.c,
        "b!=a": lambda y: y.b != y.a,
        "a>a.mean": lambda y: y.a > y.a.mean(),
        "c<c.max": lambda y: y.c < y.c.max(),
        "~(b>%d)" % kb: lambda y: ~(y.b > kb),
        "~(a>%d)" % ka: lambda y: ~(y.a > ka),
        "~a.isna": lambda y: ~y.a.isna(),
        "~s.isin%s" % "".join(sl): lambda y: ~y.s.isin(sl),
        "a+b>5": lambda y: (y.a + y.b) > 5,
        "b%2==0": lambda y: (y.b % 2) == 0,
        "abs(a-3)<2": lambda y: (y.a - 3).abs() < 2,
    }
    return A


def shapes(max_leaves):
    """Predicate tree shapes: (name, arity, combine(list of masks))."""
    S = [
        ("x", 1, lambda m: m[0]),
        ("~x", 1, lambda m: ~m[0]),
        ("x&y", 2, lambda m: m[0] & m[1]),
        ("x|y", 2, lambda m: m[0] | m[1]),
        ("~(x&y)", 2, lambda m: ~(m[0] & m[1])),
        ("~(x|y)", 2, lambda m: ~(m[0] | m[1])),
        ("x&~y", 2, lambda m: m[0] & ~m[1]),
    ]
    if max_leaves >= 3:
        S += [
            ("(x&y)&z", 3, lambda m: (m[0] & m[1]) & m[2]),
            ("x&(y&z)", 3, lambda m: m[0] & (m[1] & m[2])),
            ("(x&y)|z", 3, lambda m: (m[0] & m[1]) | m[2]),
            ("x|(y&z)", 3, lambda m: m[0] | (m[1] & m[2])),
            ("(x|y)&z", 3, lambda m: (m[0] | m[1]) & m[2]),
            ("x&(y|z)", 3, lambda m: m[0] & (m[1] | m[2])),
            ("(x|y)|z", 3, lambda m: (m[0] | m[1]) | m[2]),
            ("~(x&y)|z", 3, lambda m: ~(m[0] & m[1]) | m[2]),
            ("(x&y)|(x&z)", 3, lambda m: (m[0] & m[1]) | (m[0] & m[2])),
        ]
    if max_leaves >= 4:
        S += [
            ("(x&y)&(z&w)", 4, lambda m: (m[0] & m[1]) & (m[2] & m[3])),
            ("((x&y)&z)&w", 4, lambda m: ((m[0] & m[1]) & m[2]) & m[3]),
            ("(x&y)|(z&w)", 4, lambda m: (m[0] & m[1]) | (m[2] & m[3])),
            ("(x|y)&(z|w)", 4, lambda m: (m[0] | m[1]) & (m[2] | m[3])),
            ("((x&y)|z)&w", 4, lambda m: ((m[0] & m[1]) | m[2]) & m[3]),
            ("(x&(y|z))|w", 4, lambda m: (m[0] & (m[1] | m[2])) | m[3]),
            ("(x&y&z)|w", 4, lambda m: (m[0] & m[1] & m[2]) | m[3]),
        ]
    return S


# ----------------------------------------------------------------------------- what surrounds the filter

def contexts():
    """(name, program(src, pred) -> result, result kind).  `pred` maps a frame to a boolean mask."""
    return [
        ("direct", lambda d, p: d[p(d)], "frame"),
        ("proj-before", lambda d, p: (lambda y: y[p(y)])(d[["rowid", "s", "c", "b", "a", "n", "t"]]), "frame"),
        ("proj-after", lambda d, p: d[p(d)][["rowid", "b"]], "frame"),
        ("series", lambda d, p: d[p(d)]["rowid"], "series"),
        ("sum", lambda d, p: d[p(d)].rowid.sum(), "scalar"),
        ("count", lambda d, p: d[p(d)].count(), "series"),
        ("len", lambda d, p: len(d[p(d)]), "scalar"),
        ("shared-source", lambda d, p: d[p(d)].rowid.sum() + d.b.sum(), "scalar"),
        ("second-filter", lambda d, p: (lambda z: z[z.b > 0])(d[p(d)]), "frame"),
        ("first-filter", lambda d, p: (lambda y: y[p(y)])(d[d.b < 5]), "frame"),
        ("assign-below", lambda d, p: (lambda y: y[p(y)])(d.assign(z=d.b + 1)), "frame"),
        ("rename-below", lambda d, p: (lambda y: y[p(y)])(d.rename(columns={"e": "ee"})), "frame"),
        ("series-pred", lambda d, p: d.rowid[p(d)], "series"),
    ]


# ----------------------------------------------------------------------------- one evaluation

def evaluate(run, tag, case, prog, d, mem, kind, with_unopt, info=None):
    """prog on the dask collection d, optimized (and optionally unoptimized), against prog on the pandas frame mem."""
    exp = try_(lambda: prog(mem))
    if exp[0] == "raise":
        return "skip"
    got = try_(lambda: prog(d))
    if got[0] == "raise":
        run.violation("%s: building the query raises %s, pandas computes it" % (tag, got[1]), case)
        return "bad"

    def value(x, optimized):
        if not hasattr(x, "optimize"):        # len(): already a number
            return canon(x)
        if optimized:
            e = x.optimize().expr
            if info is not None:
                info["filters"] = reader_filters(e)
        else:
            e = x.expr.lower_completely()
        return canon(concat_parts(exec_expr(e)), False, labels=False)
    pc = canon(exp[1], False, labels=False) if kind != "scalar" else canon(exp[1])
    opt = try_(lambda: value(got[1], True))
    un = try_(lambda: value(prog(d), False)) if with_unopt or opt[0] == "raise" else None
    if opt[0] == "raise":
        if un is not None and un[0] == "ok":
            run.violation("%s: the optimized query fails (%s), the unoptimized plan computes it" % (tag, opt[1]), case)
            return "bad"
        return "skip"
    if opt[1] != pc:
        run.violation("%s: rows returned differ from the rows satisfying the predicate on the unfiltered data: %s" % (tag, row_diff(opt[1], pc)), case)
        return "bad"
    if un is not None and un[0] == "ok" and un[1] != opt[1]:
        run.violation("%s: optimized and unoptimized plans return different rows: %s vs %s" % (tag, _short(opt[1]), _short(un[1])), case)
        return "bad"
    return "ok"


def row_diff(got, exp):
    """what differs between two canonical results, in words"""
    if got[0] in ("frame", "series") and got[0] == exp[0] and got[1] == exp[1]:
        g, x = list(got[2]), list(exp[2])
        extra = [r for r in g if r not in x]
        lost = [r for r in x if r not in g]
        return "%d rows returned, %d satisfy the predicate; returned although the predicate is not true: %s; lost: %s" % (
            len(g), len(x), _short(extra[:3]), _short(lost[:3]))
    return "got %s expected %s" % (_short(got), _short(exp))


def reader_filters(e):
    """the filters operands of the parquet reads of an optimized expression (statistic only)"""
    out = []
    for x in e.walk():
        if "filters" in getattr(x, "_parameters", []) and type(x).__name__.startswith("ReadParquet"):
            out.append(repr(x.operand("filters")))
    return out


def full_valuation(masks):
    """do the leaves take every combination of truth values on the data?"""
    import pandas as pd
    rows = set(zip(*[[bool(x) if x is not pd.NA and x == x else False for x in m.tolist()] for m in masks]))
    return len(rows) == 2 ** len(masks)


# ----------------------------------------------------------------------------- the sweep

def reader_sweep(run):
    import rt
    quick = run.tier == "quick"
    tmp = tempfile.mkdtemp(prefix="c03_", dir=common.BUILD)
    try:
        _sweep(run, rt, tmp, quick)
    finally:
        shutil.rmtree(tmp, ignore_errors=True)


def open_sources(run, rt, tmp, quick):
    """the datasets, written in several layouts and opened with both readers (and once with filters given by the user)"""
    rng = run.rng
    READERS = [("arrow", {"filesystem": "arrow"}), ("fsspec", {})]
    layouts = [("dask", 4), ("pandas", 3, 5), ("dask", 1)] if quick else [("dask", 4), ("pandas", 3, 5), ("dask", 1), ("pandas", 1, 7), ("dask", 7), ("pandas", 6, 100)]
    sources = []
    for li, layout in enumerate(layouts):
        for nulls in (0.2, 0.0):
            if quick and li > 0 and nulls == 0.0:
                continue
            pdf = dataset(rng, 42, nulls)
            path = os.path.join(tmp, "ds%d_%s" % (li, str(nulls).replace(".", "")))
            w = try_(lambda: write(rt, pdf, path, layout))
            if w[0] == "raise":
                continue                                  # writing is C18's subject
            for rname, kw in READERS:
                for ufl in (None, [("b", "<=", 4)]):
                    if ufl is not None and (li != 0 or nulls == 0.0):
                        continue
                    r = try_(lambda: rt.dx.read_parquet(path, **dict(kw, **({"filters": ufl} if ufl else {}))))
                    if r[0] == "raise":
                        continue
                    m = try_(lambda: r[1].compute())
                    if m[0] == "raise" or sorted(m[1]["rowid"].tolist()) != sorted(pdf[pdf.b <= 4]["rowid"].tolist() if ufl else pdf["rowid"].tolist()):
                        continue                          # the unfiltered read itself: C18's subject
                    mem = m[1].reset_index(drop=True)
                    tag = "parquet(%s, nulls=%s, reader=%s%s)" % ("/".join(map(str, layout)), nulls, rname, ", filters=%s" % ufl if ufl else "")
                    sources.append({"tag": tag, "reader": rname, "d": r[1], "mem": mem, "layout": list(layout), "nulls": nulls, "user_filters": ufl,
                                    "data": data_dict(pdf)})
    return sources


def _sweep(run, rt, tmp, quick):
    import time
    t0 = time.time()
    rng = run.rng
    ctxs = contexts()
    stats = {"cases": 0, "skipped": 0, "trees": 0, "pairs": 0, "with_reader_filters": 0, "full_valuation": 0}
    sources = open_sources(run, rt, tmp, quick)
    arrow = [s for s in sources if s["reader"] == "arrow"]
    fss = [s for s in sources if s["reader"] == "fsspec"]
    if not arrow:
        run.section("reader_handover", cases=0, note="no source readable with filesystem='arrow'")
        return
    counter = itertools.count()

    def one(src, sname, leaves, comb, cname, cprog, ckind, kinds):
        i = next(counter)
        names = [l[0] for l in leaves]
        pred = (lambda y: comb([f(y) for _, f in leaves])) if comb is not None else None
        masks = try_(lambda: [f(src["mem"]) for _, f in leaves])
        fv = masks[0] == "ok" and full_valuation(masks[1])
        case = {"kind": "reader", "source": src["tag"], "layout": src["layout"], "nulls": src["nulls"], "reader": src["reader"], "user_filters": src["user_filters"],
                "shape": sname, "leaves": names, "leaf_kinds": kinds, "context": cname, "data": src["data"]}
        tag = "%s %s with %s, context %s" % (src["tag"], sname, dict(zip("xyzw", names)), cname)
        run.count(("reader", src["tag"], sname, tuple(names), cname), nontrivial=bool(fv))
        info = {}
        r = evaluate(run, tag, case, lambda s: cprog(s, pred), src["d"], src["mem"], ckind, with_unopt=(not quick) or i % 5 == 0, info=info)
        stats["cases"] += 1
        stats["skipped"] += r == "skip"
        stats["full_valuation"] += bool(fv)
        stats["with_reader_filters"] += any(f != repr(src["user_filters"]) for f in info.get("filters", []))

    def draw(kinds, C, O):
        """distinct leaves of the requested kinds"""
        cs, os_ = rng.sample(sorted(C), min(len(C), 4)), rng.sample(sorted(O), min(len(O), 4))
        out = []
        for kd in kinds:
            nm = (cs if kd == "R" else os_).pop()
            out.append((nm, (C if kd == "R" else O)[nm]))
        return out

    # 1. every shape x every assignment of {reader-expressible, other} to its leaves; contexts / sources rotate
    S = shapes(3 if quick else 4)
    j = 0
    for sname, ar, comb in S:
        for kinds in itertools.product("RO", repeat=ar):
            reps = (2 if set(kinds) == {"R"} else 1) if quick else 3       # all-expressible trees are the ones handed over whole
            for _ in range(reps):
                C, O = conv_atoms(rng), other_atoms(rng)
                leaves = draw(kinds, C, O)
                stats["trees"] += 1
                # the pyarrow-filesystem reader: the direct filter + one rotating context; the fsspec reader: one rotating context
                todo = [(arrow[j % len(arrow)], ctxs[0]), (arrow[(j + 1) % len(arrow)], ctxs[1 + j % (len(ctxs) - 1)])]
                if fss and (j % 2 == 0 or set(kinds) == {"R"}):
                    todo.append((fss[j % len(fss)], ctxs[(j // 2) % len(ctxs)]))
                if not quick:   # every context on the arrow reader (sources rotate), four on the fsspec reader
                    todo = [(arrow[(j + ci) % len(arrow)], c) for ci, c in enumerate(ctxs)] + [(fss[(j + ci) % len(fss)], c) for ci, c in enumerate(ctxs[:4]) if fss]
                for src, (cname, cprog, ckind) in todo:
                    one(src, sname, leaves, comb, cname, cprog, ckind, "".join(kinds))
                j += 1

    # 2. conjunction / disjunction of each non-expressible term with expressible comparisons, both operand orders,
    #    as one predicate and as two consecutive filters
    C, O = conv_atoms(rng), other_atoms(rng)
    pair_shapes = [("x&y", lambda m: m[0] & m[1]), ("x|y", lambda m: m[0] | m[1])]
    for oname in sorted(O):
        cnames = sorted(C) if not quick else rng.sample(sorted(C), 2)
        for ci, cn in enumerate(cnames):
            for order in (("RO", "OR") if not quick else (("RO", "OR")[ci % 2],)):
                leaves = [(cn, C[cn]), (oname, O[oname])] if order == "RO" else [(oname, O[oname]), (cn, C[cn])]
                for sname, comb in (pair_shapes if not quick else [pair_shapes[0]] + ([pair_shapes[1]] if j % 4 == 0 else [])):
                    src = arrow[j % len(arrow)]
                    cname, cprog, ckind = ctxs[0] if j % 3 else ctxs[1 + (j // 3) % (len(ctxs) - 1)]
                    one(src, sname, leaves, comb, cname, cprog, ckind, order)
                    stats["pairs"] += 1
                    j += 1
                if ci == 0 or not quick:
                    # consecutive filters d[x][y]: squashed into one conjunction before the hand-over
                    src = arrow[j % len(arrow)]
                    one(src, "d[x][y]", leaves, None, "consecutive", lambda d, p, l=leaves: (lambda z: z[l[1][1](z)])(d[l[0][1](d)]), "frame", order)
                    j += 1
    run.section("reader_handover", sources=[s["tag"] for s in sources], shapes=[s[0] for s in S], contexts=[c[0] for c in ctxs],
                expressible_atoms=len(C), other_atoms=len(O), wall_s=round(time.time() - t0, 1), **stats)
