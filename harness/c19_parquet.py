"""C19, parquet sources: the plan of optimize() is a function of the query alone.

The parquet readers size their fused partitions (tune stage, FusedIO / FusedParquetIO) from footer statistics that live in
process-wide caches.  What the session looked at before (lengths, divisions, other projections of the same files, other
datasets, computations) therefore must not show in the plan: the family below optimizes projected reads over multi-file
datasets whose files are NOT alike, at different moments of a session, and compares

  * the plan observed first (name, npartitions, divisions, graph keys, files read by every output partition),
  * the plan of the same collection object and of a rebuilt identical query after every history action,
  * the plan a FRESH interpreter (empty caches, no history actions) gives for the same query over the same files,
  * optimize(optimize(q)) and the computed result against pandas on the data that was written.

The datasets are written with pyarrow directly (not with the tree under test).
"""
import gc
import json
import math
import os
import random
import shutil
import subprocess
import sys
import tempfile
import time

import numpy as np
import pandas as pd


# ----------------------------------------------------------------------------- datasets

LAYOUTS = ("alike", "sampled-lean", "sampled-fat", "small-lean", "big-lean", "random", "one-odd", "three-kinds")
WIDTH = {"lean": 0, "medium": 8, "fat": 60}


def _file_frame(rng, nrows, kind, start, nulls, dtypes, index):
    """One file: `a` int64, `b` string (as wide as the kind of the file says: the heavy column of fat files), `c` float, `d` per `dtypes`."""
    a = [rng.randrange(0, 2 ** 40) for _ in range(nrows)]
    b = ["x" * WIDTH[kind] + (str(j % 100) if kind != "lean" else "") for j in range(nrows)]
    c = [float(rng.randrange(-50, 50)) for _ in range(nrows)]
    if nulls:
        b = [None if rng.random() < nulls else v for v in b]
        c = [np.nan if rng.random() < nulls else v for v in c]
    d = {"a": np.array(a, dtype="int64"), "b": pd.array(b, dtype="object"), "c": np.array(c, dtype="float64")}
    if dtypes == "datetime":
        d["d"] = pd.to_datetime(np.array([start + j for j in range(nrows)], dtype="int64") * 10 ** 9)
    elif dtypes == "small-int":
        d["d"] = np.array([j % 5 for j in range(nrows)], dtype="int8")
    elif dtypes == "bool":
        d["d"] = np.array([j % 3 == 0 for j in range(nrows)], dtype="bool")
    return pd.DataFrame(d, index=pd.Index(range(start, start + nrows), name="i") if index else None)


def _row_bytes(kind, nulls, dtypes, index):
    w = WIDTH[kind] + (2 if kind != "lean" else 0)
    return 8 + (4 + w) * (1 - nulls) + 8 * (1 - nulls) + {"none": 0, "datetime": 8, "small-int": 4, "bool": 0.2}[dtypes] + (8 if index else 0) + 0.3


def make_spec(rng, k, nfiles=None, layout=None):
    nfiles = nfiles or rng.choice([6, 9, 12, 16, 16, 20])
    layout = layout or LAYOUTS[k % len(LAYOUTS)]
    return {"id": k, "nfiles": nfiles, "layout": layout, "nulls": rng.choice([0.0, 0.0, 0.3]), "dtypes": rng.choice(["none", "none", "datetime", "small-int", "bool"]),
            "index": rng.choice([True, True, True, False]), "unit": rng.choice([500, 1000, 2000]), "order": rng.choice(["ascending", "descending", "shuffled"]), "seed": rng.randrange(10 ** 6)}


def write_dataset(spec, path):
    """Writes the files of `spec` with pyarrow; returns the frames in file order.  The file at position i has size rank
    ranks[i] (its size is about unit * (rank + 1) bytes); the layout says which size ranks hold which kind of file."""
    import pyarrow as pa
    import pyarrow.parquet as pq
    rng = random.Random(spec["seed"])
    n = spec["nfiles"]
    ranks = list(range(n))
    if spec["order"] == "descending":
        ranks.reverse()
    elif spec["order"] == "shuffled":
        rng.shuffle(ranks)
    lay = spec["layout"]
    step = max(n // 3, 1)
    odd = rng.randrange(n)
    frames, start = [], 0
    os.makedirs(path)
    for i in range(n):
        r = ranks[i]
        kind = {"alike": "fat", "sampled-lean": "lean" if r % step == 0 else "fat", "sampled-fat": "fat" if r % step == 0 else "lean",
                "small-lean": "lean" if r < n // 3 else "fat", "big-lean": "lean" if r >= n - n // 3 else "fat",
                "random": rng.choice(["lean", "fat"]), "one-odd": "lean" if r == odd else "fat", "three-kinds": rng.choice(["lean", "medium", "fat"])}[lay]
        nrows = max(int(spec["unit"] * (r + 1) / _row_bytes(kind, spec["nulls"], spec["dtypes"], spec["index"])), 3)
        f = _file_frame(rng, nrows, kind, start, spec["nulls"], spec["dtypes"], spec["index"])
        start += nrows
        frames.append(f)
        pq.write_table(pa.Table.from_pandas(f, preserve_index=spec["index"]), os.path.join(path, "part.%d.parquet" % i), compression=None, use_dictionary=False)
    return frames


def column_bytes(path):
    """Independent look at the footers: per file, the uncompressed bytes of every column."""
    import pyarrow.parquet as pq
    out = []
    for f in sorted(f for f in os.listdir(path) if f.endswith(".parquet")):
        md = pq.ParquetFile(os.path.join(path, f)).metadata
        sizes = {}
        for rg in range(md.num_row_groups):
            for ci in range(md.num_columns):
                col = md.row_group(rg).column(ci)
                sizes[col.path_in_schema] = sizes.get(col.path_in_schema, 0) + col.total_uncompressed_size
        out.append(sizes)
    return out


def step_spread(colbytes, columns):
    """The bucket sizes ceil(1/share) that single files, and all files together, suggest for the projection `columns`
    (capped like the tune stage caps them).  More than one value = the plan is sensitive to WHICH files an estimate looks at."""
    cap = math.ceil(math.sqrt(len(colbytes)))
    per, tot_all, tot_sel = set(), 0, 0
    for sizes in colbytes:
        al, sel = sum(sizes.values()), sum(v for k, v in sizes.items() if k in columns)
        tot_all += al
        tot_sel += sel
        per.add(min(math.ceil(al / max(sel, 1)), cap))
    per.add(min(math.ceil(tot_all / max(tot_sel, 1)), cap))
    return sorted(per)


# ----------------------------------------------------------------------------- queries, history actions

READERS = {"arrow": {"filesystem": "arrow"}, "fsspec": {}}

# name -> (columns the read is projected to, dask query, pandas oracle)
QUERIES = {
    "[[a]]+1": (["a"], lambda rd: rd[["a"]] + 1, lambda p: p[["a"]] + 1),
    "a.sum": (["a"], lambda rd: rd.a.sum(), lambda p: p.a.sum()),
    "[[a,c]].fillna": (["a", "c"], lambda rd: rd[["a", "c"]].fillna(0.0), lambda p: p[["a", "c"]].fillna(0.0)),
    "c.abs": (["c"], lambda rd: rd.c.abs(), lambda p: p.c.abs()),
    "b.isna": (["b"], lambda rd: rd.b.isna(), lambda p: p.b.isna()),
    "[[a,c]] a+c": (["a", "c"], lambda rd: rd.a + rd.c, lambda p: p.a + p.c),
    "[[c,a]].count": (["a", "c"], lambda rd: rd[["c", "a"]].count(), lambda p: p[["c", "a"]].count()),
    "a.map_partitions(len)": (["a"], lambda rd: rd.a.map_partitions(len), None),
    "[[a]] partitions[1:]": (["a"], lambda rd: (rd[["a"]] * 2).partitions[1:], None),
}


def _read(dx, path, reader, cd):
    return dx.read_parquet(path, calculate_divisions=cd, **READERS[reader])


# history actions: things a session does with the same files (or with others) between two optimize() calls of the query
ACTIONS = {
    "len": lambda dx, path, reader, cd, aux: len(_read(dx, path, reader, False)),
    "len other reader": lambda dx, path, reader, cd, aux: len(_read(dx, path, "fsspec" if reader == "arrow" else "arrow", False)),
    "len of projection": lambda dx, path, reader, cd, aux: len(_read(dx, path, reader, cd)[["c"]]),
    "divisions": lambda dx, path, reader, cd, aux: _read(dx, path, reader, True).divisions,
    "index.max": lambda dx, path, reader, cd, aux: _read(dx, path, reader, True).index.max().compute(),
    "plan other projection": lambda dx, path, reader, cd, aux: (_read(dx, path, reader, cd)[["b"]].isna()).optimize().npartitions,
    "compute other projection": lambda dx, path, reader, cd, aux: len(_read(dx, path, reader, cd)[["c", "a"]].dropna().compute()),
    "compute everything": lambda dx, path, reader, cd, aux: len(_read(dx, path, reader, cd).compute()),
    "head": lambda dx, path, reader, cd, aux: len(_read(dx, path, reader, cd).head(2)),
    "partition lengths": lambda dx, path, reader, cd, aux: tuple(_read(dx, path, reader, cd).map_partitions(len).compute()),
    "filtered read": lambda dx, path, reader, cd, aux: len(dx.read_parquet(path, filters=[("a", ">=", 0)], **READERS[reader]).a.compute()),
    "other datasets": lambda dx, path, reader, cd, aux: [len(_read(dx, p, reader, True)) + (_read(dx, p, reader, cd)[["a"]] + 1).optimize().npartitions for p in aux],
}


def plan_signature(q, deep=False):
    """What the property calls `the plan`: name, partitioning and graph of optimize(q); nothing of it is kept alive."""
    opt = q.optimize()
    e = opt.expr
    graph = e.__dask_graph__()
    sig = {"name": e._name, "npartitions": e.npartitions, "divisions": repr(tuple(e.divisions)), "keys": sorted(map(str, graph))}
    if deep:
        import dask
        parts = dask.get(graph, e.__dask_keys__())
        sig["lengths"] = [int(len(p)) if hasattr(p, "__len__") else 1 for p in parts]
        o2 = opt.optimize()
        sig["again"] = [o2.expr._name, o2.expr.npartitions]
    del opt, e, graph
    return sig


def _diff(a, b):
    for k in ("name", "npartitions", "divisions", "keys", "lengths", "again"):
        if k in a and k in b and a[k] != b[k]:
            if k == "keys":
                return "graph keys (%d vs %d; e.g. %s vs %s)" % (len(a[k]), len(b[k]), sorted(set(a[k]) - set(b[k]))[:1], sorted(set(b[k]) - set(a[k]))[:1])
            return "%s (%s vs %s)" % (k, str(a[k])[:120], str(b[k])[:120])
    return None


def fresh_signatures(dx, jobs):
    """Runs in a fresh interpreter: the plan of every job, no history actions (jobs in reverse order)."""
    out = {}
    for j in reversed(jobs):
        try:
            q = QUERIES[j["query"]][1](_read(dx, j["path"], j["reader"], j["cd"]))
            out[j["key"]] = plan_signature(q, deep=j.get("deep", False))
            del q
        except Exception as ex:  # noqa
            out[j["key"]] = {"error": "%s: %s" % (type(ex).__name__, str(ex)[:200])}
        gc.collect()
    return out


def _fresh(run, common, jobs):
    code = ("import sys, json\nsys.path.insert(0, %r)\nimport rt, c19_parquet\n"
            "jobs = json.load(open(%r))\nprint(json.dumps(c19_parquet.fresh_signatures(rt.dx, jobs)))\n")
    jf = os.path.join(os.path.dirname(jobs[0]["path"]), "jobs.json")
    json.dump(jobs, open(jf, "w"))
    env = dict(os.environ)
    env["PYTHONPATH"] = common.REPO
    p = subprocess.run([common.PY, "-c", code % (os.path.join(common.VERIF, "harness"), jf)], env=env, stdout=subprocess.PIPE, stderr=subprocess.PIPE, text=True, timeout=1200)
    if p.returncode != 0:
        run.broken_tie("parquet fresh-interpreter subprocess failed", p.stderr[-800:])
        return None
    return json.loads(p.stdout.strip().split("\n")[-1])


# ----------------------------------------------------------------------------- the family

class _Deck:
    """Draws without replacement from a reshuffled deck: every len(items) draws use every item once."""

    def __init__(self, rng, items):
        self.rng, self.items, self.left = rng, list(items), []

    def draw(self, n):
        assert n <= len(self.items)
        out, aside = [], []
        while len(out) < n:
            if not self.left:
                self.left = list(self.items)
                self.rng.shuffle(self.left)
            x = self.left.pop()
            (aside if x in out else out).append(x)
        self.left = [x for x in aside if x not in self.left] + self.left
        return out


def parquet_plan_histories(run):
    import common
    import rt
    from e2e import canon, try_, _short
    dx = rt.dx
    quick = run.tier == "quick"
    rng = run.rng
    tmp = tempfile.mkdtemp(prefix="c19_", dir=common.BUILD)
    t0, c0 = time.time(), time.process_time()
    stats = {"datasets": 0, "queries": 0, "plans_compared": 0, "sensitive_queries": 0, "fresh_compared": 0, "results_compared": 0, "skipped": 0, "actions_failed": 0}
    gc.collect()
    gc.freeze()            # what the check allocated so far is not ours to collect: keeps the gc.collect() calls below cheap
    try:
        specs = [make_spec(rng, k) for k in range(len(LAYOUTS) * (1 if quick else 5))]
        data = {}
        for s in specs:
            s["path"] = os.path.join(tmp, "ds%d" % s["id"])
            data[s["id"]] = pd.concat(write_dataset(s, s["path"]))
            s["colbytes"] = column_bytes(s["path"])
        aux = []                                     # the small datasets the "other datasets" action reads
        for k in range(12):
            s = make_spec(rng, 1000 + k, nfiles=2, layout="random")
            s["unit"], s["index"] = 600, True
            write_dataset(s, os.path.join(tmp, "aux%d" % k))
            aux.append(os.path.join(tmp, "aux%d" % k))
        stats["datasets"] = len(specs)
        jobs, first = [], {}
        qdeck, adeck = _Deck(rng, list(QUERIES)), _Deck(rng, list(ACTIONS))
        for s in specs:
            combos = [("arrow", False, 2), ("arrow", True, 1), ("fsspec", rng.choice([False, True]), 1)] if quick else \
                     [("arrow", False, 4), ("arrow", True, 3), ("fsspec", False, 2), ("fsspec", True, 2)]
            if not s["index"]:               # no index column in the files: nothing to calculate divisions from
                combos = [(r, False, n) for r, c, n in combos if quick or not c]
            for reader, cd, nq in combos:
                for qn in qdeck.draw(nq):
                    cols, mkq, oracle = QUERIES[qn]
                    spread = step_spread(s["colbytes"], cols)
                    sensitive = len(spread) > 1
                    key = "%d/%s/%s/%s" % (s["id"], reader, cd, qn)
                    case = {"kind": "parquet-history", "dataset": {k: v for k, v in s.items() if k not in ("path", "colbytes")}, "reader": reader, "calculate_divisions": cd, "query": qn,
                            "bucket_sizes_single_files_suggest": spread, "seed": run.seed}
                    tag = "read_parquet(%d files, layout %s, %s, calculate_divisions=%s) %s" % (s["nfiles"], s["layout"], reader, cd, qn)
                    q = mkq(_read(dx, s["path"], reader, cd))
                    base = try_(lambda: plan_signature(q, deep=True))
                    gc.collect()
                    if base[0] == "raise":
                        if "does not converge" in base[1]:
                            run.count(("pq-nonconv", key))
                            run.violation("optimize() of %s reports non-convergence: %s" % (tag, base[1]), case)
                        stats["skipped"] += 1
                        continue
                    base = base[1]
                    stats["queries"] += 1
                    stats["sensitive_queries"] += sensitive
                    first[key] = (base, case, tag)
                    jobs.append({"key": key, "path": s["path"], "reader": reader, "cd": cd, "query": qn, "deep": not quick})
                    # idempotence, and the partitions the plan declares are the partitions its graph computes
                    run.count(("pq-idempotent", key), nontrivial=sensitive)
                    if base["again"] != [base["name"], base["npartitions"]]:
                        run.violation("optimize(optimize(q)) of %s differs from optimize(q): %s vs %s" % (tag, base["again"], [base["name"], base["npartitions"]]), case)
                    elif base["npartitions"] != len(base["lengths"]):
                        run.violation("optimize() of %s: %d partitions declared, %d computed" % (tag, base["npartitions"], len(base["lengths"])), case)
                    # history: the session does something else, then the query is planned again
                    hist = adeck.draw(len(ACTIONS) if not quick else (6 if sensitive and reader == "arrow" else 2))
                    done = []
                    for an in hist:
                        act = try_(lambda: ACTIONS[an](dx, s["path"], reader, cd, aux))
                        stats["actions_failed"] += act[0] == "raise"
                        gc.collect()
                        done.append(an)
                        for who in ("same collection", "rebuilt query"):
                            run.count(("pq-history", key, tuple(done), who), nontrivial=sensitive)
                            stats["plans_compared"] += 1
                            qq = q if who == "same collection" else mkq(_read(dx, s["path"], reader, cd))
                            deep = an == hist[-1] and who == "rebuilt query"
                            now = try_(lambda: plan_signature(qq, deep=deep))
                            del qq
                            gc.collect()
                            c2 = dict(case, history=list(done), planned=who)
                            if now[0] == "raise":
                                run.violation("optimize() of %s succeeded first, but after %s it fails (%s): %s" % (tag, done, who, now[1]), c2)
                                continue
                            d = _diff(base, now[1])
                            if d:
                                run.violation("optimize() of %s is not the same plan every time: after the session did %s%s, the %s is optimized to a plan with different %s" % (
                                    tag, done, "" if act[0] == "ok" else " [the last one raised %s]" % act[1], who, d), c2)
                                break
                        else:
                            continue
                        break
                    # result of the plan that the whole history leaves
                    if oracle is not None:
                        run.count(("pq-result", key), nontrivial=sensitive)
                        stats["results_compared"] += 1
                        got = try_(lambda: canon(q.optimize().optimize().compute(), False, False))
                        exp = canon(oracle(data[s["id"]]), False, False)
                        if got[0] == "raise":
                            run.violation("optimize(optimize(q)).compute() of %s fails after %s: %s" % (tag, done, got[1]), dict(case, history=done))
                        elif got[1] != exp:
                            run.violation("optimize(optimize(q)).compute() of %s after %s gives %s, pandas on the written data %s" % (tag, done, _short(got[1]), _short(exp)), dict(case, history=done))
                    del q
                    gc.collect()
        # the same queries in a fresh interpreter (empty caches, no history)
        fresh = _fresh(run, common, jobs) if jobs else None
        if fresh is not None:
            for key, (base, case, tag) in first.items():
                run.count(("pq-fresh", key), nontrivial=len(case["bucket_sizes_single_files_suggest"]) > 1)
                stats["fresh_compared"] += 1
                f = fresh.get(key)
                if f is None or "error" in f:
                    run.violation("optimize() of %s succeeds in the session but fails in a fresh interpreter: %s" % (tag, f), dict(case, planned="fresh interpreter"))
                    continue
                d = _diff(base, f)
                if d:
                    run.violation("optimize() of %s: the session's first plan and the plan of a fresh interpreter differ in %s" % (tag, d), dict(case, planned="fresh interpreter"))
    finally:
        gc.unfreeze()
        shutil.rmtree(tmp, ignore_errors=True)
    run.section("parquet_plan_histories", readers=list(READERS), layouts=list(LAYOUTS), actions=len(ACTIONS), wall_s=round(time.time() - t0, 1),
                cpu_s_without_fresh_interpreter=round(time.process_time() - c0, 1), **stats)
