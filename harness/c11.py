"""C11 -- selecting partitions or leading/trailing rows commutes with the computation."""
import os
import tempfile

import common
from e2e import canon, concat_parts, exec_expr, try_, _short


def sources(rt, tmp):
    """(name, collection) for every kind of data source available offline; each with >= 4 partitions."""
    import dask
    import numpy as np
    import pandas as pd
    n = 24
    pdf = pd.DataFrame({"a": range(n), "b": [i % 5 for i in range(n)], "c": [float(i % 7) for i in range(n)]})
    out = []
    out.append(("from_pandas", rt.dx.from_pandas(pdf, npartitions=4)))
    out.append(("from_pandas unsorted", rt.dx.from_pandas(pdf.iloc[::-1], npartitions=4, sort=False)))
    out.append(("from_pandas divisions", rt.dx.repartition(pdf, [0, 5, 11, 17, 23])))
    arr = np.arange(48).reshape(24, 2)
    out.append(("from_array", rt.dx.from_array(arr, chunksize=6, columns=["a", "b"])))
    pieces = [pdf.iloc[i:i + 6] for i in range(0, n, 6)]
    out.append(("from_map", rt.dx.from_map(lambda i: pieces[i], [0, 1, 2, 3], meta=pdf.iloc[:0])))
    out.append(("from_delayed", rt.dx.from_delayed([dask.delayed(lambda p=p: p)() for p in pieces], meta=pdf.iloc[:0])))
    out.append(("from_graph (persist)", (rt.dx.from_pandas(pdf, npartitions=4) + 0).persist()))
    out.append(("legacy import", rt.dx.from_legacy_dataframe(rt.dx.from_pandas(pdf, npartitions=4).to_legacy_dataframe())))
    csvdir = os.path.join(tmp, "csv")
    os.makedirs(csvdir, exist_ok=True)
    for i, p in enumerate(pieces):
        p.to_csv(os.path.join(csvdir, "part%d.csv" % i), index=False)
    out.append(("read_csv", rt.dx.read_csv(os.path.join(csvdir, "part*.csv"))))
    pq = os.path.join(tmp, "pq")
    rt.dx.from_pandas(pdf, npartitions=4).to_parquet(pq)
    out.append(("read_parquet", rt.dx.read_parquet(pq)))
    out.append(("read_parquet arrow fs", rt.dx.read_parquet(pq, filesystem="arrow")))
    try:
        ts = rt.dx.datasets.timeseries(start="2000-01-01", end="2000-01-05", freq="6h", partition_freq="1d", dtypes={"a": int, "c": float}, seed=1)
        out.append(("timeseries", ts))
    except Exception:
        pass
    return out


def chains():
    """Operations the selection is pushed through: fn(collection) -> collection."""
    return [
        ("identity", lambda d: d),
        ("elemwise", lambda d: d + 1),
        ("filter+proj", lambda d: d[d.a > 2][["a"]]),
        ("assign", lambda d: d.assign(z=d.a * 2)),
        ("broadcast scalar", lambda d: d.a + d.a.sum()),
        ("broadcast mean frame", lambda d: d[["a"]] - d[["a"]].mean()),
        ("map_partitions", lambda d: d.map_partitions(lambda p: p.assign(n=len(p)))),
        ("two-level", lambda d: (d + 1).assign(w=1)[["w", "a"]]),
    ]


def selections(npart):
    sels = [[0], [npart - 1], [1, 2], list(range(npart)), [npart - 1, 0], [2, 1, 0, 3][:npart], [1, 1], [0, 0, 2], list(range(1, npart))]
    return [s for s in sels if all(i < npart for i in s)]


def fused_read_heads(run, rt, tmp):
    """Head / Tail over a multi-file parquet read that tuning fuses (FusedIO): the positions are those of the collection the user
    sees (defect D22, repaired: regressions/D22_C11.py), for a query that is not pushed into the read."""
    import pandas as pd
    pdf = pd.DataFrame({"a": range(24), "b": [i % 5 for i in range(24)], "c": [float(i % 7) for i in range(24)]})
    pq = os.path.join(tmp, "pq_d22")
    rt.dx.from_pandas(pdf, npartitions=4).to_parquet(pq)
    for reader in ("fsspec", "arrow"):
        d = rt.dx.read_parquet(pq, **({"filesystem": "arrow"} if reader == "arrow" else {}))
        for qn, q in (("a + a.sum()", d.a + d.a.sum()), ("a + 1", d.a + 1), ("[['a']].cumsum()", d[["a"]].cumsum())):
            full = try_(lambda: exec_expr(q.expr.lower_completely()))
            if full[0] == "raise":
                run.broken_tie("scenario does not compute", {"tag": qn, "err": full[1]})
                continue
            full = full[1]
            for n_rows, k in ((2, q.npartitions), (7, 2), (5, 1), (9, 3)):
                run.count(("fused-head", reader, qn, n_rows, k))
                r = try_(lambda: q.head(n_rows, npartitions=k, compute=False).compute())
                exp = concat_parts(full[:k]).head(n_rows)
                case = {"kind": "head-fused", "reader": reader, "query": qn, "n": n_rows, "npartitions": k}
                if r[0] == "raise":
                    run.violation("read_parquet(4 files, %s) %s: head(%d, npartitions=%d) raises %s" % (reader, qn, n_rows, k, r[1]), case)
                elif canon(r[1]) != canon(exp):
                    run.violation("read_parquet(4 files, %s) %s: head(%d, npartitions=%d) returns %s, expected %s" % (reader, qn, n_rows, k, _short(canon(r[1])), _short(canon(exp))), case)
            for n_rows in (2, 9):
                run.count(("fused-tail", reader, qn, n_rows))
                r = try_(lambda: q.tail(n_rows, compute=False).compute())
                exp = full[-1].tail(n_rows)
                case = {"kind": "tail-fused", "reader": reader, "query": qn, "n": n_rows}
                if r[0] == "raise":
                    run.violation("read_parquet(4 files, %s) %s: tail(%d) raises %s" % (reader, qn, n_rows, r[1]), case)
                elif canon(r[1]) != canon(exp):
                    run.violation("read_parquet(4 files, %s) %s: tail(%d) returns %s, expected %s" % (reader, qn, n_rows, _short(canon(r[1])), _short(canon(exp))), case)


def run(run):
    import rt
    import pandas as pd
    run.trusted = common.COMMON_TRUSTED + [
        "pyarrow / csv readers and the timeseries generator are external: compared only through their partitions",
    ]
    run.rule = ("every offline source kind (in-memory frames, arrays, function maps, delayed, imported graphs, csv, parquet x2 readers, timeseries) x chains of partitionwise operations with broadcast operands x partition index sets "
                "(single, slices, reordered, repeated): partitions[...] / get_partition / to_delayed vs the corresponding partitions of the fully computed collection; shuffles and broadcast joins with output subsets; "
                "head(n, npartitions=k) / tail(n) vs first/last rows of the computed partitions, incl. sorted frames (c11_sorted: sort_values / set_index options x key kinds x 1..70 input partitions and uneven pieces "
                "x selections pushed through element-wise operations vs pandas, ties free); non-trivial = selection of >= 2 partitions or head/tail through an operation")
    run.proofs("PropC11.v")
    quick = run.tier == "quick"
    tmp = tempfile.mkdtemp(prefix="c11_", dir=os.path.join(common.BUILD))
    nsel = nhead = 0
    try:
        srcs = sources(rt, tmp)
        for sname, src in srcs:
            for cname, chain in chains():
                if quick and (hash((sname, cname)) % 3 == 1) and sname not in ("from_pandas", "from_array"):
                    continue
                coll = try_(lambda: chain(src))
                if coll[0] == "raise":
                    continue
                coll = coll[1]
                # reference: the partitions of the collection as the user sees it (logical partitioning, lowered without optimization)
                full = try_(lambda: exec_expr(coll.expr.lower_completely()))
                if full[0] == "raise":
                    continue
                full = full[1]
                npart = len(full)
                tag = "%s | %s" % (sname, cname)
                if coll.npartitions != npart:
                    run.violation("%s: npartitions %d but %d computed" % (tag, coll.npartitions, npart), {"kind": "npartitions", "tag": tag})
                for sel in selections(npart):
                    nsel += 1
                    run.count(("sel", tag, tuple(sel)), nontrivial=len(sel) >= 2)
                    for fuse in (False, True):
                        got = try_(lambda: exec_expr(coll.partitions[sel].optimize(fuse=fuse).expr))
                        if got[0] == "raise":
                            run.violation("%s: partitions[%s] (fuse=%s) raises %s" % (tag, sel, fuse, got[1]), {"kind": "partitions", "tag": tag, "sel": sel})
                            break
                        if sname.startswith("read_parquet"):
                            # multi-file fused reads (FusedIO) may put several selected partitions into one task: rows and order must match
                            ok = canon(concat_parts(got[1])) == canon(concat_parts([full[i] for i in sel]))
                        else:
                            ok = len(got[1]) == len(sel) and all(canon(g) == canon(full[i]) for g, i in zip(got[1], sel))
                        if not ok:
                            run.violation("%s: partitions[%s] (fuse=%s) is not the corresponding partitions of the computed collection" % (tag, sel, fuse),
                                          {"kind": "partitions", "tag": tag, "sel": sel})
                            break
                # get_partition and to_delayed
                gp = try_(lambda: coll.get_partition(npart - 1).compute())
                if gp[0] == "raise" or canon(gp[1]) != canon(full[npart - 1]):
                    run.violation("%s: get_partition(%d) differs / raises" % (tag, npart - 1), {"kind": "get_partition", "tag": tag})
                td = try_(lambda: [d.compute() for d in coll.to_delayed()])
                if sname.startswith("read_parquet") and td[0] == "ok":
                    td_ok = canon(concat_parts(td[1])) == canon(concat_parts(full))
                else:
                    td_ok = td[0] == "ok" and len(td[1]) == npart and all(canon(x) == canon(y) for x, y in zip(td[1], full))
                if not td_ok:
                    run.violation("%s: to_delayed() differs from the computed partitions%s" % (tag, (": " + td[1]) if td[0] == "raise" else ""), {"kind": "to_delayed", "tag": tag})
                # head / tail
                for n_rows in (2, 7):
                    for k in (1, 2, npart, -1):
                        if quick and k == 2 and n_rows == 7:
                            continue
                        nhead += 1
                        run.count(("head", tag, n_rows, k), nontrivial=cname != "identity")
                        kk = npart if k == -1 else k
                        exp = concat_parts(full[:kk]).head(n_rows)
                        got = try_(lambda: coll.head(n_rows, npartitions=k, compute=False).compute())
                        if got[0] == "raise":
                            run.violation("%s: head(%d, npartitions=%d) raises %s" % (tag, n_rows, k, got[1]), {"kind": "head", "tag": tag, "n": n_rows, "npartitions": k})
                        elif canon(got[1]) != canon(exp):
                            run.violation("%s: head(%d, npartitions=%d) returns %s, first rows of the first %d partitions are %s" % (tag, n_rows, k, _short(canon(got[1])), kk, _short(canon(exp))),
                                          {"kind": "head", "tag": tag, "n": n_rows, "npartitions": k})
                    exp = full[-1].tail(n_rows)
                    got = try_(lambda: coll.tail(n_rows, compute=False).compute())
                    if got[0] == "raise":
                        run.violation("%s: tail(%d) raises %s" % (tag, n_rows, got[1]), {"kind": "tail", "tag": tag})
                    elif canon(got[1]) != canon(exp):
                        run.violation("%s: tail(%d) differs from the last rows of the last partition" % (tag, n_rows), {"kind": "tail", "tag": tag})
        # nested heads / tails (merged into one node by the optimizer): the inner selection produces ONE partition, of which the
        # outer takes its rows -- for all combinations of n and npartitions, with and without an operation in between
        import pandas as pd
        hp = pd.DataFrame({"a": range(40), "b": [i % 7 for i in range(40)]})
        hd = rt.dx.from_pandas(hp, npartitions=8)
        hparts = [hp.iloc[i * 5:(i + 1) * 5] for i in range(8)]
        for n1, k1 in ((12, 3), (12, 2), (7, 2), (3, 1), (40, -1), (11, 8), (-3, 1)):   # (a negative n over several partitions is not "the first n rows": left out)
            inner_exp = pd.concat(hparts if k1 == -1 else hparts[:k1]).head(n1)
            for n2, k2 in ((9, 1), (12, -1), (5, 1), (2, 1), (-2, 1)):
                for mid, f in (("", lambda x: x), ("+1 ", lambda x: x + 1)):
                    nhead += 1
                    run.count(("nested-head", n1, k1, n2, k2, mid))
                    exp = f(inner_exp).head(n2)
                    got = try_(lambda: f(hd.head(n1, npartitions=k1, compute=False)).head(n2, npartitions=k2, compute=False).compute())
                    case = {"kind": "nested-head", "inner": [n1, k1], "outer": [n2, k2], "between": mid}
                    if got[0] == "raise":
                        run.violation("head(%d, npartitions=%d) %sthen head(%d, npartitions=%d) raises %s" % (n1, k1, mid, n2, k2, got[1]), case)
                    elif canon(got[1]) != canon(exp):
                        run.violation("head(%d, npartitions=%d) %sthen head(%d, npartitions=%d) returns %s, expected %s" % (n1, k1, mid, n2, k2, _short(canon(got[1])), _short(canon(exp))), case)
        for n1 in (7, 3, -2):
            for n2 in (4, 2, -1):
                nhead += 1
                run.count(("nested-tail", n1, n2))
                exp = hparts[-1].tail(n1).tail(n2)
                got = try_(lambda: hd.tail(n1, compute=False).tail(n2, compute=False).compute())
                if got[0] == "raise":
                    run.violation("tail(%d) then tail(%d) raises %s" % (n1, n2, got[1]), {"kind": "nested-tail", "n": [n1, n2]})
                elif canon(got[1]) != canon(exp):
                    run.violation("tail(%d) then tail(%d) returns %s, expected %s" % (n1, n2, _short(canon(got[1])), _short(canon(exp))), {"kind": "nested-tail", "n": [n1, n2]})
        # shuffles / joins with output subsets, sorted heads
        n = 40
        pdf = pd.DataFrame({"a": range(n), "b": [i % 7 for i in range(n)], "c": [(i * 7) % 11 for i in range(n)]})
        small = pd.DataFrame({"b": range(7), "v": [10 * i for i in range(7)]})
        df = rt.dx.from_pandas(pdf, npartitions=5)
        ds1 = rt.dx.from_pandas(small, npartitions=1)
        ds2 = rt.dx.from_pandas(small, npartitions=2)
        subsets = {
            "shuffle tasks": df.shuffle("b", shuffle_method="tasks"),
            "shuffle tasks staged": df.shuffle("b", npartitions=9, shuffle_method="tasks", max_branch=2),
            "shuffle disk": df.shuffle("b", shuffle_method="disk"),
            "merge single-partition right": df.merge(ds1, on="b"),
            "merge broadcast=True": df.merge(ds2, on="b", broadcast=True, shuffle_method="tasks"),
            "merge broadcast left-join": df.merge(ds2, on="b", how="left", broadcast=True, shuffle_method="tasks"),
            "merge broadcast left": ds2.merge(df, on="b", how="right", broadcast=True, shuffle_method="tasks"),
            "merge hash": df.merge(ds2, on="b", broadcast=False, shuffle_method="tasks"),
            "shuffle then elemwise": df.shuffle("b", shuffle_method="tasks") + 1,
        }
        for tag, coll in subsets.items():
            full = try_(lambda: exec_expr(coll.optimize(fuse=False).expr))
            if full[0] == "raise":
                run.broken_tie("scenario does not compute", {"tag": tag, "err": full[1]})
                continue
            full = full[1]
            npart = len(full)
            for sel in selections(npart) + [[npart - 2]]:
                nsel += 1
                run.count(("subset", tag, tuple(sel)), nontrivial=True)
                got = try_(lambda: exec_expr(coll.partitions[sel].optimize().expr))
                if got[0] == "raise":
                    run.violation("%s: partitions[%s] raises %s" % (tag, sel, got[1]), {"kind": "subset", "tag": tag, "sel": sel})
                elif len(got[1]) != len(sel) or any(canon(g, False, False) != canon(full[i], False, False) for g, i in zip(got[1], sel)):
                    run.violation("%s: partitions[%s] is not the corresponding partitions of the full result" % (tag, sel), {"kind": "subset", "tag": tag, "sel": sel})
        for by in ("c", "b"):
            for nr in (3, 8):
                nhead += 1
                run.count(("sorted-head", by, nr))
                for nm, q, exp in (("sort_values.head", df.sort_values(by).head(nr, compute=False), pdf.sort_values(by, kind="stable").head(nr)),
                                   ("sort_values.tail", df.sort_values(by).tail(nr, compute=False), pdf.sort_values(by, kind="stable").tail(nr)),
                                   ("set_index.head", df.set_index(by).head(nr, compute=False), pdf.set_index(by).sort_index(kind="stable").head(nr)),
                                   ("set_index.tail", df.set_index(by).tail(nr, compute=False), pdf.set_index(by).sort_index(kind="stable").tail(nr)),
                                   ("set_index(drop=False).head", df.set_index(by, drop=False).head(nr, compute=False), pdf.set_index(by, drop=False).sort_index(kind="stable").head(nr)),
                                   ("set_index(drop=False).tail", df.set_index(by, drop=False).tail(nr, compute=False), pdf.set_index(by, drop=False).sort_index(kind="stable").tail(nr))):
                    got = try_(lambda: q.compute())
                    if got[0] == "raise":
                        run.violation("%s(%d) by %s raises %s" % (nm, nr, by, got[1]), {"kind": "sorted-head", "name": nm})
                        continue
                    # ties among equal keys may be broken differently: compare the key column and the multiset of rows
                    keycol = (lambda x: list(x[by]) if by in x.columns else list(x.index))
                    if list(got[1].columns) != list(exp.columns):
                        run.violation("%s(%d) by %s returns columns %s, expected %s" % (nm, nr, by, list(got[1].columns), list(exp.columns)), {"kind": "sorted-head", "name": nm, "by": by, "n": nr})
                    if keycol(got[1]) != keycol(exp):
                        run.violation("%s(%d) by %s returns keys %s, expected %s" % (nm, nr, by, keycol(got[1]), keycol(exp)), {"kind": "sorted-head", "name": nm, "by": by, "n": nr})
        fused_read_heads(run, rt, tmp)
        import select_layer
        select_layer.select_layer(run, rt, quick)
        # head / tail of sorted frames as tree reductions over 1 .. 130 input partitions (0, 1, 2 combine levels) vs pandas
        import c11_sorted
        c11_sorted.sorted_family(run, rt, quick)
        run.section("selections", partition_selections=nsel, head_tail_cases=nhead, sources=[s for s, _ in srcs])
        run.sample({"source": "from_array(chunksize=6)", "chain": "d + 1", "selection": [3, 0], "head": {"n": 7, "npartitions": 2}})
    finally:
        import shutil
        shutil.rmtree(tmp, ignore_errors=True)


def replay(path):
    """./check C11 --replay file: re-run one case of the sorted-selection family (the other families are replayed by the check itself)."""
    import json
    import rt
    case = json.load(open(path)).get("case") or {}
    if case.get("kind") != "sorted-selection":
        print("C11 replay: cases of kind %r are re-run by ./check C11" % case.get("kind"))
        return 2
    import c11_sorted
    r = c11_sorted.check_case(case, rt.dx)
    if r is not None and r[0] == "violation":
        print("VIOLATION property=C11 replay=%s: %s" % (path, r[1]))
        return 1
    print("C11 replay ok%s" % ("" if r is None else " (%s)" % r[1]))
    return 0
