"""Writes MANIFEST.json from the table below (kept in one place so it stays valid)."""
import json, os
V = os.path.dirname(os.path.dirname(os.path.abspath(__file__)))
ALL = ["C%02d" % i for i in range(1, 20)]
COMMON_NOTE = ("Trusted: Coq 8.16.1 kernel (+vm_compute), extraction with ExtrOcamlBasic + ocaml/driver.ml, the harness exporters; the Gallina model is hand-written and tied to /repo by the "
               "correspondence runs listed in the evidence; pandas / dask task functions enter the theorems as hypotheses and are only differential-tested. ")
def C(tech, text, note, ref):
    return dict(tech=tech, text=text, note=COMMON_NOTE + note, ref=ref)
CHECKS = {
 "C01": C("Coq proof: verified rewrite-step checker (rule_ok_sound, step_in_context_sound) + OR-factoring + translation validation of every logged real rewrite step; optimized-vs-unoptimized differential on generated programs",
          "Theorems over the plan language of coq/Plan.v: every rewrite step accepted by the verified checker preserves the value of the whole plan on all inputs and never turns a defined query into an error; every _simplify_up/_simplify_down step of the fragment logged from the real optimizer is exported and fed to the extracted checker on every run (unjustified step = broken tie, then the two plans are executed to find a failing input). Partial: rule families outside the fragment are covered by the differential only.",
          "den of Plan.v models pandas on integer-valued data with missing values.", "DESIGN.md section 6 C01"),
 "C03": C("Coq proof: or_factoring_sound (all And/Or trees, Kleene 3-valued), dnf_sound / refuted corner, filter-squash schema S10, T-GEN obligation filter_flags_reviewed over the regenerated class table; exhaustive-in-bound correspondence of rewrite_filters; scenario grid vs pandas; cast grid (filters above every numeric astype on wrapping/rounding data); regression corpus D46-D48, D84",
          "OR-factoring proved for every predicate tree and every three-valued valuation and compared exhaustively (all trees up to 4/5 leaves) with the real rewrite_filters; reader filters in DNF proved equal to pandas for !=-free predicates (the != corner is a proved refutation = known finding D7); filter squashing validated step-by-step by the verified checker; filters crossing every operator kind x predicate x consumer x nulls and the full join table are compared with pandas.",
          "Structural equality stands for _name equality (C08).", "DESIGN.md section 6 C03"),
 "C04": C("Coq proof: projection-pushdown schemas S1-S9 of the verified step checker (values, labels, order, definedness) + schema_sound; translation validation of logged steps; scenario grid and widening differential; source sweep (8 source kinds x ordered selections of unsorted labels); regression corpus D52, D54-D65",
          "Every projection-pushdown step of the fragment produced by the real optimizer is validated by the verified checker (theorems: value, labels and order preserved, no column missing/duplicated, also inside a context); operators outside the fragment (merge suffixes, prefix/suffix, groupby/sort/shuffle keys ...) by an operator x selection x consumer grid against pandas; adding unused source columns must not change results.",
          "", "DESIGN.md section 6 C04"),
 "C05": C("Coq proof: determinacy / progress / complete_runs_agree over arbitrary dependency-respecting schedules + disk_route; per-graph certificates by verified wf_check; randomized and adversarial schedules with argument fingerprints on the real graphs; demand-driven (depth-first from the outputs) schedule; disk shuffles with max_branch; caller's source objects fingerprinted before from_pandas",
          "Determinacy and deadlock-freedom are proved for every well-formed graph and every schedule; the hypothesis (pure task functions) is observed on the real system: each workload graph is executed under FIFO/LIFO/reverse/random topological orders with fingerprints of every task argument before and after the call, and under the threaded scheduler with up to 16 threads.",
          "Real thread interleavings, the GIL, partd I/O: observed only.", "DESIGN.md section 6 C05"),
 "C06": C("Coq proof (partial: merge, groupby divisions and the quantile computation of set_index divisions are outside the model): truthfulness of the reported divisions preserved by every modelled derivation (partition selections, partitionwise operators, fused reads, repartition-to-fewer, head/tail, concat) for all divisions/partitions/selections, refutations of the pre-fix formulas, length push-down schema S13, repartition partition counts; T-GEN obligations (no raw operand _divisions() call, length-preserving flags); T-LAYER correspondence of the real _divisions() formulas with the extracted model; differential: reported npartitions/divisions/lengths vs every computed partition at 5 plan stages",
          "48 theorems in coq/PropC06.v over Divisions.v (truthful = the property's own statement); the real Partitions/PartitionsFiltered/BlockwiseHead/Head/Tail/RepartitionToFewer/Concat/FusedIO _divisions() are compared with the extracted model on ~1200 generated (divisions, selection/boundaries/operands) cases per run, a disagreement is tested on the computed partitions with the verified truthfulb; divisions/npartitions of ~60 derivations x 4 index dtypes (duplicates straddling borders) x partitionings, the same derivations on partition selections, index merges against single-partition frames, presorted pieces, and every variable of generated programs are compared at logical/simplified/lowered/optimized/fused stage with the index range and count of each computed partition; len/shape/size from metadata vs computed.",
          "sorted_division_locations (dask) is an oracle; merge/groupby divisions are covered by the differential only; set_index divisions: their use for routing is modelled (SetIndex.v), their computation from quantiles is not.", "DESIGN.md section 6 C06"),
 "C07": C("Coq proof: schema_sound and schema preservation of every accepted rewrite step (Plan.v); differential: _meta vs each computed partition on dtype mixes incl. empty / all-null partitions; label indexing with column indexers; regression corpus D76-D78",
          "For the fragment: the static schema equals the schema of the computed value and optimization never changes it (proved). For everything else: container kind, labels, order, names and dtype kinds of _meta vs every computed partition and the final result for ~65 derivations over int/float/bool/str/category/datetime columns, at every stage.",
          "_meta derivation by running pandas on stand-ins is not modelled.", "DESIGN.md section 6 C07"),
 "C09": C("Coq proof: wf_check soundness (closed, acyclic, unique keys, outputs computable) as per-graph certificate; pairwise layer conflicts (also on the C08 catalogue and on two variants of one operation in one graph), planner-object scan, serialization guard on every real graph; staged shuffles to fewer/equal/more outputs, joint repartitionings",
          "Every graph of generated programs x 6 stages plus imported / partition-filtered / nested-fused sources is exported with a candidate topological order and certified by the extracted verified wf_check; layers of all expressions are compared pairwise for conflicting tasks under one key; task tuples are scanned for expression/collection objects and pickled under dask-expr-no-serialize.",
          "Key extraction from task tuples follows dask.core semantics (harness/graphs.py).", "DESIGN.md section 6 C09"),
 "C10": C("Coq proof (tree_layer_correct, unbounded in partitions and split_every; staged_route unbounded in max_branch) + exhaustive-in-bound layer correspondence + knob-grid differential; presorted fast path (MinMax.v theorems, T-LAYER of _calculate_divisions); dropna=False and order-dependent groupbys; regression corpus D83",
          "Theorems in coq/PropC10.v over the executable model of TreeReduce._layer (every partition count, every split_every>=2 or False); model tied to /repo by comparing the real _layer dict with the extracted model for every (n, split_every) in the bound, and the property's own oracle (knob grid vs knob-free baseline) on the real implementation.",
          "pandas chunk/combine/aggregate functions enter as the hypothesis agg_combine (proved for sum/count/min/max/len over Z with NA).", "DESIGN.md section 6 C10"),
 "C12": C("Coq proof: simple_route, staged_route (unbounded: all n_in<=n_out, branch factors, stage counts, output subsets, regroup step), disk_route, shuffle_permutation + exhaustive-in-bound layer correspondence + data oracle; regression corpus D82",
          "All four routing theorems are proved without bounds over the executable model of SimpleShuffle/TaskShuffle/DiskShuffle._layer; the real layer dict equals the model for all (n_in<=n_out<=N) x max_branch x output subsets; on real data: permutation, co-location and identical partition numbers across frames with int/float/int32/categorical/index keys.",
          "shuffle_group/partd/pandas hashing are modelled by `piece` (rows grouped by (target mod np)//k^stage mod k); stage arithmetic uses floats: contract-checked.", "DESIGN.md section 6 C12"),
 "C13": C("Coq proof: plan_ok_sound (unbounded), planner correct unbounded for strictly increasing divisions, kernel-checked for all vectors over 8 values (484128 triples) otherwise; fewer/more unbounded; exhaustive-in-bound layer correspondence + data oracle + per-run certification of every real plan; joint evaluation of several repartitionings of one frame",
          "The model mirrors RepartitionDivisions._layer line by line and equals the real dict on every (old, new, force) over the domain; every real plan is additionally certified by the extracted verified plan_ok; real computed partitions are compared with their target ranges exhaustively; count-based paths proved for all boundary lists meeting a contract that is checked on the real float arithmetic.",
          "boundary_slice/_concat/split_evenly are hypotheses; float boundary arithmetic and np.interp: contract-checked.", "DESIGN.md section 6 C13"),
 "C14": C("Coq proof: fused_task_eq (any nesting depth, DAG shape, broadcast members/deps, every partition index) + refuted wrong binding order; structural correspondence of every real Fused._task; valid_group certificate; fuse-vs-unfused differential per partition; stacked fusion passes, label indexing and placeholder-like literals inside groups; regression corpus D41, D44, D80",
          "The sub-graph built by Fused._task equals the model for every fused node met (generated programs + targeted nested/broadcast/shared shapes) and every real group is certified by valid_group, the hypothesis of the proved theorem; npartitions, divisions, meta and each output partition are compared between fuse=True and fuse=False.",
          "dask.core.get on the inner dict is modelled by exec_fused.", "DESIGN.md section 6 C14"),
 "C19": C("Coq proof: driver fixpoint / idempotence / termination-from-measure theorems (Drivers.v) and a proved strictly decreasing measure for every accepted rewrite step (PlanMeasure.v); observation of determinism across interpreters and hash seeds; optimize() of one query at different moments of a session",
          "A converged driver result is a fixed point and re-optimizing it returns it unchanged (proved for any pass function); every real step of the fragment satisfies the strict schema whose measure provably decreases (also in context); determinism and idempotence of the real optimize() are observed on generated programs, across 4 fresh interpreters with different PYTHONHASHSEED.",
          "That simplify_once is a deterministic function of the plan is observed, not proved; joint measure for rule families outside the fragment is open (partial).", "DESIGN.md section 6 C19"),
}

CHECKS.update({
 "C02": C("Coq proof: partition-independence theorems (tree reductions for every partitioning and split_every, shuffle co-location, repartition plans, alignment of differently partitioned operands: Align.v, partition-wise = global for index-local operations) + exhaustive enumeration of ALL 2^(n-1) cuts of the input (known/unknown divisions, empty partitions, independent cuts of both inputs) vs pandas; regression corpus D45, D49-D51",
          "Theorems are universally quantified over the list of partitions (any count, boundaries, empty ones). On the real system ~40 single-input and 13 two-input operator families are computed for every cut of a 6-row (resp. 5x4-row) table, with known and unknown divisions and with empty partitions, and compared with pandas on the concatenated input; explicit refusals (ValueError about divisions) are accepted, silent differences are not. Partial: families whose partition logic is pandas code are covered by the sweep only.",
          "pandas is the oracle.", "DESIGN.md section 6 C02"),
 "C08": C("Coq proof: name_collision_iff (given a collision-free fixed-width token) + reflective obligation heads_unambiguous over the class table regenerated from the source on every run; observation across interpreters / hash seeds / construction orders; task keys compared across catalogue queries; single-parameter variants of parquet reads and unsorted / array / map sources in the catalogue; regression corpus D79",
          "The class table (357 classes: name head, arity, flags) is regenerated from /repo by introspection+ast on every run and the obligation that no two classes share a static head and arity outside the reviewed list is re-proved by computation; names of every node and all graph keys of a 75-query catalogue are compared across fresh interpreters with different PYTHONHASHSEED, permuted construction order and interleaved unrelated queries; distinct queries / single-parameter variations / different data must give distinct names.",
          "tokenize being deterministic and collision-free is assumed (hypotheses tok_inj, tok_len).", "DESIGN.md section 6 C08"),
 "C11": C("Coq proof (partial): output-subset selection of every shuffle implementation (staged_route / simple_route for arbitrary subsets), truthful divisions of partition selections / head / tail; differential: partitions / get_partition / to_delayed / head / tail vs the computed partitions for 12 source kinds x 8 operation chains x 9 index sets; nested heads/tails; T-SRC theorems about the translated Partitions/Head/Tail divisions; regression corpus D42, D43, D72-D74",
          "Every offline source kind (in-memory, array, from_map, delayed, imported graph, legacy, csv, parquet x2, timeseries) x chains with broadcast operands x single/slice/reordered/repeated index sets: the selected partitions equal the corresponding partitions of the computed collection; head(n, npartitions=k) / tail(n) equal the first/last rows; shuffles, hash and broadcast joins with output subsets; sorted heads.",
          "Head/tail over fused multi-file parquet reads (defect D22, repaired) are checked for both readers.", "DESIGN.md section 6 C11"),
 "C15": C("Coq proof: lru_transparent / fail_atomic (any capacity, any history) over the op-for-op model of class LRU, T-GEN obligation state_free_table + exhaustive-in-bound correspondence with the real class; session histories vs fresh-interpreter baselines; presorted column sorted both ways with per-partition observations; regression corpus D81",
          "The LRU model equals the real class on ALL operation sequences up to length 4/5 over 3 keys and capacities 1-3; random session histories (build / optimize / compute / discard+gc / injected failures / cache eviction by 13 extra set_index queries / dataset rewrite) over a pool of 26 queries are compared observation by observation with the same query alone in a fresh interpreter.",
          "GC timing and file-system mtime granularity are runtime behaviour (observed).", "DESIGN.md section 6 C15"),
 "C16": C("Coq proof: state_free_table (reflective, over the class table regenerated from the source: no graph/meta/divisions method reads process-global mutable state without fallback) + cache transparency; pickle round trip into a fresh interpreter; unsorted-index / array / parquet (both readers) sources",
          "T-GEN discovers the module-level mutable containers and which _divisions/_meta/_layer/_task/_lower methods read them; the obligation is re-proved on every run. Every catalogue query in 4 forms (built / optimized / optimized unfused / lowered) is pickled, loaded in a fresh interpreter with a different hash seed and compared (name, npartitions, divisions, schema, result).",
          "pickle and the process boundary are observed.", "DESIGN.md section 6 C16"),
 "C17": C("Coq proof: den_congruence (replacing a sub-plan by anything with the same value leaves every context unchanged) + soundness of optimizing the continuation; per-graph wf certificates (C09); cut-point differential; cuts over projected multi-file parquet reads (fused partitions)",
          "Generated programs x every intermediate variable as cut point x {persist, delayed round trip with/without divisions, legacy round trip, optimize-then-continue}: final result, schema and divisions vs the uncut run.",
          "Cuts that turn a co-aligned operand into a foreign one are alignment queries (C02) and are excluded.", "DESIGN.md section 6 C17"),
 "C18": C("Coq proof: dnf_sound (every filter handed to the reader keeps exactly pandas' rows, incl. missing values), combine_sound, refutation of pushing !=, fused_truthful / fusion_buckets_concat; structural correspondence of _DNF.extract_pq_filters; dataset sweep vs in-memory pandas; T-LAYER of _divisions_from_statistics (exhaustive over small statistics) with MinMax.v theorems",
          "The DNF model equals the real class on random comparison/and/or trees; datasets (4 dtypes incl. nulls, 3 index kinds, 1-6 files) x both readers x calculate_divisions x projections x 16 filter trees x user filters x partition subsets: pushed-down plan vs the same work done in memory on the data read in full; round trip; lengths; overwrite refusal; unsorted statistics.",
          "pyarrow's reader semantics is the assumed table arrow_keep, validated on real files.", "DESIGN.md section 6 C18"),
})


# families added after the fourth seeding round (DESIGN.md section 9) and the models added late (Align.v, Select.v)
EXTRA_TECH = {
 "C01": "; positional row-selection chains (c01_rows.py); Select.v rewrite-rule theorems (head / partitions push-down, Head(SortValues) -> NFirst); concat-selection family c01_concat.py vs the unoptimized plan",
 "C02": "; Select.v nfirst_tree_correct (n smallest rows for every partitioning, exact); reduction trees at every depth (reduce_layer.py), T-LAYER align_layer / select_layer",
 "C03": "; filters crossing reset_index (c03_reset.py); reader hand-over family c03_reader.py (predicate trees over reader-expressible and other atoms, both parquet readers)",
 "C04": "; labels of column-wise statistics (c04_labels.py)",
 "C05": "; hash partitioning by keys with a second consumer of the keys (c05_keys.py); reader-option objects embedded in read tasks (c05_readers.py, private-inputs executor)",
 "C06": "; divisions computed from ordered data (c06_resolve.py); Align.v divisions theorems with T-LAYER align_layer; SetIndex.v (routing of set_index / sort_values on divisions: set_index_truthful, set_index_partition_exact) with T-LAYER setindex_layer",
 "C07": "; concat lowering paths (c07_concat.py); column selections absorbed by 22 source variants (c07_sources.py), node-by-node declared vs computed schema",
 "C08": "; histories of queries sharing argument objects vs a fresh interpreter (c08_alias.py)",
 "C09": "; repartition layers on explicit uneven layouts (c09_repartition.py); groupby plans (c09_groupby.py) with deep planner-object scan and cloudpickle under the no-serialize guard",
 "C10": "; sorts for every choice of divisions (SetIndex.v: sort_partitions_ordered, sort_desc_partitions_ordered; T-LAYER setindex_layer function_layer / sort_order_layer); sorting under the execution knobs (c10_sorts.py); count / distinct reductions with NA-handling options under every knob setting (c10_counts.py)",
 "C11": "; head / tail of sorted frames as tree reductions over 1-70 partitions (c11_sorted.py); Select.v lowering theorems for head / tail with T-LAYER select_layer (shape of the lowered expression and rows vs the extracted model)",
 "C12": "; joins as consumers of co-location (c12_joins.py) and the contract sweep of the splitting functions",
 "C13": "; repartitioning of derived collections (c13_hist.py)",
 "C15": "; sessions over sibling queries with almost-equal operands (c15_siblings.py); T-GEN global_state_reviewed; sessions on shared sub-expressions (c15_shared.py)",
 "C16": "; option-carrying operators pickled before and after use (c16_groupby.py); T-GEN global_state_reviewed; queries planned under an ambient configuration (c16_ambient.py)",
 "C17": "; keyword steps after a cut over the four alignment lowerings (c17_kwargs.py); cuts in front of a multi-input step (c17_multi.py)",
 "C18": "; parquet piece layouts (c18_layout.py: row groups, split_row_groups, aggregate_files, blocksize, lengths)",
 "C19": "; consumers of the rows of row-wise combinations: termination / determinism / idempotence (c19_rowcount.py); parquet plan histories (c19_parquet.py)",
}

def main():
    checks = []
    for pid in ALL:
        if pid not in CHECKS:
            continue
        c = CHECKS[pid]
        checks.append({
            "property_id": pid,
            "quick_cmd": "./check %s --tier quick" % pid,
            "thorough_cmd": "./check %s --tier thorough" % pid,
            "evidence_file": "/verif/evidence/%s.json" % pid,
            "replay_cmd_template": "./check %s --replay {path}" % pid,
            "engine": "coq-model",
            "level_claimed": {"category": "proof", "text": c["text"], "design_ref": c["ref"]},
            "level_note": c["note"],
            "technique": c["tech"] + EXTRA_TECH.get(pid, ""),
        })
    m = {
        "version": 1,
        "setup_cmd": "cd /verif && ./check --setup",
        "hooks": {"guard": "DASK_EXPR_VERIF", "enable": "no source hooks: the harness monkeypatches dask_expr in its own process when DASK_EXPR_VERIF=1 (set by ./check)",
                  "baseline_off_cmd": "cd /repo && /venv/bin/python -m pytest -q -p no:cacheprovider --timeout=900 --continue-on-collection-errors",
                  "source_commits": [], "add_only": True},
        "engines": [{"name": "coq-model", "path": "/verif/coq", "serves_properties": sorted(CHECKS),
                     "kind_free_text": "Coq 8.16 development (hand-written executable Gallina model + theorems), extracted to an OCaml model server; tied to /repo by generated tables and correspondence runs"}],
        "checks": checks,
        "not_applicable": [{"property_id": p, "reason": "check not built yet in this round (work in progress; see DESIGN.md section 6)"} for p in ALL if p not in CHECKS],
        "notes": "See DESIGN.md. known_findings.json lists genuine defects (known / fixed).",
    }
    json.dump(m, open(os.path.join(V, "MANIFEST.json"), "w"), indent=1)
if __name__ == "__main__":
    main()
