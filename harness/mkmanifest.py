"""Writes MANIFEST.json from the table below (kept in one place so it stays valid)."""
import json, os
V = os.path.dirname(os.path.dirname(os.path.abspath(__file__)))
ALL = ["C%02d" % i for i in range(1, 20)]
CHECKS = {
 "C10": dict(tech="Coq proof (tree_layer_correct, unbounded in partitions and split_every) + exhaustive-in-bound layer correspondence + knob-grid differential",
             text="Theorems in coq/PropC10.v over the executable model of TreeReduce._layer (every partition count, every split_every>=2 or False); model tied to /repo by comparing the real _layer dict with the extracted model for every (n, split_every) in the bound, and the property's own oracle (knob grid vs knob-free baseline) on the real implementation.",
             note="Trusted: Coq kernel, extraction (ExtrOcamlBasic) + ocaml/driver.ml; pandas chunk/combine/aggregate functions enter as the hypothesis agg_combine (proved for sum/count/min/max/len over Z with NA, differential-tested otherwise).", ref="DESIGN.md section 6 C10"),
}
def main():
    checks = []
    for pid in ALL:
        if pid not in CHECKS:
            continue
        c = CHECKS[pid]
        checks.append({
            "property_id": pid,
            "quick_cmd": "./check %s --tier quick" % pid,
            "thorough_cmd": "./check %s --tier thorough" % pid,
            "evidence_file": "/verif/evidence/%s.json" % pid,
            "replay_cmd_template": "./check %s --replay {path}" % pid,
            "engine": "coq-model",
            "level_claimed": {"category": "proof", "text": c["text"], "design_ref": c["ref"]},
            "level_note": c["note"],
            "technique": c["tech"],
        })
    m = {
        "version": 1,
        "setup_cmd": "cd /verif && ./check --setup",
        "hooks": {"guard": "DASK_EXPR_VERIF", "enable": "no source hooks: the harness monkeypatches dask_expr in its own process when DASK_EXPR_VERIF=1 (set by ./check)",
                  "baseline_off_cmd": "cd /repo && /venv/bin/python -m pytest -q -p no:cacheprovider --timeout=900 --continue-on-collection-errors",
                  "source_commits": [], "add_only": True},
        "engines": [{"name": "coq-model", "path": "/verif/coq", "serves_properties": sorted(CHECKS),
                     "kind_free_text": "Coq 8.16 development (hand-written executable Gallina model + theorems), extracted to an OCaml model server; tied to /repo by generated tables and correspondence runs"}],
        "checks": checks,
        "not_applicable": [{"property_id": p, "reason": "check not built yet in this round (work in progress; see DESIGN.md section 6)"} for p in ALL if p not in CHECKS],
        "notes": "See DESIGN.md. known_findings.json lists genuine defects (known / fixed).",
    }
    json.dump(m, open(os.path.join(V, "MANIFEST.json"), "w"), indent=1)
if __name__ == "__main__":
    main()
