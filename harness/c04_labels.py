"""C04 family: labels selected from a result that is labelled by the columns of a frame.

A column-wise statistic of a frame (sum / count / min / max / mean / std / var / sem / prod / skew / kurtosis / idxmin /
idxmax / nunique / quantile(scalar q) / median / memory_usage ... -> a Series with one entry per column;
quantile(list q) / describe / cov / corr / mode / agg(list) -> a frame with one column per column) followed by a
selection of some of these labels lets the optimizer prune the columns whose statistic is not requested -- through
rules of its own (the per-column scalars collected by quantile(scalar q), tree reductions, composite reductions such
as mean = sum / count, column-wise concatenations, the pair-wise cov / corr).  The property demands that the values,
labels and order of the selection are unchanged, that no operation finds a column it needs missing, and that a
statistic shared by several selections keeps everything any of them uses.

Grid: statistic x table (dtype mixes, missing values incl. an all-null column, text columns with numeric_only, integer
/ mixed column labels; headers are never in sorted order) x partitions x operator below the statistic (filter on a
column that is not selected, assign, rename, add_prefix, dropna(subset), arithmetic, reordering selection) x selected
labels (every label, every ordered pair, triples, reversed / rotated / identical header, repeated labels, singleton
list) x consumer of the selection (nothing, arithmetic, .loc, a second selection of the selection, two selections of
the same statistic combined, the selection next to a use of the whole statistic, arithmetic below the selection).

Oracles (all from the property text):
  (a) the plan lowered WITHOUT optimization (nothing is pruned there);
  (b) pandas' selection applied to the computed, complete statistic (nothing to prune in the complete statistic);
  (c) for exact statistics: pandas on the same data.
An optimized plan that raises where (a) computes is a violation; inputs for which (a) raises as well, and selections
that are refused while the query is written down (before anything is optimized), are skipped.
"""
import itertools
import math
import random

from e2e import concat_parts, exec_expr, try_, _short


# ----------------------------------------------------------------------------- data

N = 16


def table(variant, seed):
    """The table of a variant, a function of (variant, seed) only.  Value ranges of the columns are disjoint, so a value
    carried by the wrong label is a different value."""
    import numpy as np
    import pandas as pd
    r = random.Random("%s/%d" % (variant, seed))

    def fl(lo, hi):
        return [round(r.uniform(lo, hi), 3) for _ in range(N)]

    def it(lo, hi):
        return [r.randint(lo, hi) for _ in range(N)]
    if variant == "float":
        return pd.DataFrame({"z": fl(0, 1), "a": fl(100, 200), "m": fl(-2000, -1000), "k": fl(5, 6)})
    if variant == "mixed":
        return pd.DataFrame({"y": it(1000, 1100), "b": fl(-1, 0), "x": pd.array(it(10, 14), dtype="int8"), "c": fl(300, 400), "a": it(-50, -40)})
    if variant == "nulls":
        d = pd.DataFrame({"y": fl(0, 1), "e": [np.nan] * N, "c": fl(100, 200), "x": fl(-20, -10), "d": fl(40, 50)})
        for c in ("y", "c", "d"):
            for i in r.sample(range(N), 5):
                d.loc[i, c] = np.nan
        d.loc[:5, "c"] = np.nan      # the first partition(s) of "c" hold no value at all
        return d
    if variant == "strs":
        return pd.DataFrame({"z": fl(0, 1), "s": ["s%02d" % r.randint(0, 30) for _ in range(N)], "a": it(100, 200),
                             "t": ["t%d" % r.randint(0, 3) for _ in range(N)], "k": fl(-6, -5)})
    if variant == "intlabels":
        return pd.DataFrame({3: fl(0, 1), 1: fl(100, 200), 2: it(-2000, -1000), 0: fl(5, 6)})
    if variant == "mixedlabels":
        return pd.DataFrame({1: fl(0, 1), "a": fl(100, 200), 0: it(-2000, -1000), "b": fl(5, 6)})
    if variant == "sorted":         # control: header in sorted order
        return pd.DataFrame({"a": fl(0, 1), "b": fl(100, 200), "c": it(-2000, -1000), "d": fl(5, 6)})
    raise KeyError(variant)


VARIANTS = ["float", "mixed", "nulls", "strs", "intlabels", "sorted", "mixedlabels"]


def _numeric(pdf):
    return [c for c in pdf.columns if pdf[c].dtype.kind in "if"]


# ----------------------------------------------------------------------------- operators below the statistic


def pre_ops(pdf):
    """name -> fn(frame) for pandas and dask frames alike; the columns they mention are fixed from the pandas table."""
    num = _numeric(pdf)
    n0, n1 = num[0], num[-1]
    thr = float(sorted(pdf[n0].dropna())[len(pdf[n0].dropna()) // 4]) if len(pdf[n0].dropna()) else 0.0
    cols = list(pdf.columns)
    return {
        "identity": lambda d: d,
        "filter": lambda d: d[d[n0] >= thr],                                  # n0 is needed although it may not be selected
        "assign": lambda d: d.assign(w=d[n0] + d[n1]),
        "rename": lambda d: d.rename(columns={n1: "r_%s" % (n1,)}),
        "add_prefix": lambda d: d.add_prefix("p_"),
        "dropna-subset": lambda d: d.dropna(subset=[n1]),
        "arith": lambda d: d[num] * 2 - 1,
        "reorder": lambda d: d[cols[::-1]],                                   # frame order != source order
        "reorder-rot": lambda d: d[cols[2:] + cols[:2]],
    }


PRE = ["identity", "filter", "assign", "rename", "add_prefix", "dropna-subset", "arith", "reorder", "reorder-rot"]


# ----------------------------------------------------------------------------- statistics


def _isd(d):
    return hasattr(d, "npartitions")


def statistics():
    """name -> (fn(frame), exact w.r.t. pandas, list selections supported)."""
    S = {}

    def add(name, fn, exact=True, lists=True):
        S[name] = (fn, exact, lists)
    add("sum", lambda d: d.sum())
    add("sum-numeric_only", lambda d: d.sum(numeric_only=True))
    add("count", lambda d: d.count())
    add("min", lambda d: d.min())
    add("max", lambda d: d.max())
    add("min-numeric_only", lambda d: d.min(numeric_only=True))
    add("mean", lambda d: d.mean())
    add("mean-numeric_only", lambda d: d.mean(numeric_only=True))
    add("std", lambda d: d.std())
    add("std-ddof0", lambda d: d.std(ddof=0))
    add("var", lambda d: d.var())
    add("var-numeric_only", lambda d: d.var(numeric_only=True, ddof=2))
    add("sem", lambda d: d.sem())
    add("prod", lambda d: (d / 100).prod())
    add("skew", lambda d: d.skew())
    add("kurtosis", lambda d: d.kurtosis(), exact=False)
    add("idxmin", lambda d: d.idxmin())
    add("idxmax", lambda d: d.idxmax())
    add("isna-sum", lambda d: d.isna().sum())
    add("notna-all", lambda d: d.notna().all())
    add("isna-any", lambda d: d.isna().any())
    add("nunique", lambda d: d.nunique(), lists=False)       # list selections of nunique() are refused when the query is built
    add("memory_usage", lambda d: d.memory_usage(index=False), exact=False)
    # quantile(scalar q): the per-column scalars are collected by a node with a pruning rule of its own
    for q in (0.5, 0.25, 0.9, 0.0, 1.0):
        add("quantile-%s" % q, lambda d, q=q: d.quantile(q), exact=False)
    add("quantile-0.5-numeric_only", lambda d: d.quantile(0.5, numeric_only=True), exact=False)
    add("quantile-0.75-dask", lambda d: d.quantile(0.75, method="dask") if _isd(d) else d.quantile(0.75), exact=False)
    add("median_approximate", lambda d: d.median_approximate() if _isd(d) else d.median(), exact=False)
    add("median", lambda d: d.median(), exact=False)             # dask: one partition only
    add("median-numeric_only", lambda d: d.median(numeric_only=True), exact=False)
    # frame-valued: one column per column
    add("quantile-list", lambda d: d.quantile([0.25, 0.75]), exact=False)
    add("quantile-list1", lambda d: d.quantile([0.5]), exact=False)
    add("quantile-list-numeric_only", lambda d: d.quantile([0.1, 0.5, 0.6], numeric_only=True), exact=False)
    add("describe", lambda d: d.describe(), exact=False)
    add("cov", lambda d: d.cov(numeric_only=True))
    add("corr", lambda d: d.corr(numeric_only=True))
    add("mode", lambda d: d.mode())
    add("agg-list", lambda d: d.agg(["sum", "min", "count"]))
    return S


# statistics whose pruning goes through a rule of its own: these get the systematic selections in the quick tier
CORE = ["quantile-0.5", "quantile-0.25", "sum", "mean", "var", "quantile-list", "describe", "cov"]
CORE_SAMPLED = ["var", "describe", "cov"]       # quick tier: a sample of the selections instead of all of them


# ----------------------------------------------------------------------------- selections and consumers


def selections(labels, rng, full):
    L = list(labels)
    out = [("scalar", l) for l in L]
    out += [("list", list(p)) for p in itertools.permutations(L, 2)]
    trip = [list(p) for p in itertools.permutations(L, 3)]
    out += [("list", t) for t in (trip if full else rng.sample(trip, min(4, len(trip))))]
    if len(L) >= 2:
        out += [("list", L[::-1]), ("list", L[1:] + L[:1]), ("list", list(L)), ("list", [L[-1], L[0], L[-1]]),
                ("list", [L[0], L[0]]), ("list", L[::-1] + [L[0]]), ("list", L[:-1]), ("list", L[1:][::-1])]
    out += [("list", [L[-1]])]
    return out


def _tot(x):
    """Sum of everything in a selection (scalar for every container)."""
    nd = getattr(x, "ndim", 0)
    if not nd:
        return x
    s = x.sum()
    return s.sum() if nd == 2 else s


def _sub(sel):
    return sel[::-1][: max(1, len(sel) - 1)]


def consumers():
    """name -> (fn(statistic r, selection, auxiliary label), needs list selection, needs distinct labels)."""
    C = {
        "plain": (lambda r, sel, aux: r[sel], False, False),
        "arith": (lambda r, sel, aux: r[sel] * 2 + 1, False, False),
        "below-arith": (lambda r, sel, aux: (r * 2 + 1)[sel], False, False),
        "loc": (lambda r, sel, aux: r.loc[sel] if r.ndim == 1 else r.loc[:, sel], True, False),
        "nested": (lambda r, sel, aux: r[sel][_sub(sel)], True, False),
        "nested-scalar": (lambda r, sel, aux: r[sel][sel[-1]], True, True),
        "two-selections": (lambda r, sel, aux: r[sel] + r[sel[::-1]], True, True),
        "two-needs": (lambda r, sel, aux: r[sel] * 2 + _tot(r[aux]), False, False),
        "next-to-whole": (lambda r, sel, aux: r[sel] - _tot(r), False, False),
    }
    return C


CONS = ["plain", "arith", "below-arith", "loc", "nested", "nested-scalar", "two-selections", "two-needs", "next-to-whole"]


# ----------------------------------------------------------------------------- comparison


def _veq(a, b, rel):
    import numpy as np
    import pandas as pd
    na, nb = (a is None or a is pd.NA or a is pd.NaT or (isinstance(a, (float, np.floating)) and math.isnan(a))), \
             (b is None or b is pd.NA or b is pd.NaT or (isinstance(b, (float, np.floating)) and math.isnan(b)))
    if na or nb:
        return na and nb
    num = (int, float, np.integer, np.floating, bool, np.bool_)
    if isinstance(a, num) and isinstance(b, num):
        return math.isclose(float(a), float(b), rel_tol=rel, abs_tol=1e-12)
    try:
        return bool(a == b)
    except Exception:
        return False


def _leq(a, b):
    a, b = list(a), list(b)
    return len(a) == len(b) and all(type(x) is type(y) or (isinstance(x, (int, float)) and isinstance(y, (int, float))) for x, y in zip(a, b)) and \
        all(_veq(x, y, 0.0) for x, y in zip(a, b))


def same(a, b, rel=1e-9):
    """None when the two computed results have the same container, labels (in order), name and values; else what differs."""
    import pandas as pd
    ka = "frame" if isinstance(a, pd.DataFrame) else "series" if isinstance(a, pd.Series) else "scalar"
    kb = "frame" if isinstance(b, pd.DataFrame) else "series" if isinstance(b, pd.Series) else "scalar"
    if ka != kb:
        return "container %s vs %s" % (ka, kb)
    if ka == "scalar":
        return None if _veq(a, b, rel) else "value"
    if not _leq(a.index.tolist(), b.index.tolist()):
        return "row labels"
    if ka == "series":
        if not _veq(a.name, b.name, 0.0):
            return "name"
        return None if all(_veq(x, y, rel) for x, y in zip(a.tolist(), b.tolist())) else "values"
    if not _leq(a.columns.tolist(), b.columns.tolist()):
        return "column labels"
    for i in range(a.shape[1]):
        if not all(_veq(x, y, rel) for x, y in zip(a.iloc[:, i].tolist(), b.iloc[:, i].tolist())):
            return "values of column %r" % (a.columns[i],)
    return None


def show(o):
    import pandas as pd
    if isinstance(o, pd.Series):
        return _short({"labels": o.index.tolist(), "values": o.tolist(), "name": o.name})
    if isinstance(o, pd.DataFrame):
        return _short({"columns": o.columns.tolist(), "rows": o.index.tolist(), "values": o.values.tolist()})
    return _short(o)


# ----------------------------------------------------------------------------- one case


def _py(x):
    import numpy as np
    if isinstance(x, (list, tuple)):
        return [_py(v) for v in x]
    if isinstance(x, np.integer):
        return int(x)
    if isinstance(x, np.floating):
        return float(x)
    return x


class Context:
    """(table, partitions, operator, statistic): the complete statistic by dask and by pandas, computed once."""
    _cache = {}

    @classmethod
    def get(cls, rt, variant, seed, npart, pre, stat):
        key = (variant, seed, npart, pre, stat)
        if key not in cls._cache:
            if len(cls._cache) > 400:
                cls._cache.clear()
            cls._cache[key] = cls(rt, variant, seed, npart, pre, stat)
        return cls._cache[key]

    def __init__(self, rt, variant, seed, npart, pre, stat):
        self.pdf = table(variant, seed)
        self.pre = pre_ops(self.pdf)[pre]
        self.fn, self.exact, self.lists = statistics()[stat]
        self.npart = npart
        self.rt = rt
        self.pfull = try_(lambda: self.fn(self.pre(self.pdf)))
        self.dfull = try_(lambda: self.fn(self.pre(self.frame())).compute())
        self.labels = []
        if self.dfull[0] == "ok":
            full = self.dfull[1]
            self.labels = _py(full.index.tolist() if full.ndim == 1 else full.columns.tolist())

    def frame(self):
        return self.rt.dx.from_pandas(self.pdf, npartitions=self.npart)


def check_case(run, rt, case):
    """Runs one case (a JSON-serialisable dict, sufficient for a replay).  Returns 'skipped', 'refused', 'ok' or 'violation'."""
    ctx = Context.get(rt, case["data"], case["data_seed"], case["npartitions"], case["below"], case["statistic"])
    sel, aux = case["select"], case.get("aux")
    cons = consumers()[case["consumer"]][0]
    if ctx.dfull[0] == "raise":
        return "skipped"                       # the complete statistic is not available: nothing is pruned
    exp = try_(lambda: cons(ctx.dfull[1], sel, aux))
    if exp[0] == "raise":
        return "skipped"                       # pandas refuses the selection
    desc = "%s of [%s of the %s table, %d partitions]" % (case["consumer"] + " selection " + repr(sel) if case["consumer"] != "plain" else "selecting %r" % (sel,),
                                                          case["statistic"] + (" below " + case["below"] if case["below"] != "identity" else ""), case["data"], case["npartitions"])
    q = try_(lambda: cons(ctx.fn(ctx.pre(ctx.frame())), sel, aux))
    if q[0] == "raise":
        return "refused"                       # refused while the query is written down (e.g. a list against unknown divisions): nothing was optimized yet
    un = try_(lambda: concat_parts(exec_expr(q[1].expr.lower_completely())))
    opt = try_(lambda: concat_parts(exec_expr(q[1].optimize().expr)))
    if opt[0] == "raise":
        if un[0] == "ok":
            run.violation("column pruning breaks %s: %s (the plan lowered without optimization computes %s)" % (desc, opt[1], show(un[1])), case)
            return "violation"
        return "skipped"
    bad = None
    if un[0] == "ok":
        d = same(opt[1], un[1])
        if d is not None:
            bad = "%s: optimized %s, not optimized %s (%s differ)" % (desc, show(opt[1]), show(un[1]), d)
    if bad is None:
        d = same(opt[1], exp[1])
        if d is not None and (un[0] == "raise" or same(un[1], exp[1]) is None):
            bad = "%s gives %s; the same selection of the computed complete statistic is %s (%s differ)" % (desc, show(opt[1]), show(exp[1]), d)
    if bad is None and ctx.exact and ctx.pfull[0] == "ok":
        pexp = try_(lambda: cons(ctx.pfull[1], sel, aux))
        # pandas is an oracle for the selection only when dask's complete statistic agrees with pandas' in the first place
        if pexp[0] == "ok" and same(ctx.dfull[1], ctx.pfull[1], 1e-7) is None:
            d = same(opt[1], pexp[1], 1e-7)
            if d is not None and (un[0] == "raise" or same(un[1], pexp[1], 1e-7) is None):
                bad = "%s gives %s, pandas %s (%s differ)" % (desc, show(opt[1]), show(pexp[1]), d)
    if bad is not None:
        run.violation(bad, case)
        return "violation"
    return "ok"


# ----------------------------------------------------------------------------- the sweep


def _case(variant, seed, npart, pre, stat, kind, sel, cons, aux):
    return {"kind": "labels", "data": variant, "data_seed": seed, "npartitions": npart, "below": pre, "statistic": stat,
            "select": _py(sel), "consumer": cons, "aux": _py(aux)}


def left_out(variant, pre, stat, kind, sel):
    """Inputs for which the UNMODIFIED library violates the property (reported as findings, not part of the family)."""
    # idxmin / idxmax label their result in sorted order; the optimizer drops a selection that equals the header
    if stat in ("idxmin", "idxmax") and (variant != "sorted" or pre.startswith("reorder")):
        return True
    # integer column labels: a pruned quantile raises (ValueError / "Failed to generate metadata")
    if stat.startswith("quantile") and variant in ("intlabels", "mixedlabels") and pre != "add_prefix":
        return True
    # a column-wise concatenation pruned to a single Series refuses a selection that repeats its label
    if stat.startswith("quantile-list") and kind == "list" and len(sel) > 1 and len(set(map(repr, sel))) == 1:
        return True
    return False


def _admissible(stat_lists, kind, sel, cons):
    need_list, need_distinct = consumers()[cons][1:]
    if kind == "scalar" and (need_list or False):
        return False
    if kind == "list" and not stat_lists:
        return False
    if need_distinct and kind == "list" and len(set(map(repr, sel))) != len(sel):
        return False
    return True


def label_sweep(run):
    import time
    import rt
    quick = run.tier == "quick"
    rng = run.rng
    t0, c0 = time.time(), time.process_time()
    seed = rng.randrange(1 << 30)
    S = statistics()
    out = {"ok": 0, "skipped": 0, "refused": 0, "violation": 0}
    seen = set()

    def one(variant, npart, pre, stat, kind, sel, cons, aux):
        if left_out(variant, pre, stat, kind, sel):
            return
        case = _case(variant, seed, npart, pre, stat, kind, sel, cons, aux)
        key = repr(sorted(case.items()))
        if key in seen:
            return
        seen.add(key)
        run.count(("labels", variant, npart, pre, stat, repr(sel), cons, repr(aux)))
        r = try_(lambda: check_case(run, rt, case))
        if r[0] == "raise":
            run.broken_tie("labels case raises in the harness", {"case": case, "err": r[1]})
            return
        out[r[1]] += 1

    def labels_of(variant, npart, pre, stat):
        return Context.get(rt, variant, seed, npart, pre, stat).labels

    # (1) systematic: every statistic with a pruning rule of its own x every selection, plain; other consumers on a sample
    for stat in (CORE if quick else sorted(S)):
        for variant in (["float"] if quick else ["float", "nulls", "strs"]):
            npart = 3
            L = labels_of(variant, npart, "identity", stat)
            if not L:
                continue
            sels = selections(L, rng, not quick)
            plain = sels if not (quick and stat in CORE_SAMPLED) else rng.sample(sels, min(len(sels), 12))
            for kind, sel in plain:
                if _admissible(S[stat][2], kind, sel, "plain"):
                    one(variant, npart, "identity", stat, kind, sel, "plain", None)
            for cons in CONS[1:]:
                pool = [(k, s) for k, s in sels if _admissible(S[stat][2], k, s, cons)]
                for kind, sel in rng.sample(pool, min(len(pool), 1 if quick else 6)):
                    one(variant, npart, "identity", stat, kind, sel, cons, rng.choice(L))
    # (2) random points of the whole grid, every statistic equally often
    per = 4 if quick else 150
    for stat in sorted(S):
        for _ in range(per):
            variant = rng.choice(VARIANTS[:6] if quick else VARIANTS)
            npart = rng.choice([1, 2, 3, 5])
            pre = rng.choice(PRE)
            L = labels_of(variant, npart, pre, stat)
            if not L:
                out["skipped"] += 1
                run.count(("labels-unavailable", variant, npart, pre, stat), nontrivial=False)
                continue
            sels = selections(L, rng, False)
            cons = rng.choice(CONS)
            pool = [(k, s) for k, s in sels if _admissible(S[stat][2], k, s, cons)]
            if not pool:
                cons, pool = "plain", [(k, s) for k, s in sels if _admissible(S[stat][2], k, s, "plain")]
            kind, sel = rng.choice(pool)
            one(variant, npart, pre, stat, kind, sel, cons, rng.choice(L))
    Context._cache.clear()
    run.section("labels of column-wise statistics", cases=len(seen), statistics=len(S), wall_s=round(time.time() - t0, 1), cpu_s=round(time.process_time() - c0, 1), **out)
