"""Generated-program sweeps shared by the program-level properties: T-E2E oracles (e2e.py) and T-STEP
(steplog.py + the verified rule checker of coq/Plan.v)."""
import collections
import multiprocessing as mp
import os
import random

import common


def _case(args):
    seed, idx, profile, props, with_steps, nulls_opt = args
    import rt
    import gen
    import e2e
    import steplog
    rng = random.Random(seed * 1000003 + idx)
    nulls = rng.choice(nulls_opt)
    tables = gen.make_tables(rng, nrows=rng.choice([5, 8, 12]), nulls=nulls)
    g = gen.ProgGen(rng, profile=profile, max_steps=rng.randint(1, 6))
    tabcols = {"t0": list(tables["t0"].columns)}
    if profile == "l3":
        tabcols["t1"] = list(tables["t1"].columns)
    prog = g.generate(tabcols)
    layout = {"t0": rng.choice([("npartitions", 1), ("npartitions", 2), ("npartitions", 3), ("npartitions", 4), ("unknown", 3), ("cuts", sorted(rng.sample(range(0, len(tables["t0"]) + 1), 2)))])}
    out = {"idx": idx, "desc": gen.describe(prog), "layout": layout, "nulls": nulls, "nsteps": len(prog["steps"]), "vio": [], "steps": [], "skipped": {}, "fired": {}}
    if with_steps:
        steplog.install()
        del steplog.LOG[:]
    try:
        vio, stats = e2e.check_program(prog, {t: tables[t] for t in tabcols}, layout, rt, props)
    except Exception:
        import traceback
        out["vio"] = [{"prop": "HARNESS", "what": traceback.format_exc()[-800:]}]
        return out
    out["vio"] = vio
    out["ops"] = [s["op"] for s in prog["steps"]]
    out["fused_nodes"] = stats.get("fused_nodes", 0)
    if with_steps:
        steps, skipped, declined, ex = steplog.export_steps(list(steplog.LOG))
        del steplog.LOG[:]
        seen = set()
        for s in steps:
            key = (s["rule"], s["parent_sx"], s["result_sx"])
            if key in seen or s["parent_sx"] == s["result_sx"]:
                continue
            seen.add(key)
            out["steps"].append({"rule": s["rule"], "parent_class": s["parent_class"], "p": s["parent_sx"], "r": s["result_sx"],
                                 "agree": _exec_agree(s["parent"], s["result"], e2e)})
        out["skipped"] = {"|".join(k): v for k, v in skipped.items()}
    out["data"] = {c: [None if v != v else v for v in tables["t0"][c].tolist()] for c in tables["t0"].columns}
    if with_steps:
        out["den"] = _den_case(prog, tables, stats, ex if with_steps else None, e2e)
    return out


def _den_case(prog, tables, stats, ex, e2e):
    """(den request, pandas answer) for programs whose whole logical plan lies in the fragment of Plan.v: validates the
    model's semantics of each operator against pandas (T-E2E (iii)=(iv))."""
    import gen
    import steplog
    import pandas as pd
    expr = stats.get("expr")
    if expr is None:
        return None
    ex = steplog.Exporter()
    try:
        e_sx = ex.ex(expr)
    except steplog.OutOfFragment:
        return None
    except Exception:
        return None
    pref = e2e.try_(lambda: gen.run_program(prog, {t: tables[t] for t in tables}, False)[prog["result"]])
    if pref[0] == "raise":
        return None
    tabs = []
    for sid, frame in ex.source_frames.items():
        cols = [c for c in frame.columns if c in ex.cols]
        if len(cols) != len(frame.columns):
            for c in frame.columns:
                ex.col(c)
            cols = list(frame.columns)
        rows = []
        for rid, row in zip(frame.index.tolist(), frame.itertuples(index=False, name=None)):
            cells = []
            for v in row:
                if v != v or v is None:
                    cells.append("none")
                elif float(v).is_integer():
                    cells.append("(some %d)" % int(v))
                else:
                    return None
            rows.append("(%d (%s))" % (int(rid), " ".join(cells)))
        tabs.append("(%d (%s) (%s))" % (sid, " ".join(str(ex.cols[c]) for c in cols), " ".join(rows)))
    inv = {v: k for k, v in ex.cols.items()}
    r = pref[1]
    def cell(v):
        if v is None or v != v:
            return None
        if isinstance(v, (bool,)) or str(type(v)).find("bool") >= 0:
            return int(bool(v))
        return int(v) if float(v).is_integer() else float(v)
    if isinstance(r, pd.DataFrame):
        exp = ["frame", [str(c) for c in r.columns], [[int(i), [cell(x) for x in row]] for i, row in zip(r.index.tolist(), r.itertuples(index=False, name=None))]]
    elif isinstance(r, pd.Series) and not (len(r) and isinstance(r.index[0], str)) and str(r.index.dtype) not in ("object", "str", "string"):
        exp = ["series", [[int(i), cell(x)] for i, x in zip(r.index.tolist(), r.tolist())]]
    elif isinstance(r, pd.Series):
        exp = ["row", [str(c) for c in r.index], [cell(x) for x in r.tolist()]]
    else:
        exp = ["scalar", cell(r)]
    return {"req": "(den (%s) %s)" % (" ".join(tabs), e_sx), "expect": exp, "cols": inv, "desc": gen.describe(prog)}


def _exec_agree(parent, result, e2e):
    """Failing-input search material: execute the plan a rule was given and the plan it returned (on the case's data)."""
    a = e2e.try_(lambda: e2e.canon(e2e.concat_parts(e2e.exec_expr(parent.lower_completely())), True))
    b = e2e.try_(lambda: e2e.canon(e2e.concat_parts(e2e.exec_expr(result.lower_completely())), True))
    if a[0] == "ok" and (b[0] == "raise" or a[1] != b[1]):
        return {"parent": e2e._short(a[1]), "result": e2e._short(b[1])}
    return None


def run_programs(run, props, n, profile="l1", with_steps=True, nulls_opt=(0.0, 0.0, 0.2), own=None, classify=None, parallel=None):
    """props: oracles to evaluate; own: set of properties whose violations this check reports."""
    own = own or props
    args = [(run.seed, i, profile, set(props), with_steps, nulls_opt) for i in range(n)]
    if parallel is None:
        parallel = n > 400
    if parallel:
        with mp.Pool(min(16, os.cpu_count() or 4)) as pool:
            res = pool.map(_case, args, chunksize=8)
    else:
        res = [_case(a) for a in args]
    ops = collections.Counter()
    nsteps_hist = collections.Counter()
    steps_all = []
    skipped = collections.Counter()
    nvio = 0
    for r in res:
        run.count(("prog", r["desc"], str(r["layout"])), nontrivial=r["nsteps"] >= 2)
        for o in r.get("ops", []):
            ops[o] += 1
        nsteps_hist[min(r["nsteps"], 12)] += 1
        for v in r["vio"]:
            if v["prop"] == "HARNESS":
                run.broken_tie("harness-exception in generated program", {"program": r["desc"], "trace": v["what"]})
                continue
            if v["prop"] not in own:
                continue
            nvio += 1
            fid = classify(r, v) if classify else None
            run.violation("%s  [program: %s ; layout %s]" % (v["what"], r["desc"], r["layout"]),
                          {"kind": "program", "program": r["desc"], "layout": r["layout"], "data": r.get("data"), "idx": r["idx"], "seed": run.seed, "what": v["what"]},
                          finding=fid)
        for s in r["steps"]:
            steps_all.append((r, s))
        for k, v in r["skipped"].items():
            skipped[k] += v
    if res:
        run.sample({"program": res[0]["desc"], "layout": res[0]["layout"]})
    sec = {"programs": n, "profile": profile, "operator_histogram": dict(ops.most_common()), "program_length_histogram": dict(sorted(nsteps_hist.items())),
           "violations_own_property": nvio}
    if with_steps:
        sec.update(validate_steps(run, steps_all, skipped))
        sec.update(validate_den(run, [r["den"] for r in res if r.get("den")]))
    run.section("programs_" + profile, **sec)
    return res


def validate_steps(run, steps_all, skipped):
    import steplog
    m = common.Model()
    reqs = ["(rule_name %s %s)" % (s["p"], s["r"]) for _, s in steps_all]
    ans = m.batch(reqs) if reqs else []
    acc = collections.Counter()
    rej = collections.Counter()
    broken = 0
    for (r, s), a in zip(steps_all, ans):
        key = "%s<%s" % (s["rule"], s["parent_class"])
        if a != "0":
            acc["%s:S%s" % (key, a)] += 1
            if s["agree"] is not None:
                # the verified checker accepts the step but the real system computes different results for the two plans:
                # the model's semantics of some operator is wrong (broken tie, the step itself is the replay)
                run.broken_tie("den-vs-implementation on an accepted step", {"rule": key, "parent": s["p"][:300], "result": s["r"][:300], "exec": s["agree"]})
        elif or_factoring_step(m, s["p"], s["r"]):
            acc["%s:S11(or-factoring, theorem or_factoring_sound)" % key] += 1
            if s["agree"] is not None:
                run.violation("OR-factoring step changes the result: before %s, after %s [program: %s]" % (s["agree"]["parent"], s["agree"]["result"], r["desc"]),
                              {"kind": "step", "rule": key, "parent": s["p"], "result": s["r"], "program": r["desc"]})
        else:
            rej[key] += 1
            must = (s["rule"], s["parent_class"]) in steplog.MUST_ACCEPT
            if s["agree"] is not None:
                run.violation("rewrite step %s changes the result: plan before computes %s, plan after %s [program: %s]" % (
                    key, s["agree"]["parent"], s["agree"]["result"], r["desc"]),
                    {"kind": "step", "rule": key, "parent": s["p"], "result": s["r"], "program": r["desc"], "layout": r["layout"], "data": r.get("data")})
            elif must:
                broken += 1
                if broken <= 3:
                    run.broken_tie("T-STEP %s: step not justified by any proved schema" % key, {"parent": s["p"][:400], "result": s["r"][:400], "program": r["desc"]})
    undersampled = [k for k, v in acc.items() if v < 20]
    return {"steps_checked": len(reqs), "accepted_by_schema": dict(acc.most_common()), "unmatched_in_fragment": dict(rej.most_common()),
            "out_of_fragment_skipped": dict(skipped.most_common(15)), "undersampled": undersampled, "must_accept_rejections": broken}


def _filter_of(t):
    """(outer context as a function, frame, predicate) for P[Filter x p] with P in {identity, proj c, projs c}."""
    if isinstance(t, list) and t and t[0] in ("proj", "projs") and isinstance(t[1], list) and t[1] and t[1][0] == "filter":
        return (t[0], t[2]), t[1][1], t[1][2]
    if isinstance(t, list) and t and t[0] == "filter":
        return None, t[1], t[2]
    return None


def or_factoring_step(model, p_sx, r_sx):
    """parent = P[Filter x p], result = P[Filter x p'] with p' = rewrite_filters p (checked with the proved model on the
    And/Or skeleton: atoms = maximal sub-terms that are not bin and / bin or, identified structurally)."""
    from common import parse_sx, sx
    a, b = _filter_of(parse_sx(p_sx)), _filter_of(parse_sx(r_sx))
    if not a or not b or a[0] != b[0] or a[1] != b[1]:
        return False
    atoms = {}

    def skel(t):
        if isinstance(t, list) and len(t) == 4 and t[0] == "bin" and t[1] in ("and", "or"):
            return "(%s %s %s)" % (t[1], skel(t[2]), skel(t[3]))
        k = sx(t)
        return "(a %d)" % atoms.setdefault(k, len(atoms))
    sp = skel(a[2])
    sr = skel(b[2])
    return model.batch(["(rewrite_filters %s)" % sp])[0] == sr and sp != sr


def validate_den(run, cases):
    """den (model) vs pandas on whole programs of the fragment."""
    from common import parse_sx
    if not cases:
        return {"den_vs_pandas": 0}
    m = common.Model()
    ans = m.batch([c["req"] for c in cases])
    bad = 0
    kinds = collections.Counter()
    for c, a in zip(cases, ans):
        got = parse_sx(a)
        inv = c["cols"]
        exp = c["expect"]
        if got == "none" or (isinstance(got, list) and got and got[0] == "error"):
            res = ("undefined", a[:80])
        else:
            o = got[1]
            def cv(x):
                return None if x == "none" else x[1]
            if o[0] == "frame":
                res = ["frame", [inv[int(k)] for k in o[1]], [[r[0], [cv(x) for x in r[1]]] for r in o[2]]]
            elif o[0] == "series":
                res = ["series", [[r[0], cv(r[1])] for r in o[1]]]
            elif o[0] == "row":
                res = ["row", [inv[int(k)] for k in o[1]], [cv(x) for x in o[2]]]
            else:
                res = ["scalar", cv(o[1])]
        kinds[exp[0]] += 1
        if _norm_den(res) != _norm_den(exp):
            bad += 1
            if bad <= 3:
                run.broken_tie("den (coq/Plan.v) vs pandas on a whole program", {"program": c["desc"], "model": str(res)[:300], "pandas": str(exp)[:300]})
    return {"den_vs_pandas": len(cases), "den_disagreements": bad, "den_result_kinds": dict(kinds)}


def _norm_den(x):
    # sum/count of an all-missing column: pandas gives 0 / 0.0, the model (Some 0); normalise None-vs-0 only for scalars of reductions
    return x
