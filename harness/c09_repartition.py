"""C09 family: graphs of repartition plans -- partition layout x source kind x repartition request x consumer.

Every repartition expression of dask-expr writes its layer by hand (`_repartition.py: RepartitionToFewer / RepartitionToMore /
RepartitionDivisions / RepartitionSize._layer`): loops with running input / output / piece counters that emit alias tasks
(`(new, j) -> (input, i)`), split tasks, getitem tasks and concat tasks.  Which branch of these loops runs depends on the LAYOUT
of the input (rows / bytes per partition, known or unknown divisions, index dtype), not on the query text, and the layouts that
`from_pandas(npartitions=k)` produces (all partitions alike) reach only the diagonal of those loops (all pieces split, or none).
The family therefore enumerates

    layout     rows per partition given explicitly: patterns over {B(ig), S(mall), X(very big), M(edium), 0 (empty)} of 1..6
               partitions -- in particular every B/S pattern of length 2..4 in the quick tier (2..6 in the thorough tier)
    source     from_map with / without divisions | from_delayed with / without divisions | concat of one-partition frames |
               from_pandas + repartition(divisions) | from_pandas (even layout) | a FILTERED frame (even partitions below the
               filter, uneven ones above it)
    data       int / float / datetime / string index; numeric, string, categorical, mixed columns; with and without missing values
    receiver   frame | series
    request    partition_size (int / '..B' / '..kB' strings; thresholds placed between the small and the big partitions, below all,
               above all, far below the biggest -> k >= 3 pieces) | npartitions (fewer, equal, more: interpolated divisions for
               numeric / datetime indexes, RepartitionToMore for unknown divisions and string indexes) | divisions (random cut
               points, old boundaries reused, force=True with widened ends) | freq (datetime index) | chains of two requests
    consumer   none | projection | filter | element-wise | reduction | cumulative | partition selection | head / tail |
               map_partitions | alignment with the source | two repartitions of ONE source in one graph

and yields the lowered plan of every case at {unoptimized, optimize(fuse=False), optimize(fuse=True)} (plus the five optimizer
stages in the thorough tier).  The caller certifies each graph like every other graph of C09 (verified wf_check on the exported
keys / dependencies / order / outputs, undefined key-like references, conflicting keys, planner objects, pickling under
'dask-expr-no-serialize'); `extra_problems` adds the literal reading of "a task for each reported output key
(name, 0..npartitions-1)".

Requests the library refuses (exception at construction or while lowering: divisions on unknown divisions, freq on a non-datetime
index ...) are counted and skipped.  When the plan lowers and reports its output keys but the graph cannot be materialized, the
reported keys have no task: that is judged (violation).  A case is a small dict; `build(case, dx)` reconstructs the collection.
"""
import collections
import itertools
import random

import numpy as np
import pandas as pd

import e2e
from e2e import try_, STAGES, _piece, _Pieces


# ----------------------------------------------------------------------------- data

ROWS = {"0": (0, 0), "S": (4, 24), "M": (30, 50), "B": (70, 130), "X": (260, 420)}


def lengths_of(pattern, rng):
    return [rng.randint(*ROWS[c]) for c in pattern]


def _index(kind, n):
    if kind == "int":
        return pd.Index(np.arange(n, dtype="int64") * 2)
    if kind == "float":
        return pd.Index(np.arange(n, dtype="float64") * 0.5)
    if kind == "datetime":
        return pd.date_range("2021-01-01", periods=n, freq="6h")
    if kind == "str":
        return pd.Index(["k%05d" % i for i in range(n)], dtype=object)
    raise KeyError(kind)


def make_pdf(n, index, columns, nulls, seed):
    r = random.Random(seed * 104729 + n)
    d = {"x": np.arange(n, dtype="int64")}
    if columns in ("num", "mixed"):
        d["y"] = np.array([np.nan if (nulls and r.random() < 0.2) else r.randrange(50) * 0.5 for _ in range(n)], dtype="float64")
    if columns in ("str", "mixed"):
        d["s"] = pd.Series([None if (nulls and r.random() < 0.2) else "v" * r.randrange(0, 14) for _ in range(n)], dtype=object).values
    if columns in ("cat", "mixed"):
        d["c"] = pd.Categorical([None if (nulls and r.random() < 0.2) else r.choice("pqr") for _ in range(n)], categories=list("pqrs"))
    if columns == "mixed":
        d["b"] = np.array([r.random() < 0.5 for _ in range(n)])
        d["t"] = pd.Timestamp("2020-05-01") + pd.to_timedelta(np.arange(n) % 17, unit="D")
    return pd.DataFrame(d, index=_index(index, n))


def make_pieces(case):
    """(whole pandas frame, pieces, divisions) of the SOURCE of a case (before a 'filter' source drops its rows)."""
    lengths = list(case["lengths"])
    if case["source"] == "filter":
        # every partition holds max(lengths) rows below the filter; `keep` marks the first lengths[i] of them
        width = max(lengths + [1])
        pdf = make_pdf(width * len(lengths), case["index"], case["columns"], case["nulls"], case["data_seed"])
        pdf["keep"] = np.concatenate([np.arange(width) < n for n in lengths])
        bounds = [width * i for i in range(len(lengths) + 1)]
    else:
        pdf = make_pdf(sum(lengths), case["index"], case["columns"], case["nulls"], case["data_seed"])
        bounds = [0] + list(np.cumsum(lengths))
    pieces = [pdf.iloc[a:b] for a, b in zip(bounds, bounds[1:])]
    divisions = None
    if all(len(p) for p in pieces):
        divisions = tuple(p.index[0] for p in pieces) + (pieces[-1].index[-1],)
    return pdf, pieces, divisions


def piece_bytes(case):
    """Bytes per partition of the frame that is repartitioned, as the library measures them (memory_usage(deep=True) + index)."""
    pdf, pieces, _ = make_pieces(case)
    if case["source"] == "filter":
        pieces = [p[p.keep] for p in pieces]
    if case["source"] == "from_pandas":
        n = len(case["lengths"])
        chunk = -(-len(pdf) // n)
        pieces = [pdf.iloc[i:i + chunk] for i in range(0, len(pdf), chunk)]
    if case["receiver"] == "series":
        return [int(p["x"].memory_usage(deep=True, index=True)) for p in pieces]
    return [int(p.memory_usage(deep=True, index=True).sum()) for p in pieces]


KNOWN_SOURCES = ["from_map-known", "from_delayed-known", "concat", "from_pandas+divisions", "from_pandas", "filter"]
UNKNOWN_SOURCES = ["from_map-unknown", "from_delayed-unknown"]
SOURCES = KNOWN_SOURCES + UNKNOWN_SOURCES


def build_source(case, dx):
    import dask
    pdf, pieces, divisions = make_pieces(case)
    src = case["source"]
    n = len(pieces)
    meta = pdf.iloc[:0]
    if src == "from_map-known":
        df = dx.from_map(_piece, list(range(n)), args=[_Pieces(pieces)], meta=meta, divisions=divisions)
    elif src == "from_map-unknown":
        df = dx.from_map(_piece, list(range(n)), args=[_Pieces(pieces)], meta=meta)
    elif src == "from_delayed-known":
        df = dx.from_delayed([dask.delayed(p) for p in pieces], meta=meta, divisions=divisions)
    elif src == "from_delayed-unknown":
        df = dx.from_delayed([dask.delayed(p) for p in pieces], meta=meta)
    elif src == "concat":
        df = dx.concat([dx.from_pandas(p, npartitions=1, sort=True) for p in pieces]) if n > 1 else dx.from_pandas(pieces[0], npartitions=1)
    elif src == "from_pandas+divisions":
        df = dx.from_pandas(pdf, npartitions=1, sort=True).repartition(divisions=list(divisions))
    elif src == "from_pandas":
        df = dx.from_pandas(pdf, npartitions=n, sort=True)
    elif src == "filter":
        df = dx.from_map(_piece, list(range(n)), args=[_Pieces(pieces)], meta=meta, divisions=divisions)
        df = df[df.keep]
    else:
        raise KeyError(src)
    return df


# ----------------------------------------------------------------------------- requests

def _label(v, index):
    """JSON value of an index label -> the label."""
    return pd.Timestamp(v) if index == "datetime" else v


def _json_label(v):
    if isinstance(v, pd.Timestamp):
        return v.isoformat()
    if isinstance(v, (np.integer,)):
        return int(v)
    if isinstance(v, (np.floating,)):
        return float(v)
    return v


def apply_request(obj, req, index):
    op = req["op"]
    if op == "partition_size":
        return obj.repartition(partition_size=req["size"])
    if op == "npartitions":
        return obj.repartition(npartitions=req["n"])
    if op == "divisions":
        return obj.repartition(divisions=[_label(v, index) for v in req["divisions"]], force=req.get("force", False))
    if op == "freq":
        return obj.repartition(freq=req["freq"])
    raise KeyError(op)


def _part_len(part):
    return pd.Series([len(part)], dtype="int64")


def _shape_of(part):
    return pd.DataFrame({"n": [len(part)]})


CONSUMERS = ["none", "none", "project", "filter", "elemwise", "sum", "cumsum", "partitions-even", "partitions-last", "partitions-reversed",
             "head", "tail", "map_partitions", "align-source", "len"]


def apply_consumer(out, src, name, dx):
    frame = out.ndim == 2
    if name == "none":
        return out
    if name == "project":
        return out[["x"]] if frame else out.to_frame()
    if name == "filter":
        return out[out.x % 3 != 1] if frame else out[out % 3 != 1]
    if name == "elemwise":
        return (out.x + 1) if frame else (out * 2)
    if name == "sum":
        return out.x.sum() if frame else out.sum()
    if name == "cumsum":
        return out.x.cumsum() if frame else out.cumsum()
    if name == "len":
        return out.index.size
    if name.startswith("partitions-"):
        n = out.npartitions
        sel = {"even": list(range(0, n, 2)), "last": [n - 1], "reversed": list(range(n))[::-1]}[name.split("-", 1)[1]]
        return out.partitions[sel]
    if name == "head":
        return out.head(3, npartitions=-1, compute=False)
    if name == "tail":
        return out.tail(3, compute=False)
    if name == "map_partitions":
        return out.map_partitions(_shape_of, meta=pd.DataFrame({"n": pd.Series([], dtype="int64")}), enforce_metadata=False)
    if name == "align-source":
        # an aligned binary operation with the un-repartitioned source (known divisions: both sides are repartitioned again)
        return (out.x + src.x) if frame else (out + src)
    raise KeyError(name)


def build(case, dx, source=None):
    """The collection of a case dict (see module docstring)."""
    if case["kind"] == "repartition-family-pair":
        src = build_source(case["a"], dx)
        parts = []
        for c in (case["a"], case["b"]):
            r = build(c, dx, source=src)
            if r.ndim == 0:
                raise ValueError("scalar")
            parts.append(r.map_partitions(_part_len, meta=pd.Series([], dtype="int64"), enforce_metadata=False).clear_divisions())
        return dx.concat(parts)
    src = build_source(case, dx) if source is None else source
    recv = src.x if case["receiver"] == "series" else src
    out = recv
    for req in case["requests"]:
        out = apply_request(out, req, case["index"])
    return apply_consumer(out, recv, case["consumer"], dx)


# ----------------------------------------------------------------------------- drawing cases

def size_request(rng, case, mode):
    """A partition_size placed relative to the bytes of the partitions: 'between' = above the small ones and below the big ones
    (big ones are split, small ones are passed through / merged), 'below' = every partition is split, 'above' = none is,
    'deep' = far below the biggest (>= 3 pieces), 'merge' = several partitions fit into one output."""
    b = sorted(x for x in piece_bytes(case))
    lo, hi = b[0], b[-1]
    if mode == "between" and len(b) > 1:
        # the widest gap between consecutive partition sizes
        gaps = [(b[i + 1] - b[i], i) for i in range(len(b) - 1)]
        g, i = max(gaps)
        size = b[i] + max(1, g // 2) if g > 1 else hi + 1
    elif mode == "below":
        size = max(64, lo // 2)
    elif mode == "deep":
        size = max(64, hi // rng.choice([3, 4, 6]))
    elif mode == "merge":
        size = hi * rng.choice([2, 3]) + 1
    else:
        size = hi + rng.choice([1, 50, 5000])
    form = rng.choice(["int", "int", "B", "kB"])
    if form == "B":
        size = "%dB" % size
    elif form == "kB":
        size = "%.3fkB" % (size / 1000.0)
    return {"op": "partition_size", "size": size}


def npartitions_request(rng, current):
    mode = rng.choice(["fewer", "fewer", "more", "more", "more", "equal", "one"])
    if mode == "fewer" and current > 1:
        n = rng.randint(1, current - 1)
    elif mode == "equal":
        n = current
    elif mode == "one":
        n = 1
    else:
        n = current + rng.choice([1, 1, 2, current, 2 * current + 1])
    return {"op": "npartitions", "n": n}


def divisions_request(rng, case):
    pdf, pieces, divisions = make_pieces(case)
    if divisions is None:
        divisions = (pdf.index[0], pdf.index[-1]) if len(pdf) else (0, 1)      # refused anyway (unknown divisions)
    labels = list(pdf.index)
    inner = [v for v in labels if divisions[0] < v < divisions[-1]]
    k = rng.choice([0, 1, 2, 3, 5, 8])
    cut = set(rng.sample(inner, min(k, len(inner))))
    for d in divisions[1:-1]:
        if rng.random() < 0.4:
            cut.add(d)                                                           # an old boundary kept
    new = [divisions[0]] + sorted(cut) + [divisions[-1]]
    force = rng.random() < 0.3
    if force and case["index"] in ("int", "float"):
        if rng.random() < 0.6:
            new[0] = new[0] - 3
        if rng.random() < 0.6:
            new[-1] = new[-1] + 5
    if rng.random() < 0.15:
        new.append(new[-1])                                                      # single-label last partition
    return {"op": "divisions", "divisions": [_json_label(v) for v in new], "force": force}


def freq_request(rng):
    return {"op": "freq", "freq": rng.choice(["2D", "5D", "36h", "10D", "W", "MS"])}


def make_case(rng, idx, pattern, kind, source=None, consumer=None, size_mode=None):
    """kind: 'size' | 'npartitions' | 'divisions' | 'freq' | 'chain'."""
    empty = "0" in pattern
    if source is None:
        source = rng.choice(UNKNOWN_SOURCES if empty else SOURCES)
    index = rng.choice(["int", "int", "float", "datetime", "str"])
    if kind == "freq":
        index = "datetime"
    case = {
        "kind": "repartition-family", "pattern": pattern, "lengths": lengths_of(pattern, rng), "source": source,
        "index": index, "columns": rng.choice(["num", "num", "str", "cat", "mixed"]), "nulls": rng.choice([False, True]),
        "data_seed": idx, "receiver": rng.choice(["frame", "frame", "frame", "series"]),
        "consumer": consumer if consumer is not None else rng.choice(CONSUMERS),
    }
    n = len(pattern)
    if kind == "size":
        reqs = [size_request(rng, case, size_mode or rng.choice(["between", "between", "between", "below", "above", "deep", "merge"]))]
    elif kind == "npartitions":
        reqs = [npartitions_request(rng, n)]
    elif kind == "divisions":
        reqs = [divisions_request(rng, case)]
    elif kind == "freq":
        reqs = [freq_request(rng)]
    else:
        first = rng.choice(["size", "npartitions", "divisions"] if source in KNOWN_SOURCES else ["size", "npartitions"])
        if first == "size":
            reqs = [size_request(rng, case, rng.choice(["between", "between", "deep", "merge"]))]
        elif first == "npartitions":
            reqs = [npartitions_request(rng, n)]
        else:
            reqs = [divisions_request(rng, case)]
        second = rng.choice(["size", "npartitions", "npartitions"])
        if second == "size":
            reqs.append(size_request(rng, case, rng.choice(["between", "deep", "merge", "above"])))
        else:
            reqs.append(npartitions_request(rng, rng.randint(1, n + 2)))
    case["requests"] = reqs
    return case


def _abbr(v, n=90):
    s = repr(v)
    return s if len(s) <= n else s[:n] + "..."


def tag_of(case):
    if case["kind"] == "repartition-family-pair":
        return "repartition-pair: {%s} ++ {%s}" % (tag_of(case["a"]), tag_of(case["b"]))

    def rq(r):
        if r["op"] == "partition_size":
            return "partition_size=%r" % (r["size"],)
        if r["op"] == "npartitions":
            return "npartitions=%d" % r["n"]
        if r["op"] == "freq":
            return "freq=%r" % r["freq"]
        return "divisions=%s%s" % (_abbr(r["divisions"]), ",force" if r.get("force") else "")
    return "repartition:%s of %s rows=%s src=%s index=%s cols=%s nulls=%s -> %s seed=%d" % (
        " | ".join(rq(r) for r in case["requests"]), case["receiver"], case["lengths"], case["source"], case["index"], case["columns"],
        case["nulls"], case["consumer"], case["data_seed"])


# ----------------------------------------------------------------------------- enumeration

def _patterns(alphabet, lengths):
    for n in lengths:
        for p in itertools.product(alphabet, repeat=n):
            yield "".join(p)


def enumerate_cases(run, quick):
    rng = run.rng
    idx = 0
    singles = []
    # partition_size, thresholds between the small and the big partitions: EVERY pattern of big / small partitions
    for pattern in _patterns("BS", [2, 3, 4] if quick else [2, 3, 4, 5, 6]):
        idx += 1
        c = make_case(rng, idx, pattern, "size", size_mode="between", consumer=rng.choice(["none", "none", rng.choice(CONSUMERS)]))
        singles.append(c)
        yield c
    # partition_size on wider alphabets (very big -> >= 3 pieces, medium, empty partitions), every threshold mode
    for _ in range(20 if quick else 300):
        idx += 1
        pattern = "".join(rng.choice("BSSXM0") for _ in range(rng.randint(1, 6)))
        c = make_case(rng, idx, pattern, "size")
        singles.append(c)
        yield c
    for kind, nq, nt in (("npartitions", 16, 200), ("divisions", 16, 200), ("freq", 5, 40), ("chain", 12, 200)):
        for _ in range(nq if quick else nt):
            idx += 1
            pattern = "".join(rng.choice("BSSM") for _ in range(rng.randint(1, 6)))
            source = rng.choice(KNOWN_SOURCES) if kind in ("divisions", "freq") else None
            if kind == "npartitions" and rng.random() < 0.4:
                source = rng.choice(UNKNOWN_SOURCES)      # unknown divisions: RepartitionToMore when the count grows
            c = make_case(rng, idx, pattern, kind, source=source)
            singles.append(c)
            yield c
    # two repartitions of ONE source in one graph (their split / alias / concat layers must not collide)
    for _ in range(10 if quick else 150):
        idx += 1
        a = dict(rng.choice(singles), consumer=rng.choice(["none", "project", "elemwise"]))
        kind = rng.choice(["size", "size", "npartitions", "divisions"])
        b = make_case(rng, idx, a["pattern"], kind, source=a["source"], consumer=rng.choice(["none", "filter", "elemwise"]))
        for k in ("lengths", "index", "columns", "nulls", "data_seed", "receiver"):
            b[k] = a[k]
        if kind == "size":
            b["requests"] = [size_request(rng, b, rng.choice(["between", "deep", "merge"]))]
        elif kind == "divisions":
            b["requests"] = [divisions_request(rng, b)]
        yield {"kind": "repartition-family-pair", "a": a, "b": b}


def _describe_layout(un, rt, stats):
    """Which branches of the hand-written layers the case reaches (evidence: the family is not vacuous)."""
    for e in rt.find(un, "RepartitionSize"):
        ns = try_(lambda: [int(k) for k in e._nsplits])
        if ns[0] != "ok":
            continue
        ns = ns[1]
        if any(k > 1 for k in ns) and any(k == 1 for k in ns):
            stats["partition_size: split and pass-through partitions mixed"] += 1
            first = min(i for i, k in enumerate(ns) if k > 1)
            if any(k == 1 for k in ns[first + 1:]):
                stats["partition_size: pass-through after a split"] += 1
        elif any(k > 1 for k in ns):
            stats["partition_size: all split"] += 1
        else:
            stats["partition_size: none split"] += 1
    for nm in ("RepartitionToFewer", "RepartitionToMore", "RepartitionDivisions"):
        if rt.find(un, nm):
            stats["plans with " + nm] += 1


def plans(run, rt, quick):
    """(tag, lowered expression, case dict) for every case x stage.  The caller materializes the graph: a plan that lowers and
    reports its output keys but whose graph cannot be built is a violation there ("graph materialization fails")."""
    stats = collections.Counter()
    refusals = collections.defaultdict(list)
    import time
    t0 = time.time()
    for case in enumerate_cases(run, quick):
        tag = tag_of(case)
        c = try_(lambda: build(case, rt.dx))
        if c[0] == "raise":
            stats["refused at construction"] += 1
            refusals[c[1].split(":")[0] + " @construction"].append(tag)
            continue
        coll = c[1]
        un = try_(lambda: coll.expr.lower_completely())
        if un[0] == "raise":
            stats["refused while lowering"] += 1
            refusals[un[1][:90] + " @lowering"].append(tag)
            continue
        un = un[1]
        stats["cases"] += 1
        _describe_layout(un, rt, stats)
        stages = [("unoptimized", lambda: un),
                  ("fuse=False", lambda: coll.optimize(fuse=False).expr),
                  ("fuse=True", lambda: coll.optimize(fuse=True).expr)]
        if not quick:
            stages += [(st, (lambda st=st: e2e.stage_expr(coll.expr, st))) for st in STAGES]
        for st, th in stages:
            e = try_(th)
            if e[0] != "ok":
                stats["stage fails: " + st] += 1
                continue
            stats["plans"] += 1
            yield (tag + " @" + st, e[1], dict(case, stage=st))
    run.section("repartition family refusals", **{k: {"count": len(v), "first": v[0][:300]} for k, v in sorted(refusals.items())})
    stats["wall seconds incl certification"] = round(time.time() - t0, 1)
    run.section("repartition family", **{k.replace(" ", "_").replace(":", "").replace("-", "_"): v for k, v in stats.items()})


def extra_problems(expr, info):
    """'a task for each reported output key (name, 0..npartitions-1)', read literally."""
    problems = []
    want = [(expr._name, i) for i in range(expr.npartitions)]
    outs = list(info["outs"])
    if outs != want:
        problems.append("reported output keys %s are not (name, 0..npartitions-1) = %s" % (_abbr(outs), _abbr(want)))
    return problems
