"""C11 family: head / tail of SORTED frames -- sort x key kind x input layout x selection x operation in between.

``sort_values(...).head(n)`` / ``.tail(n)`` and ``set_index(col).head(n)`` / ``.tail(n)`` are not computed by sorting: the optimizer
rewrites them into a tree reduction over the INPUT partitions (``NFirst`` / ``NLast``: chunk = "sort the partition, keep n rows",
combine = the same over batches of ``split_every`` = 8 intermediate results, aggregate = the same over what is left), and the
selection reaches the sort through every element-wise operation above it.  Whether the tree has 0, 1 or 2 combine levels depends
only on the number of input partitions (<= 8, 9..64, > 64), so the family enumerates

    layout      from_pandas with 1 / 3 / 8 / 9 / 12 / 20 / 70 partitions (shuffled unique labels, no divisions), from_pandas with
                divisions, from_map over uneven pieces incl. empty ones (11 and 26 pieces)
    key kind    distinct ints | ints with ties | floats with missing values | strings with ties | timestamps
    sort        sort_values(by one key | two keys, ascending True / False / mixed list, na_position first / last, npartitions=...)
                | set_index(key, drop=True / False, npartitions=...)
    selection   head(n) | head(n, npartitions=2 / -1) | tail(n) | head-of-tail, tail-of-head, tail-of-tail,
                n in {1, 4, 13 (more than one input partition holds), more than the frame holds}
    between     nothing | + 1 | projections keeping / dropping / reordering the key | a column | assign | fillna | column * scalar + column.fillna |
                column + reduction of the sorted frame | abs | filter (selection not pushed down)

Oracle: pandas on the same data.  The frame is sorted by pandas (stable), the operation in between is applied to it and every
row of the result is identified by its label and values (the data carry a unique row id, so rows are distinguishable).  A returned
selection is right iff it consists of DISTINCT rows of that frame whose sort keys, in order, are the keys of the expected rows:
ties among equal keys may be broken either way (the partitions of a parallel sort are not stable), everything else is exact.
The property speaks of "the first n rows of the first k partitions / the last n rows of the last partition": a result that
differs from the global selection but equals exactly that, taken from the computed partitions of the un-selected collection, is
accepted as well (so the check never demands more than the statement).  A selection that raises while the un-selected collection
computes is a violation ("selection never turns a computable query into an error").

A case is a small dict; `build(case, dx)` reconstructs data, collection and selection from it.
"""
import random

import numpy as np
import pandas as pd

from e2e import _norm, canon, concat_parts, exec_expr, try_, _short


# ----------------------------------------------------------------------------- data

KEY_KINDS = ("distinct", "ties", "float-nan", "str", "datetime")
NUMERIC_KINDS = ("distinct", "ties", "float-nan")


def make_pdf(kind, nrows, seed):
    r = random.Random(seed * 1009 + nrows * 13 + KEY_KINDS.index(kind))
    perm = list(range(nrows))
    r.shuffle(perm)
    if kind == "distinct":
        a = np.array([p - nrows // 3 for p in perm], dtype="int64")
    elif kind == "ties":
        a = np.array([r.randrange(max(2, nrows // 6)) for _ in range(nrows)], dtype="int64")
    elif kind == "float-nan":
        a = np.array([p + 0.5 if r.random() > 0.12 else np.nan for p in perm], dtype="float64")
    elif kind == "str":
        a = np.array(["k%04d" % (p // 2 if r.random() < 0.3 else p) for p in perm], dtype=object)
    elif kind == "datetime":
        a = pd.Timestamp("2001-01-01") + pd.to_timedelta(perm, unit="D")
    else:
        raise KeyError(kind)
    labels = list(range(1000, 1000 + nrows))
    r.shuffle(labels)
    return pd.DataFrame({
        "a": a,
        "b": np.array([r.randrange(5) for _ in range(nrows)], dtype="int64"),
        "c": np.arange(nrows, dtype="float64"),                                        # unique row id
        "d": np.array([float(r.randrange(50)) if r.random() > 0.1 else np.nan for _ in range(nrows)]),
    }, index=pd.Index(labels, name="lab"))


class _Pieces:
    """Partition function of from_map with a stable token."""

    def __init__(self, pieces, token):
        self.pieces, self.token = pieces, token

    def __call__(self, i):
        return self.pieces[i]

    def __dask_tokenize__(self):
        return ("c11-sorted-pieces",) + tuple(self.token)


def layouts(quick):
    """(name, nrows, how): how = ("pandas", npartitions) | ("divisions", npartitions) | ("map", npieces)."""
    out = [("from_pandas/%d" % k, 120 if k <= 20 else 3 * k, ("pandas", k)) for k in (1, 3, 8, 9, 12, 20, 70)]
    out.append(("from_pandas divisions/10", 120, ("divisions", 10)))
    out.append(("from_map uneven/11", 90, ("map", 11)))
    out.append(("from_map uneven/26", 150, ("map", 26)))
    if not quick:
        out += [("from_pandas/%d" % k, 4 * k, ("pandas", k)) for k in (2, 16, 17, 64, 65, 130)]
        out.append(("from_map uneven/67", 260, ("map", 67)))
    return out


def make_source(dx, pdf, how, seed):
    kind, k = how
    if kind == "pandas":
        return dx.from_pandas(pdf, npartitions=k, sort=False)
    if kind == "divisions":
        return dx.from_pandas(pdf.sort_index(kind="stable"), npartitions=k, sort=True)
    r = random.Random(seed * 31 + k)
    cuts = sorted(r.randrange(len(pdf) + 1) for _ in range(k - 1))
    if k > 4:
        cuts[1] = cuts[0]                       # an empty piece in front
        cuts[-2] = cuts[-1]                     # and one near the end
    bounds = [0] + cuts + [len(pdf)]
    pieces = [pdf.iloc[x:y] for x, y in zip(bounds, bounds[1:])]
    return dx.from_map(_Pieces(pieces, ("map", k, seed, len(pdf), str(pdf["a"].dtype))), list(range(k)), meta=pdf.iloc[:0])


def source_pdf(pdf, how):
    """The rows in the order the collection holds them."""
    return pdf.sort_index(kind="stable") if how[0] == "divisions" else pdf


# ----------------------------------------------------------------------------- sorts

def sorts():
    """name -> (kind of sort, keyword arguments, allowed key kinds or None)."""
    return {
        "sort_values(a)": ("sort", dict(by="a"), None),
        "sort_values(a, desc)": ("sort", dict(by="a", ascending=False), None),
        "sort_values(a, na first)": ("sort", dict(by="a", na_position="first"), ("float-nan",)),
        "sort_values(a, desc, na first)": ("sort", dict(by="a", ascending=False, na_position="first"), ("float-nan",)),
        "sort_values([b, a])": ("sort", dict(by=["b", "a"]), None),
        "sort_values([b, a], [desc, asc])": ("sort", dict(by=["b", "a"], ascending=[False, True]), None),
        "sort_values([a, b], [asc, desc], na first)": ("sort", dict(by=["a", "b"], ascending=[True, False], na_position="first"), None),
        "sort_values(a, npartitions=3)": ("sort", dict(by="a", npartitions=3), None),
        "sort_values([a], [desc])": ("sort", dict(by=["a"], ascending=[False]), None),
        "set_index(a)": ("index", dict(other="a"), ("distinct", "ties", "str", "datetime")),
        "set_index(a, drop=False)": ("index", dict(other="a", drop=False), ("distinct", "ties", "str", "datetime")),
        "set_index(b, npartitions=2)": ("index", dict(other="b", npartitions=2), None),
    }


def apply_sort(d, spec):
    kind, kw, _ = spec
    if kind == "sort":
        return d.sort_values(**kw)
    kw = dict(kw)
    other = kw.pop("other")
    return d.set_index(other, **kw)


def pandas_sorted(pdf, spec):
    """(frame sorted by pandas (stable), list of the sort-key tuples of its rows)."""
    kind, kw, _ = spec
    if kind == "sort":
        by = kw["by"] if isinstance(kw["by"], list) else [kw["by"]]
        sp = pdf.sort_values(by=kw["by"], ascending=kw.get("ascending", True), na_position=kw.get("na_position", "last"), kind="stable")
        keys = list(zip(*[[_norm(v) for v in sp[c].tolist()] for c in by]))
    else:
        sp = pdf.set_index(kw["other"], drop=kw.get("drop", True)).sort_index(kind="stable")
        keys = [(_norm(v),) for v in sp.index.tolist()]
    return sp, keys


# ----------------------------------------------------------------------------- operations in between

def chains():
    """name -> (fn on a dask or pandas frame, needs numeric key, cheap (the selection reaches the sort))."""
    return {
        "identity": (lambda x: x, False, True),
        "+ 1": (lambda x: x + 1, True, True),
        "[[c, a]]": (lambda x: x[["c", "a"]] if "a" in x.columns else x[["c", "b"]], False, True),
        "[[c, d]] (key dropped)": (lambda x: x[["c", "d"]], False, True),
        "[c]": (lambda x: x["c"], False, True),
        "assign(z=c*2)": (lambda x: x.assign(z=x.c * 2), False, True),
        "[[c, d]].fillna(-1)": (lambda x: x[["c", "d"]].fillna(-1), False, True),
        "c * 100 + d.fillna(7)": (lambda x: x.c * 100 + x.d.fillna(7), False, True),
        "c + c.sum()": (lambda x: x.c + x.c.sum(), False, False),
        "[[c, d]].abs() + 1": (lambda x: x[["c", "d"]].abs() + 1, False, True),
        "[c > 4]": (lambda x: x[x.c > 4], False, False),
    }


# ----------------------------------------------------------------------------- selections

def select_positions(pos, ops):
    """The global reading: the rows of the sorted frame, as positions."""
    for op in ops:
        if op[0] == "head":
            pos = pos[:op[1]]
        else:
            pos = pos[max(0, len(pos) - op[1]):] if op[1] else []
    return pos


def select_dask(coll, ops):
    for op in ops:
        if op[0] == "head":
            coll = coll.head(op[1], npartitions=op[2], compute=False)
        else:
            coll = coll.tail(op[1], compute=False)
    return coll


def select_literal(parts, ops):
    """The literal reading on the computed partitions of the un-selected collection."""
    cur = None
    for op in ops:
        if cur is None:
            if op[0] == "head":
                k = len(parts) if op[2] == -1 else op[2]
                cur = concat_parts(parts[:k]).head(op[1])
            else:
                cur = parts[-1].tail(op[1])
        else:
            cur = cur.head(op[1]) if op[0] == "head" else cur.tail(op[1])
    return cur


def _ops_text(ops):
    return ".".join("head(%d%s)" % (o[1], "" if o[2] == 1 else ", npartitions=%d" % o[2]) if o[0] == "head" else "tail(%d)" % o[1] for o in ops)


def selections(nrows, npart_in, rnd, quick):
    big = nrows + 3
    single = []
    for n in (1, 4, 13, big):
        single.append([("head", n, 1)])
        single.append([("tail", n)])
    single += [[("head", 6, 2)], [("head", 9, -1)]]
    nested = [[("tail", 9), ("head", 3, 1)], [("head", 9, 1), ("tail", 3)], [("tail", 14), ("tail", 5)], [("head", 14, 1), ("head", 5, 1)]]
    if not quick:
        return single + nested
    # quick: the tail and the head with a middle n always, two more single selections and one nested one by chance
    n = rnd.choice((4, 13))
    return [[("tail", n)], [("head", n, 1)]] + rnd.sample(single, 2) + [rnd.choice(nested)]


# ----------------------------------------------------------------------------- one case

def _rows(obj):
    """Identity of every row: (label, values...) in canonical form."""
    c = canon(obj)
    return (c[0], c[1]), c[2]


def build(case, dx):
    """(pandas input in collection order, sort spec, un-selected dask collection, chain function)."""
    pdf = make_pdf(case["key_kind"], case["nrows"], case["data_seed"])
    how = tuple(case["layout"])
    spec = sorts()[case["sort"]]
    src = make_source(dx, pdf, how, case["data_seed"])
    fn = chains()[case["between"]][0]
    return source_pdf(pdf, how), spec, fn(apply_sort(src, spec)), fn


def check_case(case, dx, cache=None):
    """None if the case holds, ("skip", why) if it cannot be judged, else ("violation", text)."""
    built = try_(lambda: build(case, dx))
    if built[0] == "raise":
        return ("skip", "construction: " + built[1])
    pdf, spec, coll, fn = built[1]
    ops = [tuple(o) for o in case["ops"]]
    sp, keys = pandas_sorted(pdf, spec)
    ref = try_(lambda: fn(sp))
    if ref[0] == "raise":
        return ("skip", "pandas: " + ref[1])
    ref = ref[1]
    shape, ref_rows = _rows(ref)
    # a filter in between drops rows: positions are those of the rows that are left
    if len(ref_rows) != len(keys):
        kept = try_(lambda: [int(i) for i in fn(sp.assign(_pos=range(len(sp))))["_pos"].tolist()])
        if kept[0] == "raise" or len(kept[1]) != len(ref_rows):
            return ("skip", "the rows an operation drops cannot be located")
        keys = [keys[i] for i in kept[1]]
    where = {}
    for i, r in enumerate(ref_rows):
        where.setdefault(r, []).append(i)
    if any(len(v) > 1 for v in where.values()):
        return ("skip", "rows of the reference are not distinguishable")
    exp_pos = select_positions(list(range(len(ref_rows))), ops)
    what = "%s, %d rows, %s keys: %s%s then %s" % (case["layout_name"], case["nrows"], case["key_kind"], case["sort"],
                                                 "" if case["between"] == "identity" else " then x -> x" + case["between"] if case["between"][0] in "+[" else " then " + case["between"],
                                                 _ops_text(ops))

    def literal():
        key = (case["key_kind"], case["nrows"], case["data_seed"], case["layout_name"], case["sort"], case["between"])
        if cache is not None and key in cache:
            return cache[key]
        v = try_(lambda: exec_expr(coll.optimize(fuse=False).expr))
        if cache is not None:
            cache[key] = v
        return v

    got = try_(lambda: select_dask(coll, ops).compute())
    if got[0] == "raise":
        np_ = try_(lambda: coll.npartitions)
        if ops[0][0] == "head" and np_[0] == "ok" and ops[0][2] > np_[1]:
            return ("skip", "head(npartitions=k) with k above the number of partitions is refused")     # there are no "first k partitions"
        full = literal()
        if full[0] == "raise":
            return ("skip", "the un-selected collection does not compute: " + full[1])
        return ("violation", "%s raises %s, the collection itself computes" % (what, got[1]))
    got = got[1]
    gshape, got_rows = _rows(got)
    problem = None
    if gshape != shape:
        problem = "has columns %s, expected %s" % (gshape, shape)
    else:
        pos = [where.get(r, [None])[0] for r in got_rows]
        if None in pos:
            bad = got_rows[pos.index(None)]
            problem = "contains the row %s that is not a row of the computed collection" % (_short(bad),)
        elif len(set(pos)) != len(pos):
            problem = "contains a row twice"
        elif [keys[p] for p in pos] != [keys[p] for p in exp_pos]:
            problem = "returns rows with the sort keys %s, the sorted collection has %s there" % (
                _short([keys[p] for p in pos]), _short([keys[p] for p in exp_pos]))
    if problem is None:
        return None
    full = literal()
    if full[0] == "ok":
        lit = try_(lambda: select_literal(full[1], ops))
        if lit[0] == "ok" and canon(lit[1]) == canon(got):
            return None                                  # exactly what the statement says, read literally
    return ("violation", "%s %s" % (what, problem))


# ----------------------------------------------------------------------------- enumeration

def cases(rnd, quick):
    sorts_, chains_ = sorts(), chains()
    out = []
    for lname, nrows, how in layouts(quick):
        names = list(sorts_)
        if quick:
            # the two plain sorts always; three more by chance
            names = ["sort_values(a)", "set_index(a)"] + rnd.sample([s for s in names if s not in ("sort_values(a)", "set_index(a)")], 3)
        for sname in names:
            allowed = sorts_[sname][2] or KEY_KINDS
            plain = sname in ("sort_values(a)", "sort_values(a, desc)", "set_index(a)")
            kinds = [rnd.choice(allowed)] if quick else list(allowed) if plain else rnd.sample(list(allowed), min(2, len(allowed)))
            for kind in kinds:
                seed = rnd.randrange(1000)
                usable = [c for c, (_, numeric, cheap) in chains_.items() if (kind in NUMERIC_KINDS or not numeric)
                          and (cheap or how[1] <= 12)]
                others = [c for c in usable if c != "identity"]
                between = ["identity"] + ([rnd.choice(others)] if quick else rnd.sample(others, 5))
                for bi, b in enumerate(between):
                    sels = selections(nrows, how[1], rnd, quick)
                    if quick and bi == 1:
                        sels = sels[:2]
                    elif bi >= 1:
                        n = rnd.choice((1, 4, 13))
                        sels = [[("tail", n)], [("head", n, 1)]] + rnd.sample(sels, 2)
                    if not chains_[b][2]:
                        sels = sels[:3]                 # each of these runs the whole sort
                    for ops in sels:
                        out.append({"kind": "sorted-selection", "layout_name": lname, "layout": list(how), "nrows": nrows, "key_kind": kind,
                                    "data_seed": seed, "sort": sname, "between": b, "ops": [list(o) for o in ops]})
    return out


def sorted_family(run, rt, quick):
    rnd = run.rng
    cache = {}
    todo = cases(rnd, quick)
    nviol = nskip = 0
    skipped = {}
    seen_viol = set()
    for case in todo:
        ops = case["ops"]
        run.count(("sorted-selection", case["layout_name"], case["key_kind"], case["data_seed"], case["sort"], case["between"], repr(ops)),
                  nontrivial=case["layout"][1] > 1)
        r = check_case(case, rt.dx, cache)
        if r is None:
            continue
        if r[0] == "skip":
            nskip += 1
            skipped.setdefault(r[1][:80], 0)
            skipped[r[1][:80]] += 1
            continue
        nviol += 1
        # one report per (sort, layout, last selection kind): the replay file lists them all
        k = (case["sort"], case["layout_name"], ops[-1][0])
        if k in seen_viol:
            continue
        seen_viol.add(k)
        run.violation(r[1], case)
    run.section("sorted_selections", cases=len(todo), skipped=nskip, skip_reasons=skipped, failing=nviol,
                layouts=[l[0] for l in layouts(quick)], sorts=list(sorts()), between=list(chains()))
