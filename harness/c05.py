"""C05 -- results do not depend on task scheduling; tasks never mutate their inputs."""
import random

import common
import graphs
import c05_readers
import c05_keys
from e2e import canon, concat_parts, try_, _short


def _stable_sort(part, by, **kwargs):
    kwargs.setdefault("kind", "stable")
    return part.sort_values(by, **kwargs)


def _add_n(part, opts=None):
    out = part.copy()
    for c in opts["cols"]:
        out[c] = out[c] + opts["n"]
    return out


def workloads(run, rt, quick):
    import pandas as pd
    import gen
    import e2e
    n = 40 if quick else 600
    for idx in range(n):
        rng = random.Random(run.seed * 1000003 + 555 + idx)
        tables = gen.make_tables(rng, nrows=9, nulls=rng.choice([0.0, 0.2]))
        g = gen.ProgGen(rng, profile=rng.choice(["l1", "l2", "l3"]), max_steps=rng.randint(2, 6))
        prog = g.generate({"t0": list(tables["t0"].columns), "t1": list(tables["t1"].columns)})
        if idx % 3 == 0:
            # the user's frame in an arbitrary row order (from_pandas sorts a *copy*)
            perm = list(range(len(tables["t0"])))
            rng.shuffle(perm)
            tables["t0"] = tables["t0"].iloc[perm]
        fps = {t: graphs.fingerprint(x) for t, x in tables.items()}
        src = e2e.build_sources(tables, {"t0": ("npartitions", rng.choice([2, 3, 4])), "t1": ("npartitions", 2)}, rt)
        r = try_(lambda: gen.run_program(prog, src, True)[prog["result"]])
        if r[0] == "raise":
            continue
        yield (gen.describe(prog) + (" [t0 rows permuted]" if idx % 3 == 0 else ""), r[1], prog["ordered"] and idx % 3 != 0, prog.get("labels", True), tables, fps)
    pdf = pd.DataFrame({"a": range(12), "b": [i % 3 for i in range(12)], "c": [float(i % 4) for i in range(12)]})
    df = rt.dx.from_pandas(pdf, npartitions=4)
    small = rt.dx.from_pandas(pdf.iloc[:4], npartitions=1)
    special = {
        "assign chain shared": (lambda t: t.assign(z=t.a + 1).assign(w=t.b) + t.assign(z=t.a + 1))(df),
        "set_index + assign": df.set_index("a").assign(q=1),
        "shuffle tasks": df.shuffle("b", shuffle_method="tasks"),
        "shuffle disk": df.shuffle("b", shuffle_method="disk"),
        "shuffle disk max_branch=3 (5 partitions)": rt.dx.from_pandas(pdf, npartitions=5).shuffle("b", shuffle_method="disk", max_branch=3),
        "shuffle disk max_branch=2 (3 partitions)": rt.dx.from_pandas(pdf, npartitions=3).shuffle("b", shuffle_method="disk", max_branch=2),
        "shuffle disk npartitions=6": df.shuffle("b", shuffle_method="disk", npartitions=6),
        "shuffle tasks max_branch=2": df.shuffle("b", shuffle_method="tasks", max_branch=2),
        "set_index disk max_branch=3": rt.dx.from_pandas(pdf, npartitions=4).set_index("b", shuffle_method="disk", max_branch=3),
        "merge disk": df.merge(df, on="b", shuffle_method="disk", broadcast=False),
        "groupby split_out=2 disk": df.groupby("b").a.sum(split_out=2, shuffle_method="disk").to_frame(),
        "merge hash": df.merge(df, on="b", shuffle_method="tasks", broadcast=False),
        "merge broadcast": df.merge(small, on="b"),
        "groupby agg": df.groupby("b").agg({"a": "sum", "c": "max"}),
        "groupby apply": df.groupby("b").a.apply(lambda s: s.sum(), meta=("a", "int64")),
        "map_partitions udf": df.map_partitions(lambda p: p.assign(n=len(p))),
        "cumsum + shift": df.cumsum() + df.shift(1).fillna(0),
        "sort_values": df.sort_values("c"),
        "sort_values ignore_index": df.sort_values("c", ignore_index=True),
        "sort_values custom sort_function": df.sort_values("c", sort_function=_stable_sort, sort_function_kwargs={"kind": "stable"}),
        "sort_values custom sort_function ignore_index": df.sort_values("c", sort_function=_stable_sort, ignore_index=True),
        "map_partitions with shared kwargs": df.map_partitions(_add_n, opts={"n": 2, "cols": ["a"]}),
        "drop_duplicates": df.drop_duplicates(subset=["b"]),
        "fused shared": (lambda t: (t * 2) - (t + 3))(df + 1),
        "rename + index name": df.rename_axis(index="i").reset_index(),
        "where/mask": df.where(df.a > 3, 0).mask(df.b == 1, -1),
        "fillna+astype": df.astype({"a": "float64"}).fillna(0) + 1,
        "series rename": (df.a.rename("q") + df.b).to_frame(),
    }
    fps = {"pdf": graphs.fingerprint(pdf)}
    for tag, coll in special.items():
        yield ("special:" + tag, coll, not (tag.startswith(("shuffle", "merge", "groupby", "set_index")) or tag in ("sort_values", "drop_duplicates")),
               not (tag.startswith("merge") or tag in ("rename + index name", "drop_duplicates")), {"pdf": pdf}, fps)
    # sources handed over in every shape from_pandas / from_array / from_dict / repartition accept: the caller's object stays as it was
    import numpy as np
    order = [7, 2, 9, 0, 5, 11, 3, 8, 1, 10, 6, 4]
    users = {
        "frame with unsorted index": lambda: pdf.iloc[order],
        "frame with unsorted index and duplicates": lambda: pdf.iloc[order].set_axis([i % 5 for i in order], axis=0),
        "series with unsorted index": lambda: pdf.iloc[order].a,
        "frame with descending index": lambda: pdf.iloc[::-1],
        "frame with unsorted string index": lambda: pdf.set_axis(["k%02d" % i for i in order], axis=0),
    }
    for tag, mk in users.items():
        for sort in (True, False):
            for npart in (1, 3):
                obj = mk().copy()
                fp = {"user object": graphs.fingerprint(obj)}
                coll = try_(lambda: rt.dx.from_pandas(obj, npartitions=npart, sort=sort))
                if coll[0] == "raise":
                    continue
                q = coll[1] + 1 if tag.startswith("frame") else coll[1] * 2
                yield ("user source: %s sort=%s npartitions=%d" % (tag, sort, npart), q, False, True, {"user object": obj}, fp)
    arr = np.arange(24.0).reshape(12, 2)
    fp = {"array": graphs.fingerprint(arr)}
    yield ("user source: numpy array", rt.dx.from_array(arr, chunksize=5, columns=["p", "q"]) * 2, True, True, {"array": arr}, fp)
    obj = pdf.iloc[order].copy()
    fp = {"user object": graphs.fingerprint(obj)}
    r = try_(lambda: rt.dx.repartition(obj, divisions=[0, 4, 11]))
    if r[0] == "ok":
        yield ("user source: repartition(pandas frame with unsorted index, divisions)", r[1] + 1, False, True, {"user object": obj}, fp)


def run(run):
    import dask
    import rt
    run.trusted = common.COMMON_TRUSTED + [
        "the purity of pandas functions and user functions inside tasks (hypothesis `pure interp` of the determinacy theorem) is OBSERVED by hashing every task argument before and after each call, not proved",
        "real thread interleavings, the GIL and partd file I/O are only observed (threaded scheduler with 1..16 threads); the model cannot exhibit them",
    ]
    run.rule = ("each workload graph executed under random / reverse-priority / LIFO / FIFO topological orders by the harness's own sequential executor (with argument fingerprints before/after every task), "
                "under the threaded scheduler with 1,2,4,8,16 threads, and twice more for repeatability; results compared (row order ignored inside disk-shuffled partitions); "
                "source pandas objects fingerprinted before/after; non-trivial = graph with a key that has >= 2 consumers; "
                "file readers with user option objects (read_parquet pyarrow-filesystem / fsspec readers x arrow_to_pandas types_mapper / ignore_metadata / to_pandas flags / dtype_backend / columns / filters / index, "
                "read_csv dtype / converters / na_values, from_map args) x datasets of 1..5 files with and without nulls and integers > 2**53 x queries x histories (fresh, computed before, one partition / head first, "
                "parent or sibling collection from the same option objects computed, threads first): every partition under adversarial orders (each output's sub-graph first), reverse, LIFO, random, "
                "compared dtype-exactly with the same query built from copies of the options and executed with private copies of every task input; compute() twice + threaded + vs a fresh collection; "
                "the user's option objects fingerprinted before/after (harness/c05_readers.py); "
                "hash partitioning by keys: shuffle (tasks / disk, max_branch, ignore_index), hash joins, groupby / drop_duplicates / unique / value_counts with split_out, set_index, sort_values "
                "x keys spelled as labels / index / Series collection / DataFrame collection (1-2 columns, derived, the base of the frame, the frame itself) x key dtypes (ints, floats, strings, categoricals, nullable, "
                "datetime64 / timedelta64 in ns/us/ms/s, tz-aware) x missing values x partitions in/out x lazy or persisted base x fusion: the query and another consumer of the keys / base partitions in ONE graph under "
                "adversarial orders (either consumer first), reverse, random, with argument fingerprints, compared dtype-exactly with the execution on private task inputs; the query computed repeatedly and on threads; "
                "the base / keys collections computed before and after; the user's frames fingerprinted (harness/c05_keys.py)")
    run.proofs("PropC05.v")
    quick = run.tier == "quick"
    K = 4 if quick else 12
    n = 0
    shared_graphs = 0
    for tag, coll, ordered, labels, tables, src_fp in workloads(run, rt, quick):
        e = try_(lambda: coll.optimize(fuse=(n % 2 == 0)).expr)
        if e[0] == "raise":
            continue
        info = try_(lambda: graphs.analyse(e[1]))
        if info[0] == "raise":
            continue
        info = info[1]
        n += 1
        consumers = {}
        for k, ds in info["deps"].items():
            for d in ds:
                consumers[d] = consumers.get(d, 0) + 1
        shared = any(v >= 2 for v in consumers.values())
        shared_graphs += shared
        run.count(("workload", tag), nontrivial=shared)
        disk = "disk" in tag or "'method': 'disk'" in tag
        ref = None
        rng = random.Random(run.seed + n)
        policies = ["fifo", "reverse", "lifo", "demand"] + ["random"] * K
        for pol in policies:
            if disk:
                # a disk shuffle graph carries fresh partd keys per materialization: re-materialize per run
                info2 = graphs.analyse(coll.optimize(fuse=(n % 2 == 0)).expr)
            else:
                info2 = info
            r = try_(lambda: graphs.run_schedule(info2, rng, pol))
            if r[0] == "raise":
                run.violation("execution under schedule policy %s fails: %s [%s]" % (pol, r[1], tag[:300]), {"kind": "schedule", "policy": pol, "workload": tag})
                break
            vals, muts = r[1]
            for mu in muts[:3]:
                run.violation("%s [%s]" % (mu, tag[:300]), {"kind": "mutation", "workload": tag})
            c = canon(concat_parts(vals), ordered and not disk, labels)
            if ref is None:
                ref = c
            elif c != ref:
                run.violation("result depends on the schedule (%s): %s vs %s [%s]" % (pol, _short(c), _short(ref), tag[:300]), {"kind": "schedule", "policy": pol, "workload": tag})
                break
        for nthreads in ((1, 4) if quick else (1, 2, 4, 8, 16)):
            # the same optimized plan that was analysed above (dask.compute(coll) would lower the *unoptimized* plan)
            oc = rt.dx.new_collection(e[1])
            r = try_(lambda: dask.compute(oc, scheduler="threads", num_workers=nthreads)[0])
            if r[0] == "ok" and ref is not None:
                c = canon(r[1], ordered and not disk, labels)
                if c != ref:
                    run.violation("threaded scheduler (%d threads) result differs: %s vs %s [%s]" % (nthreads, _short(c), _short(ref), tag[:300]),
                                  {"kind": "threads", "threads": nthreads, "workload": tag})
            elif r[0] == "raise" and ref is not None:
                run.violation("threaded scheduler (%d threads) fails: %s [%s]" % (nthreads, r[1], tag[:300]), {"kind": "threads", "workload": tag})
        for t, x in tables.items():
            if graphs.fingerprint(x) != src_fp[t]:
                run.violation("the user's source object %s was modified by computing [%s]" % (t, tag[:300]), {"kind": "source-mutation", "workload": tag})
        if n == 3:
            run.sample({"workload": tag[:200], "keys": info["nkeys"], "policies": policies})
    run.section("schedules", workloads=n, with_shared_keys=shared_graphs, orders_per_workload=4 + K)
    c05_readers.run_family(run, rt)
    c05_keys.run_family(run, rt)
