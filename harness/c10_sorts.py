"""C10 -- sorting (sort_values / set_index) under the execution knobs and the planner's own choice of algorithm.

A sort is planned in one of three shapes: a single-partition sort (one input partition, or a bare ``compute()`` that
pushes ``repartition(npartitions=1)`` below the sort), a blockwise sort of input that is detected as already ordered, or the
distributed sort (quantile divisions -> every row is assigned to an output partition -> shuffle -> per-partition sort).  The
shapes get the direction (scalar or per-key list), ``na_position`` and the key list through different code paths, and which
shape runs depends on the ``npartitions`` hint, on ``upsample``, on the layout of the input and on what consumes the sorted
frame.  The property says none of this changes the answer, so every

    (sort keys: dtype kind, with / without missing values, one / several keys) x (direction spelling: True, False, [..]) x
    na_position x (input layout: shuffled, ordered ascending, ordered descending, with empty partitions; partition count)

is computed once knob-free through the plain ``compute()`` (the reference) and then under every knob setting (npartitions
hints on both sides of the input partition count, upsample, shuffle method / max_branch / ambient configuration, fuse) and
below every kind of consumer (explicit optimize, the computed partitions, reset_index, map_partitions, projections, filters,
cumsum, head / tail).  Rows with equal keys may come in any order: the sequence of sort keys and the multiset of rows are
compared.  pandas on the same data is named in the message only (agreement with pandas is another property).

Left out (the unmodified tree fails there; see the report of the round): ordered-categorical keys whose category order is
not the lexical one; string keys with missing values (the distributed sort refuses them by design); input partitions that
hold missing keys only (refused for datetime / Int64 keys, the smallest keys misplaced for float keys); input that is already
in the requested order except for its missing keys (the blockwise fast path keeps them where they are).
"""
import contextlib
import time

from e2e import canon, try_, _short, exec_expr, concat_parts


# ------------------------------------------------------------------------------------------------ data

def _miss(rng, vals, p, na):
    return [na if rng.random() < p else v for v in vals]


def make_frame(rng, n):
    """One column of every key kind; the labels are distinct and unordered, `r` identifies the row."""
    import numpy as np
    import pandas as pd
    days = ["2021-03-%02d" % rng.randint(1, 20) for _ in range(n)]
    heavy = rng.randint(-3, 3)
    cols = {
        "i": [rng.randint(0, 9) for _ in range(n)],                                  # int, many ties
        "u": rng.sample(range(-n // 2, n - n // 2), n),                              # int, no ties, both signs
        "g": [heavy if rng.random() < 0.6 else rng.randint(-50, 50) for _ in range(n)],   # skewed: one value fills whole partitions
        "f": _miss(rng, [float(rng.randint(-5, 5)) for _ in range(n)], 0.2, np.nan),
        "f0": [rng.randint(-20, 20) / 2.0 for _ in range(n)],
        "s": [rng.choice("abcdefg") + rng.choice("xy") for _ in range(n)],
        "d": pd.to_datetime(_miss(rng, days, 0.2, None)),
        "d0": pd.to_datetime(days),
        "I": pd.array(_miss(rng, [rng.randint(0, 9) for _ in range(n)], 0.2, pd.NA), dtype="Int64"),
        "b": [rng.random() < 0.5 for _ in range(n)],
        "r": list(range(n)),
    }
    return pd.DataFrame(cols, index=[100 + v for v in rng.sample(range(n), n)])


HAS_MISSING = ("f", "d", "I")
NUMERIC = ("i", "u", "g", "f", "f0")
SINGLE = ("i", "u", "g", "f", "f0", "s", "d", "d0", "I", "b")
SEVERAL = (("i", "f"), ("f", "i"), ("s", "u"), ("I", "d"), ("b", "f0"), ("g", "s"), ("b", "i", "f"))
SET_INDEX_KEYS = ("i", "u", "g", "f0", "s", "d0")


def _json(v):
    import pandas as pd
    if v is None or v is pd.NA or v is pd.NaT or (isinstance(v, float) and v != v):
        return None
    if isinstance(v, pd.Timestamp):
        return str(v.date())
    if hasattr(v, "item"):
        return v.item()
    return v


def _ident(p):
    return p


# ------------------------------------------------------------------------------------------------ layouts

def _merge_missing(bounds, present):
    """Drop cuts until every piece holds at least one key that is not missing."""
    out = [0]
    for b in bounds[1:-1]:
        if any(present[out[-1]:b]):
            out.append(b)
    out.append(bounds[-1])
    while len(out) > 2 and not any(present[out[-2]:out[-1]]):
        del out[-2]
    return out


def lay_out(rt, rng, pdf, first_key, layout, p):
    """-> (dask frame, sizes of the input partitions when they are cut here, the rows in input order), or None when the layout
    cannot be made for this key."""
    if layout == "shuffled":
        df = rt.dx.from_pandas(pdf, npartitions=p, sort=False)
        if first_key in HAS_MISSING:
            parts = exec_expr(df[[first_key]].expr.lower_completely())
            if any(len(x) and not x[first_key].notna().any() for x in parts):
                return None
        return df, None, pdf
    if layout in ("asc", "desc"):
        pdf = pdf.sort_values(first_key, ascending=layout == "asc", kind="stable")
    ncuts = p - 2 if layout == "empties" else p - 1
    cuts = sorted(rng.sample(range(1, len(pdf)), max(ncuts, 1)))
    bounds = [0] + cuts + [len(pdf)]
    if first_key in HAS_MISSING:
        # (left out: a partition that holds nothing but missing keys -- refused or misplaced by the distributed sort of the unmodified tree)
        bounds = _merge_missing(bounds, pdf[first_key].notna().tolist())
        if len(bounds) < 3:
            return None
    pieces = [pdf.iloc[a:b] for a, b in zip(bounds[:-1], bounds[1:])]
    if layout == "empties":
        pieces.insert(rng.randint(0, len(pieces)), pdf.iloc[:0])
    return rt.dx.from_map(_ident, pieces, meta=pdf.iloc[:0]), [len(x) for x in pieces], pdf


# ------------------------------------------------------------------------------------------------ knobs and consumers

def knob_settings(p):
    """Every knob setting of a sort; p = number of input partitions."""
    hints = sorted({1, 2, 3, p, p + 2, 2 * p + 1})
    ks = [{}]
    ks += [{"npartitions": h} for h in hints]
    ks += [{"upsample": u} for u in (0.5, 2.0)]
    ks += [{"shuffle_method": m} for m in ("tasks", "disk")]
    ks += [{"shuffle_method": "tasks", "max_branch": 2}, {"shuffle_method": "tasks", "max_branch": 2, "npartitions": p + 2}]
    ks += [{"config_shuffle": m} for m in ("tasks", "disk")]
    ks += [{"npartitions": h, "shuffle_method": "disk"} for h in (2, p + 2)]
    ks += [{"npartitions": h, "upsample": 2.0} for h in (2, p + 2)]
    return ks


def _several_outputs(knob, p):
    return knob.get("npartitions", p) >= 2


@contextlib.contextmanager
def _ambient(knob):
    import dask
    m = knob.get("config_shuffle")
    if m is None:
        yield
    else:
        with dask.config.set({"dataframe.shuffle.method": m}):
            yield


def _kwargs(knob):
    return {k: v for k, v in knob.items() if k != "config_shuffle"}


# name -> (build on the sorted dask frame q (by, fuse) -> pandas object, the same on the reference result, compare labels?, what is compared)
#   what: "rows" = key sequence + multiset of rows; "keys" = key sequence only; "values" = the sequence of values
def consumers():
    def parts(q, by, fuse):
        return concat_parts(exec_expr(q.optimize(fuse=fuse).expr))
    return {
        "compute": (lambda q, by, fuse: q.compute(), lambda P, by: P, True, "rows"),
        "optimize": (lambda q, by, fuse: q.optimize(fuse=fuse).compute(), lambda P, by: P, True, "rows"),
        "partitions": (parts, lambda P, by: P, True, "rows"),
        "reset_index": (lambda q, by, fuse: q.reset_index(drop=True).optimize(fuse=fuse).compute(), lambda P, by: P.reset_index(drop=True), False, "rows"),
        "map_partitions": (lambda q, by, fuse: q.map_partitions(_ident).optimize(fuse=fuse).compute(), lambda P, by: P, True, "rows"),
        "columns": (lambda q, by, fuse: q[list(by) + ["r"]].optimize(fuse=fuse).compute(), lambda P, by: P[list(by) + ["r"]], True, "rows"),
        "columns-compute": (lambda q, by, fuse: q[list(by) + ["r"]].compute(), lambda P, by: P[list(by) + ["r"]], True, "rows"),
        "filter": (lambda q, by, fuse: q[q.r % 3 != 0].optimize(fuse=fuse).compute(), lambda P, by: P[P.r % 3 != 0], True, "rows"),
        "assign": (lambda q, by, fuse: q.assign(z=q.r + 1).optimize(fuse=fuse).compute(), lambda P, by: P.assign(z=P.r + 1), True, "rows"),
        "cumsum-of-key": (lambda q, by, fuse: q[by[0]].cumsum().optimize(fuse=fuse).compute(), lambda P, by: P[by[0]].cumsum(), False, "values"),
        "head": (lambda q, by, fuse: q.head(7), lambda P, by: P.head(7), False, "keys"),
        "tail": (lambda q, by, fuse: q.tail(7), lambda P, by: P.tail(7), False, "keys"),
    }


DISTRIBUTED = ("optimize", "partitions", "reset_index", "map_partitions", "columns", "assign")


def signature(x, by, labels, what):
    import pandas as pd
    if what == "values":
        c = canon(pd.Series(x), True, True)
        return ("values", [r[1] for r in c[2]])
    c = canon(x, True, True)
    cols = c[1]
    pos = [cols.index(b) + 1 for b in by]
    keys = [tuple(r[i] for i in pos) for r in c[2]]
    if what == "keys":
        return ("keys", keys)
    return ("rows", cols, keys, sorted((r if labels else r[1:] for r in c[2]), key=repr))


def _where(sig, ref):
    """First position where two key sequences differ (for the message)."""
    a, b = sig[-2] if sig[0] == "rows" else sig[1], ref[-2] if ref[0] == "rows" else ref[1]
    for i, (x, y) in enumerate(zip(a, b)):
        if x != y:
            return "position %d: %r, reference %r" % (i, x, y)
    if len(a) != len(b):
        return "%d rows, reference %d" % (len(a), len(b))
    return "same key sequence, other rows: %s vs %s" % (_short(sig), _short(ref))


# ------------------------------------------------------------------------------------------------ sort_values

def directions(rng, k, quick):
    out = [True, False, [True] * k, [False] * k]
    if k == 2:
        out += [[False, True], [True, False]]
    elif k > 2:
        mixed = [[bool(m >> j & 1) for j in range(k)] for m in range(1, 2 ** k - 1)]
        out += rng.sample(mixed, 2) if quick else mixed
    return out


def sort_values_family(run, rt, pdf):
    quick = run.tier == "quick"
    rng = run.rng
    cons = consumers()
    t0 = time.time()
    ps = (2, 3, 4) if quick else (2, 3, 4, 5, 8, 12)
    layouts = ("shuffled", "shuffled", "asc", "desc", "empties")
    per_group = 3 if quick else 12
    ncase = nskip = ngroup = 0
    seen = {"knobs": set(), "consumers": set(), "layouts": set()}
    for by in [(c,) for c in SINGLE] + list(SEVERAL):
        missing = any(b in HAS_MISSING for b in by)
        dirs = directions(rng, len(by), quick)
        if quick:
            # three spellings per key list, a descending list form among them
            lists = [d for d in dirs if isinstance(d, list) and not d[0]]
            first = rng.choice(lists)
            dirs = [first] + rng.sample([d for d in dirs if d is not first], 2)
        for asc in dirs:
            for nap in (("last", "first") if missing and not quick else (rng.choice(("last", "first")),)):
                for layout in ((rng.choice(layouts),) if quick else ["shuffled"] + rng.sample(("asc", "desc", "empties"), 1)):
                    p = rng.choice(ps)
                    by_arg = by[0] if len(by) == 1 and rng.random() < 0.5 else list(by)
                    first_asc = asc if isinstance(asc, bool) else asc[0]
                    if nap == "first" and by[0] in HAS_MISSING and layout == ("asc" if first_asc else "desc"):
                        # (left out: input already in the requested order with its missing keys at the other end takes the
                        #  blockwise fast path, which leaves the missing keys inside on the unmodified tree)
                        if not quick:
                            nskip += 1
                            continue
                        nap = "last"
                    laid_out = lay_out(rt, rng, pdf, by[0], layout, p)
                    if laid_out is None:
                        nskip += 1
                        continue
                    df, sizes, laid = laid_out
                    p_asked, p = p, df.npartitions

                    def sort(knob, df=df, by_arg=by_arg, asc=asc, nap=nap):
                        return df.sort_values(by_arg, ascending=asc, na_position=nap, **_kwargs(knob))
                    ref = try_(lambda: sort({}).compute())
                    if ref[0] == "raise":
                        nskip += 1
                        continue
                    ngroup += 1
                    pandas_keys = try_(lambda: signature(laid.sort_values(by_arg, ascending=asc, na_position=nap, kind="stable"), by, True, "keys")[1])
                    knobs = knob_settings(p)
                    grid = [(k, c, f) for k in knobs for c in cons for f in (True, False)]
                    # the two plainest ways to run the distributed sort are always there; the rest of the grid is sampled
                    several = [k for k in knobs if set(k) == {"npartitions"} and k["npartitions"] >= 2]
                    chosen = [(rng.choice(several), "compute", True), ({}, rng.choice(DISTRIBUTED), rng.random() < 0.5)]
                    chosen += rng.sample(grid, per_group - len(chosen))
                    refs = {}
                    for knob, cn, fuse in chosen:
                        if cn == "cumsum-of-key" and by[0] not in NUMERIC:
                            cn = "reset_index"
                        if cn == "filter" and by[0] in HAS_MISSING:       # (the filter could leave a partition with missing keys only)
                            cn = "assign"
                        f, g, labels, what = cons[cn]
                        case = {"kind": "sort_values", "by": by_arg, "ascending": asc, "na_position": nap, "layout": layout, "npartitions": p,
                                "from_pandas_npartitions": p_asked, "partition_sizes": sizes, "knob": knob, "consumer": cn, "fuse": fuse,
                                "rows": {c: [_json(v) for v in laid[c].tolist()] for c in list(by) + ["r"]}, "labels": laid.index.tolist()}
                        ncase += 1
                        run.count(("sort_values", by, repr(asc), nap, layout, p, tuple(sorted(knob.items())), cn, fuse),
                                  nontrivial=_several_outputs(knob, p))
                        seen["knobs"].add(tuple(sorted(knob))), seen["consumers"].add(cn), seen["layouts"].add(layout)
                        if cn not in refs:
                            refs[cn] = try_(lambda: signature(g(ref[1], by), by, labels, what))
                        if refs[cn][0] == "raise":
                            continue
                        title = "sort_values(%r, ascending=%r, na_position=%r%s) of %d %s partitions, consumer %s, fuse=%s" % (
                            by_arg, asc, nap, "".join(", %s=%r" % kv for kv in knob.items()), p, layout, cn, fuse)

                        def go(knob=knob, f=f, fuse=fuse):
                            with _ambient(knob):
                                return f(sort(knob), by, fuse)
                        v = try_(go)
                        if v[0] == "raise":
                            run.violation("%s raises %s; the knob-free compute() of the same sort succeeds" % (title, v[1]), case)
                            continue
                        sig = try_(lambda: signature(v[1], by, labels, what))
                        if sig[0] == "raise" or sig[1] != refs[cn][1]:
                            run.violation("%s differs from the knob-free compute() of the same sort (%s); pandas keys %s" % (
                                title, sig[1] if sig[0] == "raise" else _where(sig[1], refs[cn][1]),
                                "agree with the reference" if pandas_keys[0] == "ok" and pandas_keys[1] == signature(ref[1], by, True, "keys")[1] else "differ from the reference"), case)
    run.section("sort_values_knobs", cases=ncase, sorts=ngroup, skipped_sorts=nskip, partition_counts=list(ps), seconds=round(time.time() - t0, 1),
                knob_kinds=sorted("+".join(k) or "default" for k in seen["knobs"]), consumers=sorted(seen["consumers"]), layouts=sorted(seen["layouts"]))


# ------------------------------------------------------------------------------------------------ set_index

def set_index_family(run, rt, pdf):
    """set_index on a key of every kind (no missing values: they are not supported in an index), every layout and knob; the
    result is compared up to row order, and through consumers that rely on the divisions the sort reports."""
    quick = run.tier == "quick"
    rng = run.rng
    ps = (2, 3, 4) if quick else (2, 3, 4, 5, 8, 12)
    ncase = 0
    t0 = time.time()
    for key in SET_INDEX_KEYS:
        oracle = pdf.set_index(key)
        vals = sorted(set(pdf[key].tolist()))
        lo, mid, hi = vals[0], vals[len(vals) // 2], vals[-1]
        steps = {
            "compute": (lambda c, fuse: c.compute(), lambda P: P),
            "optimize": (lambda c, fuse: c.optimize(fuse=fuse).compute(), lambda P: P),
            "partitions": (lambda c, fuse: concat_parts(exec_expr(c.optimize(fuse=fuse).expr)), lambda P: P),
            "loc[mid:]": (lambda c, fuse: c.loc[mid:].optimize(fuse=fuse).compute(), lambda P: P.sort_index().loc[mid:]),
            "loc[lo:mid]": (lambda c, fuse: c.loc[lo:mid].optimize(fuse=fuse).compute(), lambda P: P.sort_index().loc[lo:mid]),
            "loc[hi]": (lambda c, fuse: c.loc[hi:hi].optimize(fuse=fuse).compute(), lambda P: P.sort_index().loc[hi:hi]),
            "index": (lambda c, fuse: c.index.to_frame().optimize(fuse=fuse).compute(), lambda P: P.index.to_frame()),
            "reset_index": (lambda c, fuse: c.reset_index().optimize(fuse=fuse).compute().set_index(key), lambda P: P),
            "aligned add": (lambda c, fuse: (c.r + c.r).to_frame("z").optimize(fuse=fuse).compute(), lambda P: (P.r + P.r).to_frame("z")),
        }
        for layout in (rng.sample(("shuffled", "asc", "desc", "empties"), 2) if quick else ("shuffled", "asc", "desc", "empties")):
            p = rng.choice(ps)
            df, sizes, laid = lay_out(rt, rng, pdf, key, layout, p)
            p = df.npartitions
            knobs = [k for k in knob_settings(p)]
            grid = [(k, s, f) for k in knobs for s in steps for f in (True, False)]
            chosen = rng.sample(grid, 3 if quick else 30)
            for knob, sn, fuse in chosen:
                f, g = steps[sn]
                ncase += 1
                run.count(("set_index", key, layout, p, tuple(sorted(knob.items())), sn, fuse), nontrivial=_several_outputs(knob, p))
                case = {"kind": "set_index", "key": key, "layout": layout, "npartitions": p, "partition_sizes": sizes, "knob": knob, "step": sn, "fuse": fuse,
                        "rows": {c: [_json(v) for v in laid[c].tolist()] for c in (key, "r")}}
                exp = try_(lambda: canon(g(oracle), False, True))
                if exp[0] == "raise":
                    continue
                title = "set_index(%r%s) of %d %s partitions then %s, fuse=%s" % (key, "".join(", %s=%r" % kv for kv in knob.items()), p, layout, sn, fuse)

                def go():
                    with _ambient(knob):
                        return f(df.set_index(key, **_kwargs(knob)), fuse)
                v = try_(go)
                if v[0] == "raise":
                    run.violation("%s raises %s" % (title, v[1]), case)
                    continue
                got = try_(lambda: canon(v[1], False, True))
                if got != exp:
                    run.violation("%s: %s, the rows of the frame give %s" % (title, _short(got[1]), _short(exp[1])), case)
    run.section("set_index_knobs", cases=ncase, keys=list(SET_INDEX_KEYS), seconds=round(time.time() - t0, 1))


def _column(name, vals):
    import pandas as pd
    if name in ("d", "d0"):
        return pd.to_datetime(vals)
    if name == "I":
        return pd.array(vals, dtype="Int64")
    if name in ("f", "f0"):
        return pd.Series(vals, dtype="float64").values
    return vals


def replay(case):
    """Recompute one reported sort_values case from its dict alone: (signature under the knob and consumer, signature of the
    knob-free compute() put through the same step in pandas)."""
    import pandas as pd
    import rt
    by = tuple(case["by"]) if isinstance(case["by"], list) else (case["by"],)
    pdf = pd.DataFrame({c: _column(c, v) for c, v in case["rows"].items()}, index=case["labels"])
    if case["partition_sizes"] is None:
        df = rt.dx.from_pandas(pdf, npartitions=case["from_pandas_npartitions"], sort=False)
    else:
        bounds = [0]
        for n in case["partition_sizes"]:
            bounds.append(bounds[-1] + n)
        df = rt.dx.from_map(_ident, [pdf.iloc[a:b] for a, b in zip(bounds[:-1], bounds[1:])], meta=pdf.iloc[:0])
    f, g, labels, what = consumers()[case["consumer"]]
    knob = case["knob"]

    def sort(knob):
        return df.sort_values(case["by"], ascending=case["ascending"], na_position=case["na_position"], **_kwargs(knob))

    def go():
        with _ambient(knob):
            return signature(f(sort(knob), by, case["fuse"]), by, labels, what)
    return try_(go), try_(lambda: signature(g(sort({}).compute(), by), by, labels, what))


def run(run, rt):
    pdf = make_frame(run.rng, 48)
    sort_values_family(run, rt, pdf)
    set_index_family(run, rt, pdf)
