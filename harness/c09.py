"""C09 -- task graphs are closed, acyclic, unambiguous and free of planner objects."""
import random

import itertools

import common
import graphs
import c09_groupby
import c09_repartition
from e2e import try_, STAGES


def plans(run, rt, quick):
    """(tag, lowered expression) for generated programs x stages x fuse on/off x shuffle method, plus imports."""
    import dask
    import pandas as pd
    import gen
    import e2e
    n = 60 if quick else 1200
    for idx in range(n):
        rng = random.Random(run.seed * 1000003 + 31337 + idx)
        tables = gen.make_tables(rng, nrows=9, nulls=rng.choice([0.0, 0.2]))
        g = gen.ProgGen(rng, profile=rng.choice(["l1", "l2", "l3", "l3"]), max_steps=rng.randint(1, 6))
        prog = g.generate({"t0": list(tables["t0"].columns), "t1": list(tables["t1"].columns)})
        layout = {"t0": rng.choice([("npartitions", 1), ("npartitions", 3), ("unknown", 3), ("cuts", [2, 2])]), "t1": ("npartitions", 2)}
        src = e2e.build_sources(tables, layout, rt)
        r = try_(lambda: gen.run_program(prog, src, True)[prog["result"]])
        if r[0] == "raise":
            continue
        coll = r[1]
        desc = gen.describe(prog)
        un = try_(lambda: coll.expr.lower_completely())
        if un[0] == "ok":
            yield ("unoptimized|" + desc, un[1])
        for st in STAGES:
            e = try_(lambda st=st: e2e.stage_expr(coll.expr, st))
            if e[0] == "ok":
                yield (st + "|" + desc, e[1])
    # special sources and imported graphs
    pdf = pd.DataFrame({"a": range(12), "b": [i % 3 for i in range(12)]})
    df = rt.dx.from_pandas(pdf, npartitions=4)
    specials = {}
    base = {
        "partition-filtered source": df.partitions[[1, 3]] + 1,
        "partition-filtered shuffle": df.shuffle("b", shuffle_method="tasks").partitions[[0, 2]],
        "partition-filtered disk shuffle": df.shuffle("b", shuffle_method="disk").partitions[[1]],
        "persist import": (df + 1).persist() * 2,
        "from_delayed import": rt.dx.from_delayed((df + 1).to_delayed(), meta=pdf) + 1,
        "legacy import": rt.dx.from_legacy_dataframe((df + 1).to_legacy_dataframe()) + 1,
        "from_graph nested fuse": ((df + 1).optimize() * 2).optimize() - df,
        "cumsum": df.cumsum(),
        "shift+shift": df.a.shift(1).to_frame(),
        "broadcast join": df.merge(rt.dx.from_pandas(pdf.iloc[:3], npartitions=1), on="b", broadcast=True),
        "hash join": df.merge(rt.dx.from_pandas(pdf, npartitions=3), on="b", broadcast=False, shuffle_method="tasks"),
        "sort": df.sort_values("b"),
        "set_index": df.set_index("b"),
        "groupby split_out": df.groupby("b").sum(split_out=2),
        "tree reduce": df.a.sum(split_every=2),
        # staged task shuffles (more inputs than max_branch) to fewer / equal / more outputs than the stages produce
        "staged shuffle 10->8 mb=6": rt.dx.from_pandas(pdf, npartitions=10).shuffle("b", npartitions=8, shuffle_method="tasks", max_branch=6),
        "staged shuffle 10->12 mb=6": rt.dx.from_pandas(pdf, npartitions=10).shuffle("b", npartitions=12, shuffle_method="tasks", max_branch=6),
        "staged shuffle 10->20 mb=6": rt.dx.from_pandas(pdf, npartitions=10).shuffle("b", npartitions=20, shuffle_method="tasks", max_branch=6),
        "staged shuffle 5->7 mb=2": rt.dx.from_pandas(pdf, npartitions=5).shuffle("b", npartitions=7, shuffle_method="tasks", max_branch=2),
        "staged shuffle 5->9 mb=2": rt.dx.from_pandas(pdf, npartitions=5).shuffle("b", npartitions=9, shuffle_method="tasks", max_branch=2),
        "staged shuffle 5->7 mb=2 subset": rt.dx.from_pandas(pdf, npartitions=5).shuffle("b", npartitions=7, shuffle_method="tasks", max_branch=2).partitions[[1, 3, 4, 6]],
        "disk shuffle max_branch": rt.dx.from_pandas(pdf, npartitions=5).shuffle("b", shuffle_method="disk", max_branch=3),
        "repartition divisions": df.repartition(divisions=[0, 3, 11]),
        "repartition more": df.clear_divisions().repartition(npartitions=7),
        "two repartitions of one frame": rt.dx.concat([df.repartition(divisions=[0, 5, 11]), df.repartition(divisions=[0, 2, 11])]),
        "two shifts of one frame": df.a.shift(1) + df.a.shift(2),
        "shift and diff": df.a.shift(1) + df.a.diff(1),
        "broadcast join partition subset": df.merge(rt.dx.from_pandas(pdf.iloc[:3], npartitions=1), on="b", broadcast=True).partitions[[2]],
        # partition selections of broadcast joins of every kind (non-inner joins split the large side per partition)
        "broadcast left join partitions[[3]]": df.merge(rt.dx.from_pandas(pdf.iloc[:5], npartitions=2), on="b", how="left", broadcast=True, shuffle_method="tasks").partitions[[3]],
        "broadcast left join partitions[[1,0]]": df.merge(rt.dx.from_pandas(pdf.iloc[:5], npartitions=2), on="b", how="left", broadcast=True, shuffle_method="tasks").partitions[[1, 0]],
        "broadcast right join partitions[[2,3]]": rt.dx.from_pandas(pdf.iloc[:5], npartitions=2).merge(df, on="b", how="right", broadcast=True, shuffle_method="tasks").partitions[[2, 3]],
        "broadcast inner join partitions[[3,1]]": df.merge(rt.dx.from_pandas(pdf.iloc[:5], npartitions=2), on="b", how="inner", broadcast=True, shuffle_method="tasks").partitions[[3, 1]],
        "broadcast left join tail": df.merge(rt.dx.from_pandas(pdf.iloc[:5], npartitions=2), on="b", how="left", broadcast=True, shuffle_method="tasks").tail(2, compute=False),
        "hash join partitions[[2]]": df.merge(rt.dx.from_pandas(pdf, npartitions=3), on="b", broadcast=False, shuffle_method="tasks").partitions[[2]],
        "head": df.head(3, npartitions=2, compute=False),
        "tail": df.tail(3, compute=False),
    }
    specials.update(base)
    import catalogue
    for nm, coll in catalogue.build_all(rt.dx, order_seed=run.seed).items():
        specials["catalogue:" + nm] = coll
    pair = {
        "two quantiles of one series": lambda: df.a.quantile(0.9) + df.a.quantile(0.1),
        "two quantile lists of one series": lambda: rt.dx.concat([df.a.quantile([0.1, 0.5]), df.a.quantile([0.2, 0.5, 0.9])]),
        "two tree reductions of one series": lambda: df.a.sum(split_every=2) + df.a.sum(split_every=3),
        "two heads of one frame": lambda: rt.dx.concat([df.head(2, compute=False), df.head(3, compute=False)]),
        "two shuffles of one frame": lambda: rt.dx.concat([df.shuffle("b", npartitions=2, shuffle_method="tasks"), df.shuffle("b", npartitions=3, shuffle_method="tasks")]),
        "two shuffles by other keys": lambda: rt.dx.concat([df.shuffle("b", shuffle_method="tasks"), df.shuffle("a", shuffle_method="tasks")]),
        "two sorts of one frame": lambda: rt.dx.concat([df.sort_values("b"), df.sort_values("b", ascending=False)]),
        "two groupbys of one frame": lambda: rt.dx.concat([df.groupby("b").a.sum(split_out=2).to_frame(), df.groupby("b").a.sum(split_out=1).to_frame()]),
        "two cumulatives of one frame": lambda: df.cumsum() + df.cummax(),
        "two nuniques": lambda: df.a.nunique() + df.b.nunique(),
        "var and std": lambda: df.a.var() + df.a.std(),
        "two value_counts": lambda: rt.dx.concat([df.a.value_counts(), df.b.value_counts()]),
        "two partition selections": lambda: rt.dx.concat([df.partitions[[0, 1]], df.partitions[[1, 0]]]),
        "two partition_size repartitions of one frame": lambda: (lambda big: rt.dx.concat([big.repartition(partition_size="1kiB"), big.repartition(partition_size="3kiB")]))(
            rt.dx.from_pandas(pd.DataFrame({"a": range(400), "b": [float(i) for i in range(400)]}), npartitions=2)),
        "two freq repartitions of one frame": lambda: (lambda ts: rt.dx.concat([ts.repartition(freq="2D"), ts.repartition(freq="3D")]))(
            rt.dx.from_pandas(pd.DataFrame({"a": range(12)}, index=pd.date_range("2021-01-01", periods=12, freq="D")), npartitions=2)),
        "two merges of one pair": lambda: rt.dx.concat([df.merge(df, on="b", how="inner", shuffle_method="tasks"), df.merge(df, on="b", how="left", shuffle_method="tasks")]),
    }
    for tag, th in pair.items():
        c = try_(th)
        if c[0] == "ok":
            specials["pair:" + tag] = c[1]
    for tag, coll in specials.items():
        for fuse in (False, True):
            e = try_(lambda: coll.optimize(fuse=fuse).expr)
            if e[0] == "ok":
                yield ("special:%s fuse=%s" % (tag, fuse), e[1])
        un = try_(lambda: coll.expr.lower_completely())
        if un[0] == "ok":
            yield ("special:%s unoptimized" % tag, un[1])


def run(run):
    import rt
    run.trusted = common.COMMON_TRUSTED + [
        "harness/graphs.py: extraction of key references from real task tuples (dask.core semantics: hashable leaves that are keys of the graph); the candidate topological order is computed in Python and only CHECKED by the verified wf_check",
    ]
    run.rule = ("every graph of generated programs (l1-l3 profiles) x {unoptimized, 5 optimizer stages} + special sources/imports (persist, from_delayed, legacy, partition-filtered, fused-nested): "
                "exported (keys, dependencies, candidate order, outputs) and certified by the verified wf_check; layers compared pairwise for conflicting keys; task tuples scanned for planner objects; "
                "pickled under dask-expr-no-serialize; non-trivial = graph with >= 4 keys; "
                "groupby family (c09_groupby.py): receiver x grouping-key kind (labels / Series expressions / mixtures) x every reduction, agg spec "
                "(decomposable, 'median', mixed, custom) and non-reducing route x split_out / split_every / shuffle_method / sort / dropna / observed x "
                "partition counts x missing values, and pairs of groupbys over one source, at {unoptimized, fuse off, fuse on} (+ 5 stages in the thorough tier); "
                "all graphs additionally scanned through partials / sets / closures and pickled by value (cloudpickle) under dask-expr-no-serialize; "
                "repartition family (c09_repartition.py): explicit partition layouts (every big/small pattern of 2..4 partitions, very big / medium / empty "
                "partitions) x source kind (from_map / from_delayed with and without divisions, concat, from_pandas, repartitioned, filtered) x index dtype x "
                "column dtypes x missing values x frame / series x request (partition_size between / below / above / far below the partition sizes, "
                "npartitions fewer / equal / more, divisions with reused boundaries and force, freq, chains of two) x consumer (projection, filter, "
                "element-wise, reduction, cumulative, partition selection, head / tail, map_partitions, alignment with the source) and pairs of "
                "repartitions of one source, at {unoptimized, fuse off, fuse on} (+ 5 stages in the thorough tier); output keys must be exactly "
                "(name, 0..npartitions-1); a plan that lowers but whose graph cannot be materialized is a violation")
    run.proofs("PropC09.v")
    quick = run.tier == "quick"
    m = common.Model()
    reqs, tags = [], []
    n = 0
    for item in itertools.chain(plans(run, rt, quick), c09_groupby.plans(run, rt, quick), c09_repartition.plans(run, rt, quick)):
        tag, e = item[0], item[1]
        case = dict(item[2], tag=tag) if len(item) > 2 else {"kind": "graph", "tag": tag}      # family cases: parameters to rebuild the plan
        info = try_(lambda: graphs.analyse(e))
        if info[0] == "raise":
            run.count(("graph", tag))
            run.violation("graph materialization fails: %s [%s]" % (info[1], tag), case)
            continue
        info = info[1]
        n += 1
        run.count(("graph", tag), nontrivial=info["nkeys"] >= 4)
        for p in info["problems"]:
            run.violation("%s [%s]" % (p, tag), dict(case, problem=p))
        if str(case.get("kind", "")).startswith("repartition-family"):
            for p in c09_repartition.extra_problems(e, info):
                run.violation("%s [%s]" % (p, tag), dict(case, problem=p))
        ser = graphs.serializable(info["graph"])
        if ser:
            run.violation("graph cannot be serialized without serializing an expression: %s [%s]" % (ser, tag), case)
        if not info["problems"] and not ser:
            # planner objects behind partials / sets / closures / dict keys; serialization by value
            for p in c09_groupby.deep_problems(info["graph"]):
                run.violation("%s [%s]" % (p, tag), dict(case, problem=p))
        reqs.append("(wf_check %s)" % info["export"])
        tags.append((tag, info["nkeys"], info["nedges"]))
        if n == 5:
            run.sample({"graph": tag[:200], "keys": info["nkeys"], "edges": info["nedges"]})
    ans = m.batch(reqs)
    bad = 0
    for (tag, nk, ne), a in zip(tags, ans):
        if a != "true":
            bad += 1
            run.violation("verified wf_check rejects the graph (not closed / cyclic / duplicate key / undefined output) [%s]" % tag, {"kind": "wf_check", "tag": tag})
    run.section("graphs", checked=n, certified_by_wf_check=len(ans) - bad, total_keys=sum(t[1] for t in tags), total_edges=sum(t[2] for t in tags))


def replay(path):
    """./check C09 --replay file: re-examines the graph of a groupby-family / repartition-family case (the other kinds of cases are identified by their tag only)."""
    import json
    import rt
    import e2e
    case = json.load(open(path)).get("case") or {}
    if case.get("kind") not in ("groupby-family", "groupby-family-pair", "repartition-family", "repartition-family-pair"):
        print("C09 replay: only groupby-family / repartition-family cases can be rebuilt from the replay file; this one is identified by its tag: %s" % case.get("tag"))
        return 2
    family = c09_repartition if case["kind"].startswith("repartition") else c09_groupby
    coll = family.build(case, rt.dx)
    st = case.get("stage", "unoptimized")
    e = (coll.expr.lower_completely() if st == "unoptimized" else coll.optimize(fuse=(st == "fuse=True")).expr if st.startswith("fuse=")
         else e2e.stage_expr(coll.expr, st))
    info = graphs.analyse(e)
    problems = list(info["problems"])
    if family is c09_repartition:
        problems += c09_repartition.extra_problems(e, info)
    ser = graphs.serializable(info["graph"])
    if ser:
        problems.append("graph cannot be serialized without serializing an expression: %s" % ser)
    problems += c09_groupby.deep_problems(info["graph"])
    for p in problems:
        print("VIOLATION property=C09 %s [%s]" % (p, case.get("tag")))
    if not problems:
        print("C09 replay ok: %d keys, no problem [%s]" % (info["nkeys"], case.get("tag")))
    return 1 if problems else 0
