(* PropC09.v -- property C09: task graphs are closed, acyclic, unambiguous.  Statements only.
   Every real graph met by the harness is exported (keys, dependencies, a candidate topological order) and
   certified by the extracted wf_check; the theorem says what a certificate means. *)
From DX Require Import Base Graph GraphProofs.

Theorem C09_wf_check_sound : forall g outs, wf_check g outs = true ->
  NoDup (keys_of g) /\
  (forall n d, In n g -> In d (g_deps n) -> In d (keys_of g)) /\
  (exists rank : nat -> nat, forall n d, In n g -> In d (g_deps n) -> rank d < rank (g_key n)).
Proof. exact wf_closed_acyclic. Qed.
Print Assumptions C09_wf_check_sound.

(* a certified graph can always be executed to completion and every requested output key gets a value *)
Theorem C09_outputs_computable : forall (V : Type) (dV : V) (fn : nat -> list V -> V) g outs, wf_check g outs = true ->
  run V dV fn g [] (keys_of g) = Some (canon V dV fn g) /\ complete V g (canon V dV fn g) = true /\
  forall o, In o outs -> has V (canon V dV fn g) o = true.
Proof. exact canon_schedule. Qed.
Print Assumptions C09_outputs_computable.
