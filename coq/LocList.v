(* LocList.v -- `df.loc[[l1, l2, ...]]` on known divisions (_indexing.py: LocList._layer_information; the labels are grouped
   by the partition they fall into with dask's _partitions_of_index_values, i.e. part_of of Loc.v, keeping the request order
   inside each group; the groups are visited by increasing partition number).  Definitions only.  Stdlib only, no axioms. *)
From DX Require Import Base Divisions Loc.

(* labels of the request that fall into partition p, in request order *)
Definition labels_of (divs : list Z) (labels : list Z) (p : nat) : list Z :=
  filter (fun v => part_of divs v =? p) labels.

(* sorted(parts.items()): the touched partitions in increasing order, each with its labels *)
Definition ll_items (divs : list Z) (labels : list Z) : list (nat * list Z) :=
  filter (fun it => negb (match snd it with [] => true | _ => false end))
         (map (fun p => (p, labels_of divs labels p)) (seq 0 (length divs - 1))).

Definition min_list (l : list Z) : Z := fold_right Z.min (hd 0%Z l) l.
Definition max_list (l : list Z) : Z := fold_right Z.max (hd 0%Z l) l.

(* FIXED code: sorted(indexer)[0] per group, sorted(last group)[-1] at the end *)
Definition ll_divisions (divs : list Z) (labels : list Z) : list Z :=
  let items := ll_items divs labels in
  map (fun it => min_list (snd it)) items ++ [max_list (snd (last items (0, [])))].

(* seed C06_b: first / last requested label instead of the smallest / largest *)
Definition ll_divisions_unsorted (divs : list Z) (labels : list Z) : list Z :=
  let items := ll_items divs labels in
  map (fun it => hd 0%Z (snd it)) items ++ [last (snd (last items (0, []))) 0%Z].

(* methods.loc(partition, labels): for each requested label, in request order, the rows carrying it *)
Definition loc_labels (p : list Z) (labels : list Z) : list Z :=
  flat_map (fun v => filter (Z.eqb v) p) labels.

Definition ll_parts (divs : list Z) (parts : list (list Z)) (labels : list Z) : list (list Z) :=
  map (fun it => loc_labels (nth (fst it) parts []) (snd it)) (ll_items divs labels).
