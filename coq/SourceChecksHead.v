(* SourceChecksHead.v -- the translated Head/Tail merge rule (_nested_selection of the current source) against NestedHead.v.
   Stdlib only, no axioms. *)
From Coq Require Import ZArith List Bool Lia ZifyBool.
From DX Require Import PySeq GeneratedSource NestedHead.
Import ListNotations.
Local Open Scope nat_scope.
Local Open Scope bool_scope.

(* two non-negative selections merge into their minimum *)
Lemma src_nested_selection_nonneg : forall n2 n1 : nat,
  src_nested_selection (Z.of_nat n2) (Z.of_nat n1) = Some (Z.of_nat (Nat.min n2 n1)).
Proof.
  intros. unfold src_nested_selection.
  destruct ((Z.of_nat n2 >=? 0)%Z && (Z.of_nat n1 >=? 0)%Z) eqn:E; [f_equal; lia|lia].
Qed.

(* two negative selections add up *)
Lemma src_nested_selection_neg : forall m2 m1 : nat, 1 <= m2 -> 1 <= m1 ->
  src_nested_selection (- Z.of_nat m2) (- Z.of_nat m1) = Some (- Z.of_nat (m2 + m1)).
Proof.
  intros m2 m1 H2 H1. unfold src_nested_selection.
  destruct ((- Z.of_nat m2 >=? 0)%Z && (- Z.of_nat m1 >=? 0)%Z) eqn:E; [lia|].
  destruct ((- Z.of_nat m2 <? 0)%Z && (- Z.of_nat m1 <? 0)%Z) eqn:E2; [f_equal; lia|lia].
Qed.

(* mixed signs are not merged *)
Lemma src_nested_selection_mixed : forall (n : nat) (m : nat), 1 <= m ->
  src_nested_selection (- Z.of_nat m) (Z.of_nat n) = None /\ src_nested_selection (Z.of_nat n) (- Z.of_nat m) = None.
Proof.
  intros n m Hm. unfold src_nested_selection. split.
  - destruct ((- Z.of_nat m >=? 0)%Z && (Z.of_nat n >=? 0)%Z) eqn:E; [lia|].
    destruct ((- Z.of_nat m <? 0)%Z && (Z.of_nat n <? 0)%Z) eqn:E2; [lia|reflexivity].
  - destruct ((Z.of_nat n >=? 0)%Z && (- Z.of_nat m >=? 0)%Z) eqn:E; [lia|].
    destruct ((Z.of_nat n <? 0)%Z && (- Z.of_nat m <? 0)%Z) eqn:E2; [lia|reflexivity].
Qed.

(* whenever the source merges head(n1, npartitions=k) . head(n2) into head(n, npartitions=k), the merged node returns the same rows *)
Theorem src_nested_head_sound : forall (A : Type) (parts : list (list A)) k (n1 n2 : nat) n,
  src_nested_selection (Z.of_nat n2) (Z.of_nat n1) = Some n ->
  firstn n2 (head_rows parts k n1) = head_rows parts k (Z.to_nat n).
Proof.
  intros A parts k n1 n2 n H. rewrite src_nested_selection_nonneg in H. inversion H; subst.
  rewrite Nat2Z.id. apply nested_head_merge.
Qed.

Theorem src_nested_head_neg_sound : forall (A : Type) (l : list A) (m1 m2 : nat) n, 1 <= m1 -> 1 <= m2 ->
  src_nested_selection (- Z.of_nat m2) (- Z.of_nat m1) = Some n ->
  head_neg (head_neg l m1) m2 = head_neg l (Z.to_nat (- n)).
Proof.
  intros A l m1 m2 n H1 H2 H. rewrite src_nested_selection_neg in H by assumption. inversion H; subst.
  rewrite Z.opp_involutive, Nat2Z.id. apply nested_head_neg.
Qed.

Theorem src_nested_tail_sound : forall (A : Type) (l : list A) (n1 n2 : nat) n,
  src_nested_selection (Z.of_nat n2) (Z.of_nat n1) = Some n ->
  tail_rows (tail_rows l n1) n2 = tail_rows l (Z.to_nat n).
Proof.
  intros A l n1 n2 n H. rewrite src_nested_selection_nonneg in H. inversion H; subst.
  rewrite Nat2Z.id. apply nested_tail_merge.
Qed.

Print Assumptions src_nested_head_sound.
Print Assumptions src_nested_head_neg_sound.
Print Assumptions src_nested_tail_sound.
Print Assumptions src_nested_selection_mixed.
