(* DNFProofs.v -- correctness of the _DNF model (DNF.v).  Stdlib only, no axioms. *)
From DX Require Import Base DNF.
From Coq Require Import Sorted.

(* ================================================================== *)
(* 1. sortu / canon : membership                                       *)
(* ================================================================== *)
Section SortU.
  Context {A : Type} (c : A -> A -> comparison).
  Hypothesis c_eq : forall x y, c x y = Eq -> x = y.

  Lemma insu_In : forall x l z, In z (insu c x l) <-> z = x \/ In z l.
  Proof.
    induction l as [|y t IH]; intros z; simpl.
    - intuition.
    - destruct (c x y) eqn:E.
      + apply c_eq in E. subst. simpl. intuition.
      + simpl. intuition.
      + simpl. rewrite IH. intuition.
  Qed.

  Lemma sortu_In : forall l z, In z (sortu c l) <-> In z l.
  Proof.
    induction l as [|x l IH]; intros z; simpl; [tauto|].
    rewrite insu_In, IH. intuition.
  Qed.

  Lemma insu_nonempty : forall x l, insu c x l <> [].
  Proof. intros x [|y t]; simpl; [discriminate|]. destruct (c x y); discriminate. Qed.

  Lemma sortu_nonempty : forall l, l <> [] -> sortu c l <> [].
  Proof. intros [|x l] H; [congruence|]. simpl. apply insu_nonempty. Qed.

  (* folding an associative-commutative-idempotent operation is insensitive to sortu *)
  Variable B : Type.
  Variable f : B -> B -> B.
  Variable g : A -> B.
  Hypothesis f_comm : forall x y, f x y = f y x.
  Hypothesis f_assoc : forall x y z, f x (f y z) = f (f x y) z.
  Hypothesis f_idem : forall x y, f x (f x y) = f x y.

  Lemma fold_insu : forall e x l,
    fold_right (fun a acc => f (g a) acc) e (insu c x l) = f (g x) (fold_right (fun a acc => f (g a) acc) e l).
  Proof.
    intros e x. induction l as [|y t IH]; simpl; [reflexivity|].
    destruct (c x y) eqn:E.
    - apply c_eq in E. subst. simpl. symmetry. apply f_idem.
    - reflexivity.
    - simpl. rewrite IH. rewrite !f_assoc. f_equal. apply f_comm.
  Qed.

  Lemma fold_sortu : forall e l,
    fold_right (fun a acc => f (g a) acc) e (sortu c l) = fold_right (fun a acc => f (g a) acc) e l.
  Proof.
    intros e. induction l as [|x l IH]; simpl; [reflexivity|].
    rewrite fold_insu, IH. reflexivity.
  Qed.
End SortU.

Lemma lex_compare_eq : forall A (c : A -> A -> comparison),
  (forall x y, c x y = Eq -> x = y) ->
  forall l1 l2, lex_compare c l1 l2 = Eq -> l1 = l2.
Proof.
  intros A c Hc. induction l1 as [|x xs IH]; intros [|y ys] H; simpl in H; try discriminate; [reflexivity|].
  destruct (c x y) eqn:E; try discriminate.
  apply Hc in E. subst. f_equal. apply IH. exact H.
Qed.

Lemma cmp_idx_inj : forall a b, cmp_idx a = cmp_idx b -> a = b.
Proof. intros [] []; simpl; intros H; try reflexivity; discriminate. Qed.

Lemma atom_compare_eq : forall a b, atom_compare a b = Eq -> a = b.
Proof.
  intros [c1 o1 v1] [c2 o2 v2]. unfold atom_compare. simpl.
  destruct (Nat.compare c1 c2) eqn:E1; try discriminate.
  destruct (Nat.compare (cmp_idx o1) (cmp_idx o2)) eqn:E2; try discriminate.
  intros E3.
  apply Nat.compare_eq in E1. apply Nat.compare_eq in E2. apply Z.compare_eq in E3.
  apply cmp_idx_inj in E2. subst. reflexivity.
Qed.

Lemma conj_compare_eq : forall a b, conj_compare a b = Eq -> a = b.
Proof. apply lex_compare_eq. exact atom_compare_eq. Qed.

Lemma dnf_compare_eq : forall a b, dnf_compare a b = Eq -> a = b.
Proof. apply lex_compare_eq. exact conj_compare_eq. Qed.

Lemma canon_conj_In : forall c a, In a (canon_conj c) <-> In a c.
Proof. intros. apply sortu_In. exact atom_compare_eq. Qed.

Lemma canon_In : forall d c, In c (canon d) <-> In c (map canon_conj d).
Proof. intros. apply sortu_In. exact conj_compare_eq. Qed.

Lemma canon_nonempty : forall d, d <> [] -> canon d <> [].
Proof.
  intros d H. unfold canon. apply sortu_nonempty. destruct d; [congruence|discriminate].
Qed.

Lemma dnf_eqb_true : forall d1 d2, dnf_eqb d1 d2 = true -> canon d1 = canon d2.
Proof.
  unfold dnf_eqb. intros d1 d2 H. apply dnf_compare_eq.
  destruct (dnf_compare (canon d1) (canon d2)); [reflexivity|discriminate|discriminate].
Qed.

(* ================================================================== *)
(* 2. Boolean reading of a dnf : K p d = OR over conjunctions of AND over atoms *)
(* ================================================================== *)
Definition K (p : atom -> bool) (d : dnf) : bool := existsb (forallb p) d.

Lemma forallb_In_ext : forall A (p : A -> bool) l1 l2,
  (forall x, In x l1 <-> In x l2) -> forallb p l1 = forallb p l2.
Proof.
  intros A p l1 l2 H. apply Bool.eq_iff_eq_true. rewrite !forallb_forall.
  split; intros Hf x Hx; apply Hf; apply H; exact Hx.
Qed.

Lemma existsb_In_ext : forall A (p : A -> bool) l1 l2,
  (forall x, In x l1 <-> In x l2) -> existsb p l1 = existsb p l2.
Proof.
  intros A p l1 l2 H. apply Bool.eq_iff_eq_true. rewrite !existsb_exists.
  split; intros [x [Hx Hp]]; exists x; (split; [apply H; exact Hx|exact Hp]).
Qed.

Lemma existsb_map : forall A B (g : A -> B) (p : B -> bool) l,
  existsb p (map g l) = existsb (fun x => p (g x)) l.
Proof. induction l; simpl; [reflexivity|]. rewrite IHl. reflexivity. Qed.

Lemma existsb_ext' : forall A (p q : A -> bool) l, (forall x, p x = q x) -> existsb p l = existsb q l.
Proof. intros A p q l H. induction l; simpl; [reflexivity|]. rewrite H, IHl. reflexivity. Qed.

Lemma forallb_canon_conj : forall p c, forallb p (canon_conj c) = forallb p c.
Proof. intros. apply forallb_In_ext. intros. apply canon_conj_In. Qed.

Lemma K_canon : forall p d, K p (canon d) = K p d.
Proof.
  intros p d. unfold K.
  rewrite (existsb_In_ext _ (forallb p) (canon d) (map canon_conj d)) by (intros; apply canon_In).
  rewrite existsb_map. apply existsb_ext'. intros. apply forallb_canon_conj.
Qed.

Lemma K_map_app : forall p c acc, K p (map (fun c' => c ++ c') acc) = forallb p c && K p acc.
Proof.
  intros p c. unfold K. induction acc as [|x acc IH]; simpl.
  - rewrite andb_false_r. reflexivity.
  - rewrite IH, forallb_app. destruct (forallb p c), (forallb p x); reflexivity.
Qed.

Lemma K_product : forall p d acc,
  K p (flat_map (fun c => map (fun c' => c ++ c') acc) d) = K p d && K p acc.
Proof.
  intros p d acc. induction d as [|c d IH]; simpl; [reflexivity|].
  change (K p (map (fun c' => c ++ c') acc ++ flat_map (fun c0 => map (fun c' => c0 ++ c') acc) d)
          = (forallb p c || K p d) && K p acc).
  unfold K at 1. rewrite existsb_app. fold (K p (map (fun c' => c ++ c') acc)).
  fold (K p (flat_map (fun c0 => map (fun c' => c0 ++ c') acc) d)).
  rewrite K_map_app, IH.
  destruct (forallb p c), (K p d), (K p acc); reflexivity.
Qed.

Lemma K_normalize_and : forall p ds, K p (normalize_and ds) = forallb (K p) ds.
Proof.
  intros p. induction ds as [|d ds IH]; [reflexivity|].
  change (normalize_and (d :: ds)) with (flat_map (fun c => map (fun c' => c ++ c') (normalize_and ds)) d).
  rewrite K_product, IH. reflexivity.
Qed.

Lemma K_normalize_or : forall p ds, K p (normalize_or ds) = existsb (K p) ds.
Proof.
  intros p. unfold normalize_or. induction ds as [|d ds IH]; [reflexivity|].
  simpl. unfold K at 1. rewrite existsb_app. fold (K p d). fold (K p (concat ds)). rewrite IH. reflexivity.
Qed.

Lemma K_eqb : forall p d1 d2, dnf_eqb d1 d2 = true -> K p d1 = K p d2.
Proof. intros p d1 d2 H. apply dnf_eqb_true in H. rewrite <- (K_canon p d1), H. apply K_canon. Qed.

Lemma forallb_set2 : forall p l r, forallb (K p) (set2 l r) = K p l && K p r.
Proof.
  intros p l r. unfold set2. destruct (dnf_eqb l r) eqn:E; simpl.
  - rewrite <- (K_eqb p _ _ E). destruct (K p l); reflexivity.
  - rewrite andb_true_r. reflexivity.
Qed.

Lemma existsb_set2 : forall p l r, existsb (K p) (set2 l r) = K p l || K p r.
Proof.
  intros p l r. unfold set2. destruct (dnf_eqb l r) eqn:E; simpl.
  - rewrite <- (K_eqb p _ _ E). destruct (K p l); reflexivity.
  - rewrite orb_false_r. reflexivity.
Qed.

(* ================================================================== *)
(* 3. mk / non-emptiness invariants                                    *)
(* ================================================================== *)
Lemma mk_Some : forall d d', mk d = Some d' -> d <> [] /\ d' = canon d /\ d' <> [].
Proof.
  intros [|c d] d' H; simpl in H; [discriminate|]. inversion H; subst.
  repeat split; try discriminate. apply canon_nonempty. discriminate.
Qed.

Lemma mk_nonempty : forall d, d <> [] -> mk d = Some (canon d).
Proof. intros [|c d] H; [congruence|reflexivity]. Qed.

Lemma truthy_Some : forall d, truthy (Some d) = true <-> d <> [].
Proof. intros [|c d]; simpl; split; intros; congruence. Qed.

Lemma normalize_and_set2_nonempty : forall l r, l <> [] -> r <> [] -> normalize_and (set2 l r) <> [].
Proof.
  intros [|x l] [|y r] Hl Hr; try congruence.
  unfold set2. destruct (dnf_eqb _ _); simpl; discriminate.
Qed.

Lemma normalize_or_set2_nonempty : forall l r, l <> [] -> normalize_or (set2 l r) <> [].
Proof.
  intros [|x l] r Hl; try congruence.
  unfold set2. destruct (dnf_eqb _ _); simpl; discriminate.
Qed.

(* every conjunction that is emitted is non-empty *)
Definition conjs_nonempty (d : dnf) : Prop := forall c, In c d -> c <> [].

Lemma conjs_nonempty_canon : forall d, conjs_nonempty d -> conjs_nonempty (canon d).
Proof.
  intros d H c Hc. apply canon_In in Hc. apply in_map_iff in Hc. destruct Hc as [c0 [<- Hc0]].
  apply sortu_nonempty. apply H. exact Hc0.
Qed.

(* ================================================================== *)
(* 4-5. Generic facts about extract_gen, for an arbitrary leaf policy [ok] *)
(* ================================================================== *)
Fixpoint teval (p : atom -> bool) (t : ptree) : bool :=
  match t with
  | PCmp a => p a
  | PCmpFlip a => p (flip_atom a)
  | PAndT l r => teval p l && teval p r
  | POrT l r => teval p l || teval p r
  | POther => false
  end.

Fixpoint cmp_only (t : ptree) : bool :=
  match t with
  | PCmp _ => true
  | PAndT l r | POrT l r => cmp_only l && cmp_only r
  | PCmpFlip _ | POther => false
  end.

(* every comparison atom of the tree satisfies q *)
Fixpoint tforall (q : atom -> bool) (t : ptree) : bool :=
  match t with
  | PCmp a => q a
  | PCmpFlip a => q (flip_atom a)
  | PAndT l r | POrT l r => tforall q l && tforall q r
  | POther => true
  end.

Ltac split_node H ok l r :=
  destruct (truthy (extract_gen ok l) && truthy (extract_gen ok r)); [|discriminate];
  destruct (extract_gen ok l) as [?dl|], (extract_gen ok r) as [?dr|]; try discriminate;
  apply mk_Some in H.

Section Gen.
  Variable ok : atom -> bool.

  Lemma extract_gen_truthy : forall t d, extract_gen ok t = Some d -> d <> [].
  Proof.
    intros t d H.
    destruct t; cbn [extract_gen] in H; try discriminate.
    - destruct (ok a); [|discriminate]. apply mk_Some in H. tauto.
    - split_node H ok t1 t2. tauto.
    - split_node H ok t1 t2. tauto.
  Qed.

  (* extract computes a DNF of the tree, for EVERY valuation of the atoms *)
  Theorem extract_gen_eval : forall t d, extract_gen ok t = Some d -> forall p, K p d = teval p t.
  Proof.
    induction t as [a|a|l IHl r IHr|l IHl r IHr|]; intros d H p; cbn [extract_gen] in H; try discriminate.
    - destruct (ok a); [|discriminate].
      apply mk_Some in H. destruct H as [_ [-> _]]. rewrite K_canon. simpl.
      rewrite andb_true_r, orb_false_r. reflexivity.
    - split_node H ok l r. destruct H as [_ [-> _]].
      rewrite K_canon, K_normalize_and, forallb_set2. simpl.
      rewrite (IHl dl eq_refl p), (IHr dr eq_refl p). reflexivity.
    - split_node H ok l r. destruct H as [_ [-> _]].
      rewrite K_canon, K_normalize_or, existsb_set2. simpl.
      rewrite (IHl dl eq_refl p), (IHr dr eq_refl p). reflexivity.
  Qed.

  Theorem extract_gen_total : forall t,
    cmp_only t = true -> tforall ok t = true -> exists d, extract_gen ok t = Some d.
  Proof.
    induction t as [a|a|l IHl r IHr|l IHl r IHr|]; simpl; intros H Hq; try discriminate.
    - rewrite Hq. eexists. reflexivity.
    - apply andb_true_iff in H. destruct H as [Hl Hr]. apply andb_true_iff in Hq. destruct Hq as [Ql Qr].
      destruct (IHl Hl Ql) as [dl El], (IHr Hr Qr) as [dr Er]. rewrite El, Er.
      pose proof (extract_gen_truthy _ _ El) as Nl. pose proof (extract_gen_truthy _ _ Er) as Nr.
      rewrite (proj2 (truthy_Some dl) Nl), (proj2 (truthy_Some dr) Nr). simpl.
      eexists. apply mk_nonempty. apply normalize_and_set2_nonempty; assumption.
    - apply andb_true_iff in H. destruct H as [Hl Hr]. apply andb_true_iff in Hq. destruct Hq as [Ql Qr].
      destruct (IHl Hl Ql) as [dl El], (IHr Hr Qr) as [dr Er]. rewrite El, Er.
      pose proof (extract_gen_truthy _ _ El) as Nl. pose proof (extract_gen_truthy _ _ Er) as Nr.
      rewrite (proj2 (truthy_Some dl) Nl), (proj2 (truthy_Some dr) Nr). simpl.
      eexists. apply mk_nonempty. apply normalize_or_set2_nonempty; assumption.
  Qed.

  Theorem extract_gen_only : forall t d,
    extract_gen ok t = Some d -> cmp_only t = true /\ tforall ok t = true.
  Proof.
    induction t as [a|a|l IHl r IHr|l IHl r IHr|]; intros d H; cbn [extract_gen] in H; try discriminate; simpl.
    - destruct (ok a); [|discriminate]. split; reflexivity.
    - split_node H ok l r.
      destruct (IHl dl eq_refl) as [-> ->], (IHr dr eq_refl) as [-> ->]. split; reflexivity.
    - split_node H ok l r.
      destruct (IHl dl eq_refl) as [-> ->], (IHr dr eq_refl) as [-> ->]. split; reflexivity.
  Qed.

  Theorem extract_gen_Some_iff : forall t,
    (exists d, extract_gen ok t = Some d) <-> cmp_only t && tforall ok t = true.
  Proof.
    intros t. rewrite andb_true_iff. split.
    - intros [d H]. eapply extract_gen_only; eauto.
    - intros [H1 H2]. apply extract_gen_total; assumption.
  Qed.

  (* what is emitted is a well-formed, non-trivial pyarrow filter *)
  Theorem extract_gen_wf : forall t d, extract_gen ok t = Some d -> d <> [] /\ conjs_nonempty d.
  Proof.
    intros t d H. split; [eapply extract_gen_truthy; eauto|]. revert d H.
    assert (Hand : forall l r, conjs_nonempty l -> conjs_nonempty r -> conjs_nonempty (normalize_and (set2 l r))).
    { intros l r Hl Hr.
      assert (P : forall a b, conjs_nonempty a -> conjs_nonempty (flat_map (fun c => map (fun c' => c ++ c') b) a)).
      { intros a b Ha c Hc. apply in_flat_map in Hc. destruct Hc as [c1 [H1 H2]].
        apply in_map_iff in H2. destruct H2 as [c2 [<- _]].
        specialize (Ha c1 H1). destruct c1; [congruence|discriminate]. }
      unfold set2. destruct (dnf_eqb l r); unfold normalize_and; cbn [fold_right]; apply P; assumption. }
    assert (Hor : forall l r, conjs_nonempty l -> conjs_nonempty r -> conjs_nonempty (normalize_or (set2 l r))).
    { intros l r Hl Hr c Hc. unfold set2, normalize_or in Hc.
      destruct (dnf_eqb l r); simpl in Hc; rewrite ?app_nil_r in Hc; [auto|].
      apply in_app_or in Hc. destruct Hc; auto. }
    induction t as [a|a|l IHl r IHr|l IHl r IHr|]; intros d H; cbn [extract_gen] in H; try discriminate.
    - destruct (ok a); [|discriminate].
      apply mk_Some in H. destruct H as [_ [-> _]]. apply conjs_nonempty_canon.
      intros c [<-|[]]. discriminate.
    - split_node H ok l r. destruct H as [_ [-> _]]. apply conjs_nonempty_canon. auto.
    - split_node H ok l r. destruct H as [_ [-> _]]. apply conjs_nonempty_canon. auto.
  Qed.

  (* a stricter leaf policy only turns Some into None, never changes the emitted filter *)
  Lemma extract_gen_with_ne : forall t d, extract_gen ok t = Some d -> extract_with_ne t = Some d.
  Proof.
    unfold extract_with_ne.
    induction t as [a|a|l IHl r IHr|l IHl r IHr|]; intros d H; cbn [extract_gen] in *; try discriminate.
    - destruct (ok a); [exact H|discriminate].
    - destruct (extract_gen ok l) as [dl|], (extract_gen ok r) as [dr|];
        try (destruct (truthy _ && truthy _); discriminate).
      rewrite (IHl dl eq_refl), (IHr dr eq_refl). exact H.
    - destruct (extract_gen ok l) as [dl|], (extract_gen ok r) as [dr|];
        try (destruct (truthy _ && truthy _); discriminate).
      rewrite (IHl dl eq_refl), (IHr dr eq_refl). exact H.
  Qed.
End Gen.

(* ---- instances: the FIXED extract ---- *)
Definition ne_free (t : ptree) : bool := tforall ne_ok t.              (* no `!=` leaf *)
Definition pushable (t : ptree) : bool := cmp_only t && ne_free t.     (* only non-!= PCmp / & / | *)

Lemma extract_truthy : forall t d, extract t = Some d -> d <> [].
Proof. apply extract_gen_truthy. Qed.

Theorem extract_eval : forall t d, extract t = Some d -> forall p, K p d = teval p t.
Proof. apply extract_gen_eval. Qed.

Theorem extract_total_on_cmp_trees : forall t,
  cmp_only t = true -> ne_free t = true -> exists d, extract t = Some d.
Proof. apply extract_gen_total. Qed.

Theorem extract_only_on_cmp_trees : forall t d, extract t = Some d -> cmp_only t = true /\ ne_free t = true.
Proof. apply extract_gen_only. Qed.

(* exact characterisation: a filter is pushed iff the tree is made of non-!= PCmp / & / | only *)
Theorem extract_Some_iff : forall t, (exists d, extract t = Some d) <-> pushable t = true.
Proof. apply extract_gen_Some_iff. Qed.

Corollary extract_None_iff : forall t, extract t = None <-> pushable t = false.
Proof.
  intros t. pose proof (extract_Some_iff t) as [H1 H2]. split; intros H.
  - destruct (pushable t) eqn:E; [|reflexivity]. destruct (H2 eq_refl) as [d E']. congruence.
  - destruct (extract t) as [d|] eqn:E; [|reflexivity]. rewrite H1 in H by eauto. discriminate.
Qed.

Theorem extract_wf : forall t d, extract t = Some d -> d <> [] /\ conjs_nonempty d.
Proof. apply extract_gen_wf. Qed.

(* the fix only withdraws filters: whatever is still pushed is what the old code pushed *)
Theorem extract_refines_with_ne : forall t d, extract t = Some d -> extract_with_ne t = Some d.
Proof. apply extract_gen_with_ne. Qed.

Theorem extract_with_ne_agrees_when_ne_free : forall t, ne_free t = true -> extract t = extract_with_ne t.
Proof.
  intros t H. destruct (extract t) as [d|] eqn:E.
  - symmetry. apply extract_refines_with_ne. exact E.
  - destruct (extract_with_ne t) as [d|] eqn:E'; [|reflexivity].
    apply extract_gen_only in E'. destruct E' as [C _].
    destruct (extract_total_on_cmp_trees t C H) as [d' E'']. congruence.
Qed.

(* ---- instances: the OLD extract_with_ne ---- *)
Lemma tforall_true : forall t, tforall (fun _ => true) t = true.
Proof. induction t; simpl; auto; rewrite IHt1, IHt2; reflexivity. Qed.

Theorem extract_with_ne_eval : forall t d, extract_with_ne t = Some d -> forall p, K p d = teval p t.
Proof. apply extract_gen_eval. Qed.

Theorem extract_with_ne_Some_iff : forall t, (exists d, extract_with_ne t = Some d) <-> cmp_only t = true.
Proof.
  intros t. unfold extract_with_ne. rewrite extract_gen_Some_iff, tforall_true, andb_true_r. reflexivity.
Qed.

Theorem extract_with_ne_wf : forall t d, extract_with_ne t = Some d -> d <> [] /\ conjs_nonempty d.
Proof. apply extract_gen_wf. Qed.

(* ================================================================== *)
(* 6. Reader semantics as a Boolean DNF                                *)
(* ================================================================== *)
Definition atrue (r : rowv) (a : atom) : bool :=
  match arrow_atom a r with Some true => true | _ => false end.

Lemma arrow_conj_true : forall r c,
  (match arrow_conj c r with Some true => true | _ => false end) = forallb (atrue r) c.
Proof.
  intros r. induction c as [|a c IH]; [reflexivity|].
  change (arrow_conj (a :: c) r) with (kand (arrow_atom a r) (arrow_conj c r)).
  cbn [forallb]. rewrite <- IH. unfold atrue.
  destruct (arrow_atom a r) as [[|]|]; destruct (arrow_conj c r) as [[|]|]; reflexivity.
Qed.

Lemma arrow_keep_spec : forall d r, arrow_keep d r = K (atrue r) d.
Proof.
  intros d r. unfold arrow_keep, K. induction d as [|c d IH]; [reflexivity|].
  change (arrow_eval (c :: d) r) with (kor (arrow_conj c r) (arrow_eval d r)).
  cbn [existsb]. rewrite <- IH, <- arrow_conj_true.
  destruct (arrow_conj c r) as [[|]|]; destruct (arrow_eval d r) as [[|]|]; reflexivity.
Qed.

Lemma pandas_keep_teval : forall t r, cmp_only t = true ->
  pandas_keep t r = Some (teval (fun a => pandas_atom a r) t).
Proof.
  induction t as [a|a|l IHl r' IHr|l IHl r' IHr|]; intros r H; simpl in H; try discriminate; simpl.
  - reflexivity.
  - apply andb_true_iff in H. destruct H as [Hl Hr]. rewrite IHl, IHr by assumption. reflexivity.
  - apply andb_true_iff in H. destruct H as [Hl Hr]. rewrite IHl, IHr by assumption. reflexivity.
Qed.

(* ================================================================== *)
(* 7. Soundness                                                         *)
(* ================================================================== *)
Definition is_some (c : cell) : bool := match c with Some _ => true | None => false end.

(* row-wise condition: every != atom looks at a column that is present in this row *)
Definition ne_safe (t : ptree) (r : rowv) : bool :=
  tforall (fun a => negb (is_ne (a_op a)) || is_some (r (a_col a))) t.

Lemma tforall_impl : forall (q1 q2 : atom -> bool) t,
  (forall a, q1 a = true -> q2 a = true) -> tforall q1 t = true -> tforall q2 t = true.
Proof.
  intros q1 q2 t Hq. induction t; simpl; intros H; auto.
  - apply andb_true_iff in H. destruct H. rewrite IHt1, IHt2; auto.
  - apply andb_true_iff in H. destruct H. rewrite IHt1, IHt2; auto.
Qed.

Lemma ne_free_safe : forall t r, ne_free t = true -> ne_safe t r = true.
Proof.
  intros t r. apply tforall_impl. intros a H. unfold ne_ok in H. rewrite H. reflexivity.
Qed.

Lemma teval_agree : forall (q p1 p2 : atom -> bool) t,
  (forall a, q a = true -> p1 a = p2 a) -> tforall q t = true -> teval p1 t = teval p2 t.
Proof.
  intros q p1 p2 t Hq. induction t; simpl; intros H; auto.
  - apply andb_true_iff in H. destruct H. rewrite IHt1, IHt2; auto.
  - apply andb_true_iff in H. destruct H. rewrite IHt1, IHt2; auto.
Qed.

Lemma teval_mono : forall (p1 p2 : atom -> bool) t,
  (forall a, p1 a = true -> p2 a = true) -> teval p1 t = true -> teval p2 t = true.
Proof.
  intros p1 p2 t Hp. induction t; simpl; intros H; auto.
  - apply andb_true_iff in H. destruct H. rewrite IHt1, IHt2; auto.
  - apply orb_true_iff in H. apply orb_true_iff. destruct H; [left|right]; auto.
Qed.

Lemma atom_agree : forall r a,
  negb (is_ne (a_op a)) || is_some (r (a_col a)) = true -> pandas_atom a r = atrue r a.
Proof.
  intros r [c o v]. unfold pandas_atom, atrue, arrow_atom. simpl.
  destruct (r c) as [x|]; simpl.
  - intros _. destruct (cmp_holds o x v); reflexivity.
  - destruct o; simpl; intros H; try reflexivity; discriminate.
Qed.

Lemma atom_under : forall r a, atrue r a = true -> pandas_atom a r = true.
Proof.
  intros r [c o v]. unfold pandas_atom, atrue, arrow_atom. simpl.
  destruct (r c) as [x|]; simpl; [|discriminate].
  destruct (cmp_holds o x v); intros; congruence.
Qed.

(* ---- generic in the leaf policy ---- *)
(* Row-wise soundness: the pushed filter agrees with pandas on every row in which
   no `!=` atom of the predicate reads a missing value. *)
Theorem extract_gen_sound_row : forall ok t d r,
  extract_gen ok t = Some d -> ne_safe t r = true -> pandas_keep t r = Some (arrow_keep d r).
Proof.
  intros ok t d r He Hs.
  rewrite (pandas_keep_teval t r (proj1 (extract_gen_only _ _ _ He))).
  rewrite arrow_keep_spec, (extract_gen_eval _ _ _ He). f_equal.
  eapply teval_agree; [|exact Hs]. intros a Ha. apply atom_agree. exact Ha.
Qed.

(* A pushed filter NEVER lets an extra row through, whatever the leaf policy. *)
Theorem extract_gen_under_approx : forall ok t d r,
  extract_gen ok t = Some d -> arrow_keep d r = true -> pandas_keep t r = Some true.
Proof.
  intros ok t d r He Hk.
  rewrite (pandas_keep_teval t r (proj1 (extract_gen_only _ _ _ He))). f_equal.
  rewrite arrow_keep_spec, (extract_gen_eval _ _ _ He) in Hk.
  eapply teval_mono; [|exact Hk]. intros a. apply atom_under.
Qed.

(* every emitted atom satisfies the leaf policy *)
Definition atoms_ok (q : atom -> bool) (d : dnf) : Prop := forall c a, In c d -> In a c -> q a = true.

Lemma atoms_ok_canon : forall q d, atoms_ok q d -> atoms_ok q (canon d).
Proof.
  intros q d H c a Hc Ha. apply canon_In in Hc. apply in_map_iff in Hc. destruct Hc as [c0 [<- Hc0]].
  apply (proj1 (canon_conj_In _ _)) in Ha. exact (H c0 a Hc0 Ha).
Qed.

Lemma atoms_ok_and : forall q l r, atoms_ok q l -> atoms_ok q r -> atoms_ok q (normalize_and (set2 l r)).
Proof.
  intros q l r Hl Hr.
  assert (P : forall x y, atoms_ok q x -> atoms_ok q y ->
              atoms_ok q (flat_map (fun c => map (fun c' => c ++ c') y) x)).
  { intros x y Hx Hy c a Hc Ha. apply in_flat_map in Hc. destruct Hc as [c1 [H1 H2]].
    apply in_map_iff in H2. destruct H2 as [c2 [<- H2]]. apply in_app_or in Ha.
    destruct Ha; [eapply Hx|eapply Hy]; eauto. }
  assert (N : atoms_ok q [[]]) by (intros c a [<-|[]] []).
  unfold set2. destruct (dnf_eqb l r); unfold normalize_and; cbn [fold_right]; auto.
Qed.

Lemma atoms_ok_or : forall q l r, atoms_ok q l -> atoms_ok q r -> atoms_ok q (normalize_or (set2 l r)).
Proof.
  intros q l r Hl Hr c a Hc Ha. unfold set2, normalize_or in Hc.
  destruct (dnf_eqb l r); simpl in Hc; rewrite ?app_nil_r in Hc; [eapply Hl; eauto|].
  apply in_app_or in Hc. destruct Hc; [eapply Hl|eapply Hr]; eauto.
Qed.

Theorem extract_gen_atoms_ok : forall ok t d, extract_gen ok t = Some d -> atoms_ok ok d.
Proof.
  intros ok. induction t as [a|a|l IHl r IHr|l IHl r IHr|]; intros d H; cbn [extract_gen] in H; try discriminate.
  - destruct (ok a) eqn:E; [|discriminate]. apply mk_Some in H. destruct H as [_ [-> _]].
    apply atoms_ok_canon. intros c x [<-|[]] [<-|[]]. exact E.
  - split_node H ok l r. destruct H as [_ [-> _]]. apply atoms_ok_canon, atoms_ok_and; auto.
  - split_node H ok l r. destruct H as [_ [-> _]]. apply atoms_ok_canon, atoms_ok_or; auto.
Qed.

(* ---- MAIN THEOREM, fixed code: no side condition ---- *)
Theorem dnf_sound : forall t d r,
  extract t = Some d -> pandas_keep t r = Some (arrow_keep d r).
Proof.
  intros t d r He. eapply extract_gen_sound_row; [exact He|].
  apply ne_free_safe. apply (extract_only_on_cmp_trees _ _ He).
Qed.

(* so it neither adds nor loses rows; kept under its old name for the new extract *)
Corollary dnf_under_approx : forall t d r,
  extract t = Some d -> arrow_keep d r = true -> pandas_keep t r = Some true.
Proof. intros t d r He Hk. rewrite (dnf_sound _ _ r He), Hk. reflexivity. Qed.

Corollary dnf_over_approx : forall t d r,
  extract t = Some d -> pandas_keep t r = Some true -> arrow_keep d r = true.
Proof. intros t d r He Hk. rewrite (dnf_sound _ _ r He) in Hk. congruence. Qed.

(* a `!=` never reaches the reader: neither as a leaf of a pushed tree nor as an emitted tuple *)
Theorem extract_no_ne : forall t d, extract t = Some d ->
  ne_free t = true /\ forall c a, In c d -> In a c -> a_op a <> CNe.
Proof.
  intros t d He. split; [apply (extract_only_on_cmp_trees _ _ He)|].
  intros c a Hc Ha E. pose proof (extract_gen_atoms_ok _ _ _ He c a Hc Ha) as Q.
  unfold ne_ok in Q. rewrite E in Q. discriminate.
Qed.

Example ex_ne_not_pushed : extract (PCmp (mkatom 0 CNe 3)) = None.
Proof. reflexivity. Qed.
Example ex_ne_poisons :
  extract (PAndT (POrT (PCmp (mkatom 0 CNe 3)) (PCmp (mkatom 1 CLt 0))) (PCmp (mkatom 1 CGe 1))) = None.
Proof. reflexivity. Qed.

(* ---- OLD behaviour (extract_with_ne): sound only away from `!=`-on-null, refuted in general ---- *)
Theorem dnf_with_ne_sound_row : forall t d r,
  extract_with_ne t = Some d -> ne_safe t r = true -> pandas_keep t r = Some (arrow_keep d r).
Proof. apply extract_gen_sound_row. Qed.

Theorem dnf_with_ne_sound : forall t d r,
  extract_with_ne t = Some d -> ne_free t = true -> pandas_keep t r = Some (arrow_keep d r).
Proof. intros t d r He Hn. eapply dnf_with_ne_sound_row; [exact He|]. apply ne_free_safe. exact Hn. Qed.

(* rows without any missing value were always filtered correctly, whatever the operators *)
Corollary dnf_with_ne_sound_no_nulls : forall t d r,
  extract_with_ne t = Some d -> (forall c, r c <> None) -> pandas_keep t r = Some (arrow_keep d r).
Proof.
  intros t d r He Hr. apply dnf_with_ne_sound_row; [exact He|].
  unfold ne_safe. apply tforall_impl with (q1 := fun _ => true); [|apply tforall_true].
  intros a _. specialize (Hr (a_col a)). destruct (r (a_col a)); [|congruence].
  simpl. apply orb_true_r.
Qed.

(* the old defect could only LOSE rows *)
Theorem dnf_with_ne_under_approx : forall t d r,
  extract_with_ne t = Some d -> arrow_keep d r = true -> pandas_keep t r = Some true.
Proof. apply extract_gen_under_approx. Qed.

(* Any row on which the old reader filter and pandas disagree is a row lost because a `!=` atom met a missing value. *)
Corollary dnf_with_ne_disagree_only_ne_null : forall t d r,
  extract_with_ne t = Some d -> pandas_keep t r <> Some (arrow_keep d r) ->
  ne_safe t r = false /\ pandas_keep t r = Some true /\ arrow_keep d r = false.
Proof.
  intros t d r He Hd.
  destruct (ne_safe t r) eqn:Es.
  - exfalso. apply Hd. apply dnf_with_ne_sound_row; assumption.
  - split; [reflexivity|].
    destruct (arrow_keep d r) eqn:Ek.
    + exfalso. apply Hd. eapply dnf_with_ne_under_approx; eauto.
    + split; [|reflexivity].
      rewrite (pandas_keep_teval t r (proj1 (extract_gen_only _ _ _ He))) in *.
      destruct (teval (fun a => pandas_atom a r) t); [reflexivity|congruence].
Qed.

(* The known defect of the OLD code: `a != 3` on a row where a is missing.  pandas keeps the row, pyarrow drops it. *)
Definition null_row : rowv := fun _ => None.

Theorem dnf_with_ne_refuted : exists t d r,
  extract_with_ne t = Some d /\ pandas_keep t r = Some true /\ arrow_keep d r = false.
Proof.
  exists (PCmp (mkatom 0 CNe 3)), [[mkatom 0 CNe 3]], null_row.
  repeat split; vm_compute; reflexivity.
Qed.

(* the same defect through an OR / AND context, with a partly-present row *)
Definition row_b1 : rowv := fun c => match c with 1%nat => Some 1%Z | _ => None end.
Example dnf_with_ne_refuted_ctx :
  let t := PAndT (POrT (PCmp (mkatom 0 CNe 3)) (PCmp (mkatom 1 CLt 0))) (PCmp (mkatom 1 CGe 1)) in
  exists d, extract_with_ne t = Some d /\ pandas_keep t row_b1 = Some true /\ arrow_keep d row_b1 = false.
Proof. eexists. repeat split; vm_compute; reflexivity. Qed.

(* ================================================================== *)
(* 8. canon and combine                                                *)
(* ================================================================== *)
Theorem canon_sound : forall d r, arrow_keep (canon d) r = arrow_keep d r.
Proof. intros. rewrite !arrow_keep_spec. apply K_canon. Qed.

(* three-valued version: canon does not even change null-vs-false *)
Lemma kand_comm : forall x y, kand x y = kand y x.
Proof. intros [[|]|] [[|]|]; reflexivity. Qed.
Lemma kand_assoc : forall x y z, kand x (kand y z) = kand (kand x y) z.
Proof. intros [[|]|] [[|]|] [[|]|]; reflexivity. Qed.
Lemma kand_idem : forall x y, kand x (kand x y) = kand x y.
Proof. intros [[|]|] [[|]|]; reflexivity. Qed.
Lemma kor_comm : forall x y, kor x y = kor y x.
Proof. intros [[|]|] [[|]|]; reflexivity. Qed.
Lemma kor_assoc : forall x y z, kor x (kor y z) = kor (kor x y) z.
Proof. intros [[|]|] [[|]|] [[|]|]; reflexivity. Qed.
Lemma kor_idem : forall x y, kor x (kor x y) = kor x y.
Proof. intros [[|]|] [[|]|]; reflexivity. Qed.

Lemma arrow_conj_canon : forall c r, arrow_conj (canon_conj c) r = arrow_conj c r.
Proof.
  intros c r. unfold arrow_conj, canon_conj.
  apply (fold_sortu atom_compare atom_compare_eq _ kand (fun a => arrow_atom a r) kand_comm kand_assoc kand_idem).
Qed.

Theorem canon_sound3 : forall d r, arrow_eval (canon d) r = arrow_eval d r.
Proof.
  intros d r. unfold arrow_eval, canon.
  rewrite (fold_sortu conj_compare conj_compare_eq _ kor (fun c => arrow_conj c r) kor_comm kor_assoc kor_idem).
  induction d as [|c d IH]; simpl; [reflexivity|]. rewrite IH, arrow_conj_canon. reflexivity.
Qed.

Theorem combine'_sound : forall d1 d2 r,
  arrow_keep (combine' d1 d2) r = arrow_keep d1 r && arrow_keep d2 r.
Proof.
  intros. unfold combine'. rewrite !arrow_keep_spec, K_canon, K_normalize_and, forallb_set2. reflexivity.
Qed.

Lemma arrow_keep_opt_Some : forall d r, d <> [] -> arrow_keep_opt (Some d) r = arrow_keep d r.
Proof. intros [|c d] r H; [congruence|reflexivity]. Qed.

Lemma of_filters_keep : forall o r, arrow_keep_opt (of_filters o) r = arrow_keep_opt o r.
Proof.
  intros [[|c d]|] r; try reflexivity.
  unfold of_filters. rewrite arrow_keep_opt_Some by (apply canon_nonempty; discriminate).
  rewrite canon_sound. reflexivity.
Qed.

Lemma of_filters_Some : forall o d, of_filters o = Some d -> d <> [].
Proof.
  intros [[|c d0]|] d H; simpl in H; try discriminate. inversion H. apply canon_nonempty. discriminate.
Qed.

(* combine, with Python's conventions: None / falsy = no filter = keep every row *)
Theorem combine_sound : forall o1 o2 r,
  arrow_keep_opt (combine o1 o2) r = arrow_keep_opt o1 r && arrow_keep_opt o2 r.
Proof.
  intros o1 o2 r.
  rewrite <- (of_filters_keep o1 r), <- (of_filters_keep o2 r). unfold combine.
  destruct (of_filters o1) as [d1|] eqn:E1; destruct (of_filters o2) as [d2|] eqn:E2.
  - pose proof (of_filters_Some _ _ E1) as N1. pose proof (of_filters_Some _ _ E2) as N2.
    rewrite mk_nonempty by (apply normalize_and_set2_nonempty; assumption).
    rewrite !arrow_keep_opt_Some; try assumption.
    + apply combine'_sound.
    + apply canon_nonempty. apply normalize_and_set2_nonempty; assumption.
  - simpl (arrow_keep_opt None r). rewrite andb_true_r. reflexivity.
  - reflexivity.
  - reflexivity.
Qed.

(* the result of combine is again a legal `_filters` value: None or a non-empty set *)
Theorem combine_wf : forall o1 o2 d, combine o1 o2 = Some d -> d <> [].
Proof.
  intros o1 o2 d. unfold combine.
  destruct (of_filters o1) as [d1|] eqn:E1; destruct (of_filters o2) as [d2|] eqn:E2; intros H.
  - apply mk_Some in H. tauto.
  - inversion H; subst. eapply of_filters_Some; eauto.
  - inversion H; subst. eapply of_filters_Some; eauto.
  - discriminate.
Qed.

(* pushing `t` on top of user filters `o` = user filters AND pandas predicate *)
Corollary pushdown_with_user_filters_sound : forall t d o r,
  extract t = Some d ->
  Some (arrow_keep_opt (combine o (Some d)) r) = obind2 andb (Some (arrow_keep_opt o r)) (pandas_keep t r).
Proof.
  intros t d o r He. rewrite combine_sound, (dnf_sound _ _ r He).
  rewrite arrow_keep_opt_Some by (eapply extract_truthy; eauto). reflexivity.
Qed.

(* ================================================================== *)
(* 9. Examples                                                          *)
(* ================================================================== *)
Definition A_lt3 := PCmp (mkatom 0 CLt 3).
Definition B_ge1 := PCmp (mkatom 1 CGe 1).
Definition C_eq2 := PCmp (mkatom 2 CEq 2).

(* (a<3 & b>=1) | (a<3 & c==2)  : two conjunctions *)
Example ex_two_conj :
  extract (POrT (PAndT A_lt3 B_ge1) (PAndT A_lt3 C_eq2))
  = Some [ [mkatom 0 CLt 3; mkatom 1 CGe 1]; [mkatom 0 CLt 3; mkatom 2 CEq 2] ].
Proof. vm_compute. reflexivity. Qed.

(* (x|y) & (z|w) : four conjunctions *)
Definition X := PCmp (mkatom 0 CLt 0).
Definition Y := PCmp (mkatom 1 CGt 5).
Definition Zt := PCmp (mkatom 2 CEq 7).
Definition W := PCmp (mkatom 3 CLe 9).
Example ex_four_conj :
  option_map (@length _) (extract (PAndT (POrT X Y) (POrT Zt W))) = Some 4%nat.
Proof. vm_compute. reflexivity. Qed.
Example ex_four_conj_full :
  extract (PAndT (POrT X Y) (POrT Zt W))
  = Some [ [mkatom 0 CLt 0; mkatom 2 CEq 7]; [mkatom 0 CLt 0; mkatom 3 CLe 9];
           [mkatom 1 CGt 5; mkatom 2 CEq 7]; [mkatom 1 CGt 5; mkatom 3 CLe 9] ].
Proof. vm_compute. reflexivity. Qed.

(* frozenset collapse `_And([left, right])` with left == right : (x|y)&(x|y) stays {x},{y}; the
   plain cartesian product would give {x},{x,y},{y} *)
Example ex_and_collapse :
  extract (PAndT (POrT X Y) (POrT Y X)) = Some [ [mkatom 0 CLt 0]; [mkatom 1 CGt 5] ].
Proof. vm_compute. reflexivity. Qed.
Example ex_product_without_collapse :
  canon (normalize_and [ [[mkatom 0 CLt 0]; [mkatom 1 CGt 5]]; [[mkatom 0 CLt 0]; [mkatom 1 CGt 5]] ])
  = [ [mkatom 0 CLt 0]; [mkatom 0 CLt 0; mkatom 1 CGt 5]; [mkatom 1 CGt 5] ].
Proof. vm_compute. reflexivity. Qed.

(* literal on the left is never pushed (dead `elif`), and poisons the whole tree *)
Example ex_flip_not_pushed : extract (PCmpFlip (mkatom 0 CLt 3)) = None.
Proof. reflexivity. Qed.
Example ex_flip_poisons : extract (PAndT A_lt3 (PCmpFlip (mkatom 1 CLt 3))) = None.
Proof. reflexivity. Qed.
Example ex_other_poisons : extract (POrT A_lt3 POther) = None.
Proof. reflexivity. Qed.

(* Latent defect in the dead branch: if its guard were repaired as obviously intended, its body would emit the
   operator UNFLIPPED (`flip.get(op, op)` is keyed by the instance, not the class): `3 < a` would be pushed as
   `a < 3`.  Witness a = 5 : pandas keeps the row, the reader would drop it; a = 0 : the converse. *)
Definition row_a (v : Z) : rowv := fun c => match c with 0%nat => Some v | _ => None end.
Theorem dead_branch_body_wrong :
  let a := mkatom 0 CLt 3 in
  pandas_keep (PCmpFlip a) (row_a 5) = Some true /\ arrow_keep [[dead_branch_atom a]] (row_a 5) = false /\
  pandas_keep (PCmpFlip a) (row_a 0) = Some false /\ arrow_keep [[dead_branch_atom a]] (row_a 0) = true.
Proof. repeat split; vm_compute; reflexivity. Qed.

(* size: the product is exponential -- n two-way ORs and-ed together give 2^n conjunctions *)
Lemma normalize_and_length : forall ds,
  length (normalize_and ds) = fold_right (fun d acc => (length d * acc)%nat) 1%nat ds.
Proof.
  induction ds as [|d ds IH]; [reflexivity|].
  change (normalize_and (d :: ds)) with (flat_map (fun c => map (fun c' => c ++ c') (normalize_and ds)) d).
  cbn [fold_right]. rewrite <- IH. generalize (normalize_and ds) as acc. intros acc.
  induction d as [|c d IHd]; simpl; [reflexivity|].
  rewrite app_length, map_length, IHd. reflexivity.
Qed.

(* ================================================================== *)
(* 10. canon IS frozenset identity: two dnfs denote the same set of sets iff their canon coincide *)
(* ================================================================== *)
Record good {A : Type} (c : A -> A -> comparison) : Prop := {
  g_eq : forall x y, c x y = Eq -> x = y;
  g_refl : forall x, c x x = Eq;
  g_anti : forall x y, c y x = CompOpp (c x y);
  g_trans : forall x y z, c x y = Lt -> c y z = Lt -> c x z = Lt }.
Arguments g_eq {A c}. Arguments g_refl {A c}. Arguments g_anti {A c}. Arguments g_trans {A c}.

Lemma lex_good : forall A (c : A -> A -> comparison), good c -> good (lex_compare c).
Proof.
  intros A c G. split.
  - apply lex_compare_eq. apply (g_eq G).
  - induction x as [|a x IH]; simpl; [reflexivity|]. rewrite (g_refl G). exact IH.
  - induction x as [|a x IH]; intros [|b y]; simpl; try reflexivity.
    rewrite (g_anti G a b). destruct (c a b); simpl; auto.
  - induction x as [|a x IH]; intros [|b y] [|d z]; simpl; intros H1 H2; try discriminate; try reflexivity.
    destruct (c a b) eqn:E1; destruct (c b d) eqn:E2; try discriminate.
    + apply (g_eq G) in E1. apply (g_eq G) in E2. subst. rewrite (g_refl G). eapply IH; eauto.
    + apply (g_eq G) in E1. subst. rewrite E2. reflexivity.
    + apply (g_eq G) in E2. subst. rewrite E1. reflexivity.
    + rewrite (g_trans G _ _ _ E1 E2). reflexivity.
Qed.

Lemma Z_compare_good : good Z.compare.
Proof.
  split.
  - apply Z.compare_eq.
  - apply Z.compare_refl.
  - intros x y. apply Z.compare_antisym.
  - intros x y z H1 H2. rewrite Z.compare_lt_iff in *. lia.
Qed.

Definition enc (a : atom) : list Z := [Z.of_nat (a_col a); Z.of_nat (cmp_idx (a_op a)); a_val a].

Lemma enc_inj : forall a b, enc a = enc b -> a = b.
Proof.
  intros [c1 o1 v1] [c2 o2 v2]. unfold enc. simpl. intros H. inversion H as [[H1 H2 H3]].
  apply Nat2Z.inj in H1. apply Nat2Z.inj in H2. apply cmp_idx_inj in H2. subst. reflexivity.
Qed.

Lemma atom_compare_enc : forall a b, atom_compare a b = lex_compare Z.compare (enc a) (enc b).
Proof.
  intros a b. unfold atom_compare, enc. cbn [lex_compare]. rewrite !Nat2Z.inj_compare.
  destruct (Nat.compare (a_col a) (a_col b)); try reflexivity.
  destruct (Nat.compare (cmp_idx (a_op a)) (cmp_idx (a_op b))); try reflexivity.
  destruct (Z.compare (a_val a) (a_val b)); reflexivity.
Qed.

Lemma atom_compare_good : good atom_compare.
Proof.
  pose proof (lex_good _ _ Z_compare_good) as G. split.
  - exact atom_compare_eq.
  - intros x. rewrite atom_compare_enc. apply (g_refl G).
  - intros x y. rewrite !atom_compare_enc. apply (g_anti G).
  - intros x y z. rewrite !atom_compare_enc. apply (g_trans G).
Qed.

Lemma conj_compare_good : good conj_compare.
Proof. apply (lex_good _ _ atom_compare_good). Qed.

Lemma dnf_compare_good : good dnf_compare.
Proof. apply (lex_good _ _ conj_compare_good). Qed.

Section Sorted.
  Context {A : Type} (c : A -> A -> comparison) (G : good c).
  Let lt (x y : A) : Prop := c x y = Lt.

  Lemma insu_sorted : forall x l, StronglySorted lt l -> StronglySorted lt (insu c x l).
  Proof.
    intros x. induction l as [|y t IH]; intros Hs; simpl.
    - constructor; constructor.
    - inversion Hs as [|? ? Hst Hy]; subst. destruct (c x y) eqn:E.
      + exact Hs.
      + constructor; [exact Hs|]. constructor; [exact E|].
        rewrite Forall_forall in *. intros z Hz. unfold lt. eapply (g_trans G); [exact E|]. apply Hy. exact Hz.
      + constructor; [apply IH; exact Hst|].
        rewrite Forall_forall in *. intros z Hz. apply (insu_In c (g_eq G)) in Hz. destruct Hz as [->|Hz].
        * unfold lt. rewrite (g_anti G x y), E. reflexivity.
        * apply Hy. exact Hz.
  Qed.

  Lemma sortu_sorted : forall l, StronglySorted lt (sortu c l).
  Proof. induction l as [|x l IH]; simpl; [constructor|]. apply insu_sorted. exact IH. Qed.

  Lemma lt_irrefl : forall x, ~ lt x x.
  Proof. intros x H. unfold lt in H. rewrite (g_refl G) in H. discriminate. Qed.

  Lemma sorted_unique : forall l1 l2,
    StronglySorted lt l1 -> StronglySorted lt l2 -> (forall z, In z l1 <-> In z l2) -> l1 = l2.
  Proof.
    induction l1 as [|x l1 IH]; intros [|y l2] S1 S2 H.
    - reflexivity.
    - exfalso. apply (H y). left. reflexivity.
    - exfalso. apply (H x). left. reflexivity.
    - inversion S1 as [|? ? S1' F1]; inversion S2 as [|? ? S2' F2]; subst.
      rewrite Forall_forall in F1, F2.
      assert (Exy : x = y).
      { destruct (proj1 (H x) (or_introl eq_refl)) as [E|Hx]; [symmetry; exact E|].
        destruct (proj2 (H y) (or_introl eq_refl)) as [E|Hy]; [exact E|].
        exfalso. apply (lt_irrefl x). unfold lt. eapply (g_trans G); [apply F1; exact Hy|apply F2; exact Hx]. }
      subst y. f_equal. apply IH; try assumption.
      intros z. split; intros Hz.
      + destruct (proj1 (H z) (or_intror Hz)) as [E|Hz']; [|exact Hz'].
        subst z. exfalso. apply (lt_irrefl x). apply F1. exact Hz.
      + destruct (proj2 (H z) (or_intror Hz)) as [E|Hz']; [|exact Hz'].
        subst z. exfalso. apply (lt_irrefl x). apply F2. exact Hz.
  Qed.

  Lemma sortu_unique : forall l1 l2, (forall z, In z l1 <-> In z l2) -> sortu c l1 = sortu c l2.
  Proof.
    intros l1 l2 H. apply sorted_unique; try apply sortu_sorted.
    intros z. rewrite !(sortu_In c (g_eq G)). apply H.
  Qed.
End Sorted.

(* set-of-sets equality of two list models *)
Definition conj_equiv (c1 c2 : list atom) : Prop := forall a, In a c1 <-> In a c2.
Definition dnf_sub (d1 d2 : dnf) : Prop := forall c1, In c1 d1 -> exists c2, In c2 d2 /\ conj_equiv c1 c2.
Definition dnf_equiv (d1 d2 : dnf) : Prop := dnf_sub d1 d2 /\ dnf_sub d2 d1.

Lemma canon_conj_complete : forall c1 c2, conj_equiv c1 c2 -> canon_conj c1 = canon_conj c2.
Proof. intros. apply (sortu_unique atom_compare atom_compare_good). assumption. Qed.

Theorem canon_complete : forall d1 d2, dnf_equiv d1 d2 -> canon d1 = canon d2.
Proof.
  assert (P : forall d1 d2, dnf_sub d1 d2 -> forall z, In z (map canon_conj d1) -> In z (map canon_conj d2)).
  { intros d1 d2 H z Hz. apply in_map_iff in Hz. destruct Hz as [c1 [<- Hc1]].
    destruct (H c1 Hc1) as [c2 [Hc2 E]]. rewrite (canon_conj_complete _ _ E). apply in_map. exact Hc2. }
  intros d1 d2 [H12 H21]. unfold canon. apply (sortu_unique conj_compare conj_compare_good).
  intros z. split; apply P; assumption.
Qed.

Lemma canon_equiv_self : forall d, dnf_equiv (canon d) d.
Proof.
  intros d. split; intros c Hc.
  - apply canon_In in Hc. apply in_map_iff in Hc. destruct Hc as [c0 [<- Hc0]].
    exists c0. split; [exact Hc0|]. intros a. apply canon_conj_In.
  - exists (canon_conj c). split.
    + apply canon_In. apply in_map. exact Hc.
    + intros a. symmetry. apply canon_conj_In.
Qed.

Lemma dnf_sub_trans : forall d1 d2 d3, dnf_sub d1 d2 -> dnf_sub d2 d3 -> dnf_sub d1 d3.
Proof.
  intros d1 d2 d3 H12 H23 c1 Hc1. destruct (H12 c1 Hc1) as [c2 [Hc2 E12]].
  destruct (H23 c2 Hc2) as [c3 [Hc3 E23]]. exists c3. split; [exact Hc3|].
  intros a. rewrite (E12 a). apply E23.
Qed.

Lemma dnf_equiv_sym : forall d1 d2, dnf_equiv d1 d2 -> dnf_equiv d2 d1.
Proof. intros d1 d2 [H1 H2]. split; assumption. Qed.

Lemma dnf_equiv_trans : forall d1 d2 d3, dnf_equiv d1 d2 -> dnf_equiv d2 d3 -> dnf_equiv d1 d3.
Proof. intros d1 d2 d3 [A1 A2] [B1 B2]. split; eapply dnf_sub_trans; eauto. Qed.

Theorem canon_iff : forall d1 d2, canon d1 = canon d2 <-> dnf_equiv d1 d2.
Proof.
  intros d1 d2. split; [|apply canon_complete].
  intros H. eapply dnf_equiv_trans; [apply dnf_equiv_sym; apply canon_equiv_self|].
  rewrite H. apply canon_equiv_self.
Qed.

Theorem canon_idem : forall d, canon (canon d) = canon d.
Proof. intros d. apply canon_complete. apply canon_equiv_self. Qed.

(* the executable test used for `left == right` decides frozenset equality exactly *)
Theorem dnf_eqb_iff : forall d1 d2, dnf_eqb d1 d2 = true <-> dnf_equiv d1 d2.
Proof.
  intros d1 d2. rewrite <- canon_iff. split; [apply dnf_eqb_true|].
  intros H. unfold dnf_eqb. rewrite H, (g_refl dnf_compare_good). reflexivity.
Qed.

(* everything extract / combine return is already canonical *)
Theorem extract_gen_canonical : forall ok t d, extract_gen ok t = Some d -> canon d = d.
Proof.
  intros ok t d H. destruct t; cbn [extract_gen] in H; try discriminate.
  - destruct (ok a); [|discriminate]. apply mk_Some in H. destruct H as [_ [-> _]]. apply canon_idem.
  - split_node H ok t1 t2. destruct H as [_ [-> _]]. apply canon_idem.
  - split_node H ok t1 t2. destruct H as [_ [-> _]]. apply canon_idem.
Qed.

Theorem extract_canonical : forall t d, extract t = Some d -> canon d = d.
Proof. apply extract_gen_canonical. Qed.

Theorem combine_canonical : forall o1 o2 d, combine o1 o2 = Some d -> canon d = d.
Proof.
  intros o1 o2 d. unfold combine.
  assert (F : forall o d, of_filters o = Some d -> canon d = d).
  { intros [[|c0 d0]|] d' H; simpl in H; try discriminate. inversion H. apply canon_idem. }
  destruct (of_filters o1) as [d1|] eqn:E1; destruct (of_filters o2) as [d2|] eqn:E2; intros H.
  - apply mk_Some in H. destruct H as [_ [-> _]]. apply canon_idem.
  - inversion H; subst. eapply F; eauto.
  - inversion H; subst. eapply F; eauto.
  - discriminate.
Qed.

(* set-equal dnfs are indistinguishable to the reader (3-valued) *)
Corollary arrow_eval_equiv : forall d1 d2 r, dnf_equiv d1 d2 -> arrow_eval d1 r = arrow_eval d2 r.
Proof.
  intros d1 d2 r H. rewrite <- (canon_sound3 d1 r), <- (canon_sound3 d2 r), (canon_complete _ _ H). reflexivity.
Qed.

Print Assumptions dnf_sound.
Print Assumptions dnf_under_approx.
Print Assumptions dnf_over_approx.
Print Assumptions extract_no_ne.
Print Assumptions extract_refines_with_ne.
Print Assumptions extract_with_ne_agrees_when_ne_free.
Print Assumptions extract_total_on_cmp_trees.
Print Assumptions extract_only_on_cmp_trees.
Print Assumptions extract_Some_iff.
Print Assumptions extract_None_iff.
Print Assumptions extract_wf.
Print Assumptions extract_eval.
Print Assumptions extract_canonical.
Print Assumptions pushdown_with_user_filters_sound.
Print Assumptions combine_sound.
Print Assumptions combine'_sound.
Print Assumptions combine_wf.
Print Assumptions combine_canonical.
Print Assumptions canon_sound.
Print Assumptions canon_sound3.
Print Assumptions canon_complete.
Print Assumptions canon_iff.
Print Assumptions canon_idem.
Print Assumptions dnf_eqb_iff.
Print Assumptions arrow_eval_equiv.
Print Assumptions normalize_and_length.
Print Assumptions dead_branch_body_wrong.
(* generic in the leaf policy *)
Print Assumptions extract_gen_sound_row.
Print Assumptions extract_gen_under_approx.
Print Assumptions extract_gen_eval.
Print Assumptions extract_gen_Some_iff.
Print Assumptions extract_gen_wf.
Print Assumptions extract_gen_atoms_ok.
Print Assumptions extract_gen_canonical.
(* old behaviour *)
Print Assumptions dnf_with_ne_refuted.
Print Assumptions dnf_with_ne_sound.
Print Assumptions dnf_with_ne_sound_row.
Print Assumptions dnf_with_ne_sound_no_nulls.
Print Assumptions dnf_with_ne_under_approx.
Print Assumptions dnf_with_ne_disagree_only_ne_null.
Print Assumptions extract_with_ne_Some_iff.
Print Assumptions extract_with_ne_wf.
Print Assumptions extract_with_ne_eval.
