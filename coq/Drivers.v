(* Drivers.v -- the fixed-point drivers of dask_expr/_core.py as functions of an arbitrary one-pass
   rewriter:  Expr.simplify (seen set + "Optimizer does not converge"), Expr.lower_completely and the
   fusion loop of optimize_blockwise_fusion.  Name equality is an arbitrary decidable equality.
   Theorems: a converged result is a fixed point of the pass; re-running the driver on its own result
   returns it unchanged (idempotence); a strictly decreasing measure excludes both non-convergence
   outcomes and bounds the number of passes. *)
From DX Require Import Base.

Section Driver.
  Variable E : Type.
  Variable eqb : E -> E -> bool.
  Hypothesis eqb_eq : forall a b, eqb a b = true <-> a = b.
  Variable pass : E -> E.                      (* simplify_once / lower_once / _fusion_pass *)

  Inductive outcome := Converged (e : E) | NonConv | OutOfFuel.
  Definition memE (x : E) (l : list E) : bool := existsb (eqb x) l.

  (* Expr.simplify: loop until the name does not change; raise if a name was already seen *)
  Fixpoint simplify (fuel : nat) (seen : list E) (e : E) : outcome :=
    match fuel with
    | O => OutOfFuel
    | S f =>
        let new := pass e in
        if eqb new e then Converged e
        else if memE new seen then NonConv
        else simplify f (new :: seen) new
    end.

  (* Expr.lower_completely / the fusion while-loop: same without the seen set *)
  Fixpoint iterate (fuel : nat) (e : E) : outcome :=
    match fuel with
    | O => OutOfFuel
    | S f => let new := pass e in if eqb new e then Converged e else iterate f new
    end.

  Lemma eqb_refl : forall a, eqb a a = true.
  Proof. intros a. apply eqb_eq. reflexivity. Qed.

  Theorem simplify_fixpoint : forall fuel seen e e', simplify fuel seen e = Converged e' -> pass e' = e'.
  Proof.
    induction fuel as [|f IH]; intros seen e e' H; simpl in H; [discriminate|].
    destruct (eqb (pass e) e) eqn:E1.
    - inversion H; subst. apply eqb_eq. exact E1.
    - destruct (memE (pass e) seen); [discriminate|]. eapply IH; eauto.
  Qed.

  Theorem simplify_idempotent : forall fuel seen e e', simplify fuel seen e = Converged e' ->
    forall fuel' seen', 1 <= fuel' -> simplify fuel' seen' e' = Converged e'.
  Proof.
    intros fuel seen e e' H fuel' seen' Hf. pose proof (simplify_fixpoint _ _ _ _ H) as Hp.
    destruct fuel' as [|f']; [lia|]. simpl. rewrite Hp, eqb_refl. reflexivity.
  Qed.

  Theorem iterate_fixpoint : forall fuel e e', iterate fuel e = Converged e' -> pass e' = e'.
  Proof.
    induction fuel as [|f IH]; intros e e' H; simpl in H; [discriminate|].
    destruct (eqb (pass e) e) eqn:E1; [inversion H; subst; apply eqb_eq; exact E1|eauto].
  Qed.

  Theorem iterate_idempotent : forall fuel e e', iterate fuel e = Converged e' ->
    forall fuel', 1 <= fuel' -> iterate fuel' e' = Converged e'.
  Proof.
    intros fuel e e' H fuel' Hf. pose proof (iterate_fixpoint _ _ _ H) as Hp.
    destruct fuel' as [|f']; [lia|]. simpl. rewrite Hp, eqb_refl. reflexivity.
  Qed.

  (* termination from a measure that every changing pass strictly decreases *)
  Variable mu : E -> nat.
  Hypothesis mu_decr : forall e, pass e <> e -> mu (pass e) < mu e.

  Lemma memE_In : forall x l, memE x l = true -> In x l.
  Proof.
    intros x l H. unfold memE in H. apply existsb_exists in H. destruct H as [y [Hy He]].
    apply eqb_eq in He. subst. exact Hy.
  Qed.

  (* every element of `seen` has a measure strictly above the current expression: no revisit is possible *)
  Theorem simplify_terminates_aux : forall fuel seen e,
    mu e < fuel -> (forall s, In s seen -> mu e < mu s \/ s = e) ->
    exists e', simplify fuel seen e = Converged e'.
  Proof.
    induction fuel as [|f IH]; intros seen e Hf Hseen; [lia|]. simpl.
    destruct (eqb (pass e) e) eqn:E1; [eexists; reflexivity|].
    assert (Hne : pass e <> e) by (intro Hc; apply eqb_eq in Hc; congruence).
    pose proof (mu_decr _ Hne) as Hd.
    destruct (memE (pass e) seen) eqn:E2.
    - exfalso. apply memE_In in E2. destruct (Hseen _ E2) as [Hlt|Heq]; [lia|congruence].
    - apply IH; [lia|]. intros s [Hs|Hs]; [right; congruence|].
      left. destruct (Hseen _ Hs) as [Hlt|Heq]; [lia|subst; exact Hd].
  Qed.

  Theorem simplify_terminates : forall e, exists e', simplify (S (mu e)) [] e = Converged e'.
  Proof. intros e. apply simplify_terminates_aux; [lia|intros s []]. Qed.

  Theorem iterate_terminates : forall fuel e, mu e < fuel -> exists e', iterate fuel e = Converged e'.
  Proof.
    induction fuel as [|f IH]; intros e Hf; [lia|]. simpl.
    destruct (eqb (pass e) e) eqn:E1; [eexists; reflexivity|].
    assert (Hne : pass e <> e) by (intro Hc; apply eqb_eq in Hc; congruence).
    apply IH. pose proof (mu_decr _ Hne). lia.
  Qed.
End Driver.

(* non-vacuity: a pass on nat that halves until 0 converges; a pass that flips 1 <-> 2 is reported NonConv *)
Example simplify_converges_example : simplify nat Nat.eqb (fun n => n / 2) 10 [] 37 = Converged nat 0.
Proof. reflexivity. Qed.
Example simplify_detects_cycle : simplify nat Nat.eqb (fun n => if n =? 1 then 2 else 1) 10 [] 1 = NonConv nat.
Proof. reflexivity. Qed.
