(* DivisionsProofs.v -- the reported partition structure (divisions) is truthful.
   All theorems unbounded; stdlib only; no axioms. *)
From DX Require Import Base Divisions.

(* ================================================================== *)
(* 0. Generic list helpers                                              *)
(* ================================================================== *)

Lemma nth_map_lt : forall (A B : Type) (f : A -> B) (l : list A) (j : nat) (d : A) (d' : B),
  j < length l -> nth j (map f l) d' = f (nth j l d).
Proof.
  intros A B f l j d d' Hj.
  rewrite (nth_indep (map f l) d' (f d)) by (rewrite map_length; exact Hj).
  apply map_nth.
Qed.
Arguments nth_map_lt {A B} f l j d d' _.

Lemma nth_cuts : forall (divs : list Z) (cuts : list nat) (j : nat),
  j < length cuts ->
  nth j (map (fun c => nth c divs 0%Z) cuts) 0%Z = nth (nth j cuts 0) divs 0%Z.
Proof. intros. apply (nth_map_lt (fun c => nth c divs 0%Z) cuts j 0 0%Z). assumption. Qed.

Lemma last_nth_eq : forall (A : Type) (l : list A) (d : A), last l d = nth (length l - 1) l d.
Proof.
  intros A l d. induction l as [|a l IH]; [reflexivity|].
  destruct l as [|b l']; [reflexivity|].
  change (last (a :: b :: l') d) with (last (b :: l') d). rewrite IH.
  replace (length (a :: b :: l') - 1) with (S (length (b :: l') - 1)) by (simpl; lia).
  reflexivity.
Qed.
Arguments last_nth_eq {A} l d.

Lemma last_In : forall (A : Type) (l : list A) (d : A), l <> [] -> In (last l d) l.
Proof.
  intros A l d Hl. rewrite last_nth_eq. apply nth_In.
  destruct l; [congruence|simpl; lia].
Qed.

Arguments last_In {A} l d _.

Lemma hd_nth0 : forall (A : Type) (l : list A) (d : A), hd d l = nth 0 l d.
Proof. intros A [|a l] d; reflexivity. Qed.

Arguments hd_nth0 {A} l d.

Lemma hd_In : forall (l : list nat), l <> [] -> In (hd 0 l) l.
Proof. intros [|a l] H; [congruence|left; reflexivity]. Qed.

Lemma nth_firstn_lt : forall (A : Type) (l : list A) (k i : nat) (d : A),
  i < k -> nth i (firstn k l) d = nth i l d.
Proof.
  intros A l. induction l as [|a l IH]; intros k i d Hi.
  - rewrite firstn_nil. reflexivity.
  - destruct k as [|k]; [lia|]. destruct i as [|i]; [reflexivity|].
    simpl. apply IH. lia.
Qed.

Arguments nth_firstn_lt {A} l k i d _.

Lemma In_firstn_idx : forall (A : Type) (l : list A) (k : nat) (y d : A),
  In y (firstn k l) -> exists i, i < k /\ i < length l /\ nth i l d = y.
Proof.
  intros A l. induction l as [|a l IH]; intros k y d Hin.
  - rewrite firstn_nil in Hin. inversion Hin.
  - destruct k as [|k]; [inversion Hin|]. simpl in Hin. destruct Hin as [<-|Hin].
    + exists 0. simpl. repeat split; lia.
    + destruct (IH k y d Hin) as (i & Hi & Hl & E). exists (S i). simpl. repeat split; try lia. exact E.
Qed.

Arguments In_firstn_idx {A} l k y d _.

Lemma In_firstn_weak : forall (A : Type) (l : list A) (k : nat) (y : A), In y (firstn k l) -> In y l.
Proof.
  intros A l k y Hin. destruct (In_firstn_idx l k y y Hin) as (i & _ & Hl & <-).
  apply nth_In. exact Hl.
Qed.

Arguments In_firstn_weak {A} l k y _.

Lemma In_skipn_weak : forall (A : Type) (k : nat) (l : list A) (y : A), In y (skipn k l) -> In y l.
Proof.
  intros A k. induction k as [|k IH]; intros l y Hin; [exact Hin|].
  destruct l as [|a l]; [inversion Hin|]. right. apply IH. exact Hin.
Qed.

Arguments In_skipn_weak {A} k l y _.

(* adjacent-order => global order, for Z lists and nat lists *)
Lemma sortedZ_le : forall (l : list Z) (i j : nat),
  sortedZ l -> i <= j -> j < length l -> (nth i l 0 <= nth j l 0)%Z.
Proof.
  intros l i j Hs Hij. induction Hij as [|m Hle IH]; intros Hj.
  - lia.
  - specialize (Hs m Hj). assert (m < length l) by lia. specialize (IH H). lia.
Qed.

Definition nondec (l : list nat) : Prop := forall i, S i < length l -> nth i l 0 <= nth (S i) l 0.
Definition sinc (l : list nat) : Prop := forall i, S i < length l -> nth i l 0 < nth (S i) l 0.

Lemma nondec_le : forall (l : list nat) (i j : nat),
  nondec l -> i <= j -> j < length l -> nth i l 0 <= nth j l 0.
Proof.
  intros l i j Hs Hij. induction Hij as [|m Hle IH]; intros Hj.
  - lia.
  - specialize (Hs m Hj). assert (m < length l) by lia. specialize (IH H). lia.
Qed.

Lemma sinc_nondec : forall l, sinc l -> nondec l.
Proof. intros l H i Hi. specialize (H i Hi). lia. Qed.

Lemma nondecreasingb_spec : forall l, nondecreasingb l = true <-> nondec l.
Proof.
  induction l as [|a l IH]; [split; [intros _ i Hi; simpl in Hi; lia|reflexivity]|].
  destruct l as [|b r].
  - split; [intros _ i Hi; simpl in Hi; lia|reflexivity].
  - change (nondecreasingb (a :: b :: r)) with ((a <=? b) && nondecreasingb (b :: r)).
    rewrite andb_true_iff, Nat.leb_le, IH. split.
    + intros [Hab Hr] i Hi. destruct i as [|i]; [exact Hab|].
      apply (Hr i). simpl in *. lia.
    + intros H. split.
      * apply (H 0). simpl. lia.
      * intros i Hi. apply (H (S i)). simpl in *. lia.
Qed.

Lemma strictly_increasingb_spec : forall l, strictly_increasingb l = true <-> sinc l.
Proof.
  induction l as [|a l IH]; [split; [intros _ i Hi; simpl in Hi; lia|reflexivity]|].
  destruct l as [|b r].
  - split; [intros _ i Hi; simpl in Hi; lia|reflexivity].
  - change (strictly_increasingb (a :: b :: r)) with ((a <? b) && strictly_increasingb (b :: r)).
    rewrite andb_true_iff, Nat.ltb_lt, IH. split.
    + intros [Hab Hr] i Hi. destruct i as [|i]; [exact Hab|].
      apply (Hr i). simpl in *. lia.
    + intros H. split.
      * apply (H 0). simpl. lia.
      * intros i Hi. apply (H (S i)). simpl in *. lia.
Qed.

(* ================================================================== *)
(* 1. truthfulb reflects truthful                                       *)
(* ================================================================== *)

Lemma sortedZb_spec : forall l, sortedZb l = true <-> sortedZ l.
Proof.
  intros l. unfold sortedZb, sortedZ. rewrite forallb_forall. split.
  - intros H i Hi. apply Z.leb_le. apply H. apply in_seq. lia.
  - intros H i Hi. apply in_seq in Hi. apply Z.leb_le. apply H. lia.
Qed.

Lemma row_okb_spec : forall divs n i x, row_okb divs n i x = true <-> row_ok divs n i x.
Proof.
  intros. unfold row_okb, row_ok.
  rewrite andb_true_iff, orb_true_iff, andb_true_iff, Z.ltb_lt, Nat.eqb_eq, !Z.leb_le.
  reflexivity.
Qed.

Theorem truthfulb_spec : forall divs parts, truthfulb divs parts = true <-> truthful divs parts.
Proof.
  intros divs parts. unfold truthfulb, truthful.
  rewrite !andb_true_iff, Nat.eqb_eq, sortedZb_spec, forallb_forall.
  split.
  - intros [[Hl Hs] Hr]. split; [exact Hl|]. split; [exact Hs|].
    intros i x Hi Hx. apply row_okb_spec.
    assert (Hi' : In i (seq 0 (length parts))) by (apply in_seq; lia).
    specialize (Hr i Hi'). rewrite forallb_forall in Hr. apply Hr. exact Hx.
  - intros (Hl & Hs & Hr). split; [split; assumption|].
    intros i Hi. apply in_seq in Hi. rewrite forallb_forall. intros x Hx.
    apply row_okb_spec. apply Hr; [lia|exact Hx].
Qed.

Corollary truthfulb_false : forall divs parts, truthfulb divs parts = false -> ~ truthful divs parts.
Proof. intros divs parts E H. apply truthfulb_spec in H. congruence. Qed.

(* ================================================================== *)
(* 2. The master lemma: regrouping consecutive partitions along cuts    *)
(* ================================================================== *)

(* Output partition j only holds rows of input partitions i with c_j <= i < c_{j+1};
   cuts non-decreasing, last cut <= n, and every NON-last output stops strictly before
   the (right-closed) last input partition.  Then [divs[c] for c in cuts] is truthful. *)
Lemma truthful_regroup : forall divs parts cuts parts',
  truthful divs parts ->
  length cuts = length parts' + 1 ->
  nondec cuts ->
  nth (length parts') cuts 0 <= length parts ->
  (forall j, S j < length parts' -> nth (S j) cuts 0 < length parts) ->
  (forall j x, j < length parts' -> In x (nth j parts' []) ->
       exists i, nth j cuts 0 <= i < nth (S j) cuts 0 /\ In x (nth i parts [])) ->
  truthful (map (fun c => nth c divs 0%Z) cuts) parts'.
Proof.
  intros divs parts cuts parts' (Hlen & Hs & Hrows) Hc Hmono Hlast Hint Hmem.
  assert (Hmono' : forall i j, i <= j -> j < length cuts -> nth i cuts 0 <= nth j cuts 0)
    by (intros; apply nondec_le; auto).
  assert (HsZ : forall i j, i <= j -> j < length divs -> (nth i divs 0 <= nth j divs 0)%Z)
    by (intros; apply sortedZ_le; auto).
  assert (Hbound : forall j, j < length cuts -> nth j cuts 0 <= length parts).
  { intros j Hj. etransitivity; [apply (Hmono' j (length parts')); lia|exact Hlast]. }
  split; [rewrite map_length; exact Hc|]. split.
  - intros j Hj. rewrite map_length in Hj.
    rewrite !nth_cuts by lia.
    apply HsZ; [apply Hmono; lia|]. specialize (Hbound (S j) Hj). lia.
  - intros j x Hj Hx. destruct (Hmem j x Hj Hx) as (i & Hi & Hin).
    assert (Hb1 : nth (S j) cuts 0 <= length parts) by (apply Hbound; lia).
    assert (Hi_n : i < length parts) by lia.
    destruct (Hrows i x Hi_n Hin) as (Hlo & Hhi).
    unfold row_ok. rewrite !nth_cuts by lia.
    split.
    + etransitivity; [apply HsZ|exact Hlo]; lia.
    + assert (Hup : (nth (S i) divs 0 <= nth (nth (S j) cuts 0%nat) divs 0)%Z) by (apply HsZ; lia).
      destruct (Nat.eq_dec (S j) (length parts')) as [E|NE].
      * right. split; [exact E|]. destruct Hhi as [H|[_ H]]; lia.
      * left. destruct Hhi as [H|[E2 H]]; [lia|].
        exfalso. assert (Hj' : S j < length parts') by lia. specialize (Hint j Hj'). lia.
Qed.

(* ================================================================== *)
(* 3. Grouping by lists of partition numbers (FusedIO, Partitions)      *)
(* ================================================================== *)

(* structural "strictly increasing" *)
Fixpoint ssorted (l : list nat) : Prop :=
  match l with
  | [] => True
  | x :: r => (forall y, In y r -> x < y) /\ ssorted r
  end.

Lemma strictly_increasingb_ssorted : forall l, strictly_increasingb l = true -> ssorted l.
Proof.
  induction l as [|a l IH]; intros H; [exact I|].
  destruct l as [|b r]; [split; [intros y []|exact I]|].
  change (strictly_increasingb (a :: b :: r)) with ((a <? b) && strictly_increasingb (b :: r)) in H.
  apply andb_true_iff in H. destruct H as [Hab Hr]. apply Nat.ltb_lt in Hab.
  specialize (IH Hr). split; [|exact IH].
  destruct IH as [Hb _]. intros y [<-|Hy]; [exact Hab|]. specialize (Hb y Hy). lia.
Qed.

Lemma ssorted_app : forall a b, ssorted (a ++ b) ->
  ssorted a /\ ssorted b /\ (forall x y, In x a -> In y b -> x < y).
Proof.
  induction a as [|x a IH]; intros b H.
  - split; [exact I|]. split; [exact H|]. intros x y [].
  - simpl in H. destruct H as [H1 H2]. destruct (IH b H2) as (Ha & Hb & Hc).
    split; [split; [intros y Hy; apply H1; apply in_or_app; left; exact Hy|exact Ha]|].
    split; [exact Hb|].
    intros x' y [<-|Hx'] Hy; [apply H1; apply in_or_app; right; exact Hy|apply Hc; assumption].
Qed.

Lemma ssorted_hd_le : forall g p, ssorted g -> In p g -> hd 0 g <= p.
Proof.
  intros [|a g] p Hs Hp; [inversion Hp|]. simpl. destruct Hp as [<-|Hp]; [lia|].
  destruct Hs as [H _]. specialize (H p Hp). lia.
Qed.

Lemma ssorted_le_last : forall g p, ssorted g -> In p g -> p <= last g 0.
Proof.
  induction g as [|a g IH]; intros p Hs Hp; [inversion Hp|].
  destruct Hs as [Ha Hg]. destruct g as [|b g'].
  - destruct Hp as [<-|[]]. simpl. lia.
  - change (last (a :: b :: g') 0) with (last (b :: g') 0).
    destruct Hp as [<-|Hp].
    + assert (Hl : In (last (b :: g') 0) (b :: g')) by (apply last_In; discriminate).
      specialize (Ha _ Hl). lia.
    + apply IH; assumption.
Qed.

Lemma groups_each_sorted : forall gs g, ssorted (concat gs) -> In g gs -> ssorted g.
Proof.
  induction gs as [|g0 gs IH]; intros g Hs Hin; [inversion Hin|].
  simpl in Hs. apply ssorted_app in Hs. destruct Hs as (H0 & Hr & _).
  destruct Hin as [<-|Hin]; [exact H0|apply IH; assumption].
Qed.

Lemma groups_sep : forall gs j k p q,
  ssorted (concat gs) -> j < k -> k < length gs ->
  In p (nth j gs []) -> In q (nth k gs []) -> p < q.
Proof.
  induction gs as [|g gs IH]; intros j k p q Hs Hjk Hk Hp Hq; [simpl in Hk; lia|].
  simpl in Hs. apply ssorted_app in Hs. destruct Hs as (_ & Hr & Hc).
  destruct k as [|k]; [lia|]. simpl in Hk, Hq.
  destruct j as [|j].
  - simpl in Hp. apply Hc; [exact Hp|].
    apply in_concat. exists (nth k gs []). split; [apply nth_In; lia|exact Hq].
  - simpl in Hp. apply (IH j k); try assumption; lia.
Qed.

Lemma In_group_rows : forall parts g x,
  In x (group_rows parts g) -> exists p, In p g /\ In x (nth p parts []).
Proof.
  intros parts g x H. unfold group_rows in H. apply in_concat in H.
  destruct H as (l & Hl & Hx). apply in_map_iff in Hl. destruct Hl as (p & <- & Hp).
  exists p. split; assumption.
Qed.

(* Any grouping of a strictly increasing list of valid partition numbers into non-empty
   groups: the FIXED FusedIO formula is truthful. *)
Lemma truthful_groups : forall divs parts gs,
  truthful divs parts -> gs <> [] -> (forall g, In g gs -> g <> []) ->
  ssorted (concat gs) -> (forall p, In p (concat gs) -> p < length parts) ->
  truthful (fused_divisions divs gs) (fused_parts parts gs).
Proof.
  intros divs parts gs Ht Hne Hgne Hs Hval.
  unfold fused_divisions.
  set (L := last (last gs []) 0).
  replace (map (fun b => nth (hd 0 b) divs 0%Z) gs ++ [nth (S L) divs 0%Z])
    with (map (fun c => nth c divs 0%Z) (map (hd 0) gs ++ [S L]))
    by (rewrite map_app, map_map; reflexivity).
  set (cuts := map (hd 0) gs ++ [S L]).
  set (m := length gs).
  assert (Hm : 1 <= m) by (subst m; destruct gs; [congruence|simpl; lia]).
  assert (cut_lt : forall j, j < m -> nth j cuts 0 = hd 0 (nth j gs [])).
  { intros j Hj. unfold cuts. rewrite app_nth1 by (rewrite map_length; exact Hj).
    exact (map_nth (hd 0) gs [] j). }
  assert (cut_last : nth m cuts 0 = S L).
  { unfold cuts. rewrite app_nth2 by (rewrite map_length; subst m; lia).
    rewrite map_length. subst m. rewrite Nat.sub_diag. reflexivity. }
  assert (Hin_gs : forall j, j < m -> In (nth j gs []) gs) by (intros; apply nth_In; assumption).
  assert (Hin_cat : forall j p, j < m -> In p (nth j gs []) -> In p (concat gs)).
  { intros j p Hj Hp. apply in_concat. exists (nth j gs []). split; auto. }
  assert (Hlastg : last gs [] = nth (m - 1) gs []) by (apply last_nth_eq).
  assert (K : forall j p, j < m -> In p (nth j gs []) -> nth j cuts 0 <= p < nth (S j) cuts 0).
  { intros j p Hj Hp.
    assert (Hsg : ssorted (nth j gs [])) by (eapply groups_each_sorted; eauto).
    split.
    - rewrite cut_lt by exact Hj. apply ssorted_hd_le; assumption.
    - destruct (Nat.eq_dec (S j) m) as [E|NE].
      + rewrite E, cut_last. subst L. rewrite Hlastg.
        replace (m - 1) with j by lia.
        pose proof (ssorted_le_last _ p Hsg Hp). lia.
      + assert (Hj' : S j < m) by lia. rewrite cut_lt by exact Hj'.
        apply (groups_sep gs j (S j)); try assumption; try lia.
        apply hd_In. apply Hgne. apply Hin_gs. exact Hj'. }
  assert (Hlenp : length (fused_parts parts gs) = m) by (unfold fused_parts; apply map_length).
  apply truthful_regroup with (parts := parts).
  - exact Ht.
  - unfold cuts. rewrite app_length, map_length, Hlenp. reflexivity.
  - intros j Hj. unfold cuts in Hj. rewrite app_length, map_length in Hj. simpl in Hj.
    assert (Hj' : j < m) by (subst m; lia).
    assert (Hh : In (hd 0 (nth j gs [])) (nth j gs [])) by (apply hd_In, Hgne, Hin_gs; exact Hj').
    specialize (K j _ Hj' Hh). lia.
  - rewrite Hlenp, cut_last. subst L. rewrite Hlastg.
    assert (Hm1 : m - 1 < m) by lia.
    assert (Hl : In (last (nth (m - 1) gs []) 0) (nth (m - 1) gs [])) by (apply last_In, Hgne, Hin_gs; exact Hm1).
    specialize (Hval _ (Hin_cat _ _ Hm1 Hl)). lia.
  - intros j Hj. rewrite Hlenp in Hj. rewrite cut_lt by exact Hj.
    apply Hval. apply (Hin_cat (S j)); [exact Hj|]. apply hd_In, Hgne, Hin_gs. exact Hj.
  - intros j x Hj Hx. rewrite Hlenp in Hj. unfold fused_parts in Hx.
    rewrite (nth_map_lt (group_rows parts) gs j [] []) in Hx by exact Hj.
    apply In_group_rows in Hx. destruct Hx as (p & Hp & Hx).
    exists p. split; [apply K; assumption|exact Hx].
Qed.

(* ---------------- Partitions ---------------- *)

Lemma concat_singletons : forall (l : list nat), concat (map (fun p => [p]) l) = l.
Proof. induction l as [|a l IH]; [reflexivity|]. simpl. rewrite IH. reflexivity. Qed.

Lemma last_singletons : forall (l : list nat), last (last (map (fun p => [p]) l) []) 0 = last l 0.
Proof.
  induction l as [|a l IH]; [reflexivity|]. destruct l as [|b r]; [reflexivity|]. exact IH.
Qed.

Lemma partitions_as_groups_divs : forall divs sel,
  fused_divisions divs (map (fun p => [p]) sel) = partitions_divisions_old divs sel.
Proof.
  intros. unfold fused_divisions, partitions_divisions_old.
  rewrite map_map, last_singletons. reflexivity.
Qed.

Lemma partitions_as_groups_parts : forall parts sel,
  fused_parts parts (map (fun p => [p]) sel) = select_parts parts sel.
Proof.
  intros. unfold fused_parts, select_parts. rewrite map_map. apply map_ext.
  intros p. unfold group_rows. simpl. apply app_nil_r.
Qed.

Theorem partitions_truthful : forall divs parts sel d',
  truthful divs parts ->
  (forall p, In p sel -> p < length parts) ->
  sel <> [] ->
  partitions_divisions divs sel = Some d' ->
  truthful d' (select_parts parts sel).
Proof.
  intros divs parts sel d' Ht Hval Hne Hd.
  unfold partitions_divisions in Hd.
  destruct (strictly_increasingb sel) eqn:Hs; [|discriminate].
  injection Hd as <-.
  rewrite <- partitions_as_groups_divs, <- partitions_as_groups_parts.
  apply truthful_groups.
  - exact Ht.
  - destruct sel; [congruence|discriminate].
  - intros g Hg. apply in_map_iff in Hg. destruct Hg as (p & <- & _). discriminate.
  - rewrite concat_singletons. apply strictly_increasingb_ssorted. exact Hs.
  - rewrite concat_singletons. exact Hval.
Qed.

(* the fixed function answers "known" exactly on strictly increasing selections *)
Lemma partitions_divisions_known_iff : forall divs sel,
  (exists d', partitions_divisions divs sel = Some d') <-> sinc sel.
Proof.
  intros. rewrite <- strictly_increasingb_spec. unfold partitions_divisions.
  destruct (strictly_increasingb sel); split; intros H; try reflexivity.
  - eexists; reflexivity.
  - destruct H; discriminate.
  - discriminate.
Qed.

(* UNFIXED code: returns the raw formula even for unsorted selections: sel = [2;0] *)
Theorem partitions_unsorted_refuted : exists divs parts sel,
  truthful divs parts /\ (forall p, In p sel -> p < length parts) /\ sel <> [] /\
  ~ truthful (partitions_divisions_old divs sel) (select_parts parts sel).
Proof.
  exists [0; 10; 20; 30]%Z, [[0]; [10]; [20]]%Z, [2; 0].
  split; [apply truthfulb_spec; vm_compute; reflexivity|].
  split; [intros p [<-|[<-|[]]]; simpl; lia|].
  split; [discriminate|].
  apply truthfulb_false. vm_compute. reflexivity.
Qed.

(* non-strict (repeated partition) selections are wrong too although the output is sorted: sel = [0;0] *)
Theorem partitions_repeat_refuted : exists divs parts sel,
  truthful divs parts /\ (forall p, In p sel -> p < length parts) /\ nondec sel /\
  ~ truthful (partitions_divisions_old divs sel) (select_parts parts sel).
Proof.
  exists [0; 10; 20]%Z, [[5]; [15]]%Z, [0; 0].
  split; [apply truthfulb_spec; vm_compute; reflexivity|].
  split; [intros p [<-|[<-|[]]]; simpl; lia|].
  split; [apply nondecreasingb_spec; reflexivity|].
  apply truthfulb_false. vm_compute. reflexivity.
Qed.

(* non-vacuity: strictly increasing, non consecutive selection *)
Example partitions_example :
  partitions_divisions [0; 10; 20; 30]%Z [0; 2] = Some [0; 20; 30]%Z /\
  select_parts [[0; 9]; [10]; [20; 30]]%Z [0; 2] = [[0; 9]; [20; 30]]%Z /\
  truthfulb [0; 10; 20; 30]%Z [[0; 9]; [10]; [20; 30]]%Z = true /\
  truthfulb [0; 20; 30]%Z [[0; 9]; [20; 30]]%Z = true /\
  partitions_divisions [0; 10; 20; 30]%Z [2; 0] = None.
Proof. vm_compute. repeat split; reflexivity. Qed.

(* ---------------- FusedIO ---------------- *)

Theorem fusion_buckets_concat : forall l step, 1 <= step -> concat (fusion_buckets l step) = l.
Proof. intros. unfold fusion_buckets. apply part_all_concat. assumption. Qed.

Theorem fused_truthful : forall divs parts parts_sel step,
  truthful divs parts ->
  strictly_increasingb parts_sel = true ->
  (forall p, In p parts_sel -> p < length parts) ->
  1 <= step -> parts_sel <> [] ->
  truthful (fused_divisions divs (fusion_buckets parts_sel step))
           (fused_parts parts (fusion_buckets parts_sel step)).
Proof.
  intros divs parts sel step Ht Hs Hval Hstep Hne.
  pose proof (fusion_buckets_concat sel step Hstep) as Hc.
  apply truthful_groups.
  - exact Ht.
  - intros E. rewrite E in Hc. simpl in Hc. congruence.
  - intros g Hg. unfold fusion_buckets, part_all in Hg.
    apply part_all_f_nonempty in Hg; [tauto|exact Hstep].
  - rewrite Hc. apply strictly_increasingb_ssorted. exact Hs.
  - rewrite Hc. exact Hval.
Qed.

(* UNFIXED formula (D8): the last division is a partition NUMBER *)
Theorem fused_divisions_old_refuted : exists divs parts parts_sel step,
  truthful divs parts /\ strictly_increasingb parts_sel = true /\
  (forall p, In p parts_sel -> p < length parts) /\ 1 <= step /\ parts_sel <> [] /\
  ~ truthful (fused_divisions_old divs (fusion_buckets parts_sel step))
             (fused_parts parts (fusion_buckets parts_sel step)).
Proof.
  exists [0; 10; 20; 30; 40]%Z, [[0]; [10]; [20]; [30; 40]]%Z, [0; 1; 2; 3], 2.
  split; [apply truthfulb_spec; vm_compute; reflexivity|].
  split; [reflexivity|].
  split; [intros p [<-|[<-|[<-|[<-|[]]]]]; simpl; lia|].
  split; [lia|]. split; [discriminate|].
  apply truthfulb_false. vm_compute. reflexivity.
Qed.

(* even when the resulting vector happens to be sorted the old value is wrong (rows above it) *)
Theorem fused_divisions_old_refuted_sorted : exists divs parts parts_sel step,
  truthful divs parts /\ strictly_increasingb parts_sel = true /\
  (forall p, In p parts_sel -> p < length parts) /\ 1 <= step /\ parts_sel <> [] /\
  sortedZ (fused_divisions_old divs (fusion_buckets parts_sel step)) /\
  ~ truthful (fused_divisions_old divs (fusion_buckets parts_sel step))
             (fused_parts parts (fusion_buckets parts_sel step)).
Proof.
  exists [0; 1; 2; 30; 40]%Z, [[0]; [1]; [2]; [30; 40]]%Z, [0; 1; 2; 3], 2.
  split; [apply truthfulb_spec; vm_compute; reflexivity|].
  split; [reflexivity|].
  split; [intros p [<-|[<-|[<-|[<-|[]]]]]; simpl; lia|].
  split; [lia|]. split; [discriminate|].
  split; [apply sortedZb_spec; vm_compute; reflexivity|].
  apply truthfulb_false. vm_compute. reflexivity.
Qed.

(* the other wrong variant divs[buckets[-1][-1]] (no + 1) loses the last input partition's range *)
Theorem fused_divisions_noplus1_refuted : exists divs parts parts_sel step,
  truthful divs parts /\ strictly_increasingb parts_sel = true /\
  (forall p, In p parts_sel -> p < length parts) /\ 1 <= step /\ parts_sel <> [] /\
  ~ truthful (fused_divisions_noplus1 divs (fusion_buckets parts_sel step))
             (fused_parts parts (fusion_buckets parts_sel step)).
Proof.
  exists [0; 10; 20; 30; 40]%Z, [[0]; [10]; [20]; [30; 40]]%Z, [0; 1; 2; 3], 2.
  split; [apply truthfulb_spec; vm_compute; reflexivity|].
  split; [reflexivity|].
  split; [intros p [<-|[<-|[<-|[<-|[]]]]]; simpl; lia|].
  split; [lia|]. split; [discriminate|].
  apply truthfulb_false. vm_compute. reflexivity.
Qed.

Example fused_example :
  fusion_buckets [0; 1; 3; 4; 5] 2 = [[0; 1]; [3; 4]; [5]] /\
  fused_divisions [0; 10; 20; 30; 40; 50; 60]%Z (fusion_buckets [0; 1; 3; 4; 5] 2) = [0; 30; 50; 60]%Z /\
  fused_parts [[1]; [12]; [25]; [30; 31]; [49]; [50; 60]]%Z (fusion_buckets [0; 1; 3; 4; 5] 2)
    = [[1; 12]; [30; 31; 49]; [50; 60]]%Z /\
  truthfulb [0; 10; 20; 30; 40; 50; 60]%Z [[1]; [12]; [25]; [30; 31]; [49]; [50; 60]]%Z = true /\
  truthfulb [0; 30; 50; 60]%Z [[1; 12]; [30; 31; 49]; [50; 60]]%Z = true /\
  fused_divisions_old [0; 10; 20; 30; 40; 50; 60]%Z (fusion_buckets [0; 1; 3; 4; 5] 2) = [0; 30; 50; 5]%Z.
Proof. vm_compute. repeat split; reflexivity. Qed.

(* ================================================================== *)
(* 4. RepartitionToFewer                                                *)
(* ================================================================== *)

(* 0 = bs_0 <= bs_1 <= ... <= bs_m = n, m >= 1 *)
Definition chain (bs : list nat) (n : nat) : Prop :=
  2 <= length bs /\ hd 0 bs = 0 /\ last bs 0 = n /\ nondec bs.

(* every interior boundary bs_1 .. bs_{m-1} is < n *)
Definition interior_below (bs : list nat) (n : nat) : Prop :=
  forall j, 1 <= j -> S j < length bs -> nth j bs 0 < n.

Lemma chainb_spec : forall bs n, chainb bs n = true <-> chain bs n.
Proof.
  intros. unfold chainb, chain.
  rewrite !andb_true_iff, Nat.leb_le, !Nat.eqb_eq, nondecreasingb_spec. tauto.
Qed.

Lemma interior_belowb_spec : forall bs n, interior_belowb bs n = true <-> interior_below bs n.
Proof.
  intros. unfold interior_belowb, interior_below. rewrite forallb_forall. split.
  - intros H j H1 H2. apply Nat.ltb_lt. apply H. apply in_seq. lia.
  - intros H j Hj. apply in_seq in Hj. apply Nat.ltb_lt. apply H; lia.
Qed.

Lemma fewer_parts_length : forall parts bs, length (fewer_parts parts bs) = length bs - 1.
Proof.
  intros parts. induction bs as [|a bs IH]; [reflexivity|]. destruct bs as [|b r]; [reflexivity|].
  change (fewer_parts parts (a :: b :: r)) with (range_rows parts a b :: fewer_parts parts (b :: r)).
  cbn [length]. rewrite IH. cbn [length]. lia.
Qed.

Lemma fewer_parts_nth : forall parts bs j, S j < length bs ->
  nth j (fewer_parts parts bs) [] = range_rows parts (nth j bs 0) (nth (S j) bs 0).
Proof.
  intros parts. induction bs as [|a bs IH]; intros j Hj; [simpl in Hj; lia|].
  destruct bs as [|b r]; [simpl in Hj; lia|].
  change (fewer_parts parts (a :: b :: r)) with (range_rows parts a b :: fewer_parts parts (b :: r)).
  destruct j as [|j]; [reflexivity|].
  assert (H : S j < length (b :: r)) by (simpl in *; lia).
  exact (IH j H).
Qed.

Lemma In_range_rows : forall parts a b x,
  In x (range_rows parts a b) -> exists i, a <= i < b /\ In x (nth i parts []).
Proof.
  intros parts a b x H. unfold range_rows in H. apply in_concat in H.
  destruct H as (l & Hl & Hx). apply in_map_iff in Hl. destruct Hl as (i & <- & Hi).
  apply in_seq in Hi. exists i. split; [lia|exact Hx].
Qed.

(* general form: boundaries need not start at 0 nor end at n *)
Lemma fewer_truthful_gen : forall divs parts bs,
  truthful divs parts ->
  2 <= length bs -> nondec bs -> last bs 0 <= length parts ->
  interior_below bs (length parts) ->
  truthful (fewer_divisions divs bs) (fewer_parts parts bs).
Proof.
  intros divs parts bs Ht Hlen Hnd Hlast Hint.
  unfold fewer_divisions. apply truthful_regroup with (parts := parts).
  - exact Ht.
  - rewrite fewer_parts_length. lia.
  - exact Hnd.
  - rewrite fewer_parts_length, <- last_nth_eq. exact Hlast.
  - intros j Hj. rewrite fewer_parts_length in Hj. apply Hint; lia.
  - intros j x Hj Hx. rewrite fewer_parts_length in Hj.
    rewrite fewer_parts_nth in Hx by lia. apply In_range_rows. exact Hx.
Qed.

(* EXACT precondition settled on: a chain whose interior boundaries are all < n
   (equivalently: no trailing empty output partition). *)
Theorem fewer_truthful : forall divs parts bs,
  truthful divs parts ->
  chain bs (length parts) ->
  interior_below bs (length parts) ->
  truthful (fewer_divisions divs bs) (fewer_parts parts bs).
Proof.
  intros divs parts bs Ht (Hlen & _ & Hlast & Hnd) Hint.
  apply fewer_truthful_gen; try assumption. lia.
Qed.

(* "no trailing empty output":  bs_{m-1} < bs_m  is enough for a chain *)
Lemma chain_penultimate_interior : forall bs n,
  chain bs n -> nth (length bs - 2) bs 0 < n -> interior_below bs n.
Proof.
  intros bs n (Hlen & _ & _ & Hnd) Hp j H1 H2.
  pose proof (nondec_le bs j (length bs - 2) Hnd). lia.
Qed.

Corollary fewer_truthful_no_trailing_empty : forall divs parts bs,
  truthful divs parts ->
  chain bs (length parts) ->
  nth (length bs - 2) bs 0 < length parts ->
  truthful (fewer_divisions divs bs) (fewer_parts parts bs).
Proof.
  intros. apply fewer_truthful; try assumption.
  apply chain_penultimate_interior; assumption.
Qed.

(* strictly increasing boundaries (what the real code produces when n_out < n_in) *)
Corollary fewer_truthful_strict : forall divs parts bs,
  truthful divs parts ->
  chain bs (length parts) ->
  sinc bs ->
  truthful (fewer_divisions divs bs) (fewer_parts parts bs).
Proof.
  intros divs parts bs Ht Hc Hs. apply fewer_truthful_no_trailing_empty; try assumption.
  destruct Hc as (Hlen & _ & Hlast & _). rewrite last_nth_eq in Hlast.
  specialize (Hs (length bs - 2)).
  replace (S (length bs - 2)) with (length bs - 1) in Hs by lia.
  rewrite <- Hlast. apply Hs. lia.
Qed.

(* the weaker precondition (merely non-decreasing chain) FAILS: trailing empty output *)
Theorem fewer_trailing_empty_refuted : exists divs parts bs,
  truthful divs parts /\ chain bs (length parts) /\
  ~ truthful (fewer_divisions divs bs) (fewer_parts parts bs).
Proof.
  exists [0; 10; 20]%Z, [[5]; [20]]%Z, [0; 2; 2].
  split; [apply truthfulb_spec; vm_compute; reflexivity|].
  split; [apply chainb_spec; reflexivity|].
  apply truthfulb_false. vm_compute. reflexivity.
Qed.

Example fewer_example :
  fewer_divisions [0; 10; 20; 30; 40]%Z [0; 1; 1; 4] = [0; 10; 10; 40]%Z /\
  fewer_parts [[1]; [12]; [25]; [30; 40]]%Z [0; 1; 1; 4] = [[1]; []; [12; 25; 30; 40]]%Z /\
  chainb [0; 1; 1; 4] 4 = true /\ interior_belowb [0; 1; 1; 4] 4 = true /\
  truthfulb [0; 10; 20; 30; 40]%Z [[1]; [12]; [25]; [30; 40]]%Z = true /\
  truthfulb [0; 10; 10; 40]%Z [[1]; []; [12; 25; 30; 40]]%Z = true /\
  (* the refuting instance *)
  fewer_divisions [0; 10; 20]%Z [0; 2; 2] = [0; 20; 20]%Z /\
  fewer_parts [[5]; [20]]%Z [0; 2; 2] = [[5; 20]; []]%Z /\
  interior_belowb [0; 2; 2] 2 = false /\
  truthfulb [0; 20; 20]%Z [[5; 20]; []]%Z = false.
Proof. vm_compute. repeat split; reflexivity. Qed.

(* ================================================================== *)
(* 5. Head / Tail                                                       *)
(* ================================================================== *)

Theorem head_truthful : forall divs parts k nrows,
  truthful divs parts -> k <= length parts ->
  truthful (head_divisions divs k) (head_parts parts k nrows).
Proof.
  intros divs parts k nrows Ht Hk.
  change (head_divisions divs k) with (map (fun c => nth c divs 0%Z) [0; k]).
  apply truthful_regroup with (parts := parts).
  - exact Ht.
  - reflexivity.
  - intros j Hj. simpl in Hj. assert (j = 0) by lia. subst j. simpl. lia.
  - simpl. exact Hk.
  - intros j Hj. simpl in Hj. lia.
  - intros j x Hj Hx. simpl in Hj. assert (j = 0) by lia. subst j.
    simpl in Hx. apply In_firstn_weak in Hx. apply in_concat in Hx.
    destruct Hx as (l & Hl & Hx).
    destruct (In_firstn_idx parts k l [] Hl) as (i & Hi & _ & E).
    exists i. simpl. split; [lia|]. rewrite E. exact Hx.
Qed.

Theorem bhead_truthful : forall divs parts k nrows,
  truthful divs parts -> k <= length parts ->
  truthful (bhead_divisions divs k) (bhead_parts parts k nrows).
Proof.
  intros divs parts k nrows (Hlen & Hs & Hrows) Hk.
  unfold bhead_divisions, bhead_parts.
  assert (Hlp : length (map (firstn nrows) (firstn k parts)) = k)
    by (rewrite map_length, firstn_length; lia).
  split; [rewrite Hlp, firstn_length; lia|]. split.
  - intros i Hi. rewrite firstn_length in Hi.
    rewrite !nth_firstn_lt by lia. apply Hs. lia.
  - intros i x Hi Hx. rewrite Hlp in *.
    rewrite (nth_map_lt (firstn nrows) (firstn k parts) i [] []) in Hx
      by (rewrite firstn_length; lia).
    apply In_firstn_weak in Hx. rewrite nth_firstn_lt in Hx by exact Hi.
    assert (Hi' : i < length parts) by lia.
    destruct (Hrows i x Hi' Hx) as (Hlo & Hhi).
    unfold row_ok. rewrite !nth_firstn_lt by lia.
    split; [exact Hlo|]. destruct Hhi as [H|[E H]]; [left; exact H|].
    right. split; [lia|exact H].
Qed.

Theorem tail_truthful : forall divs parts nrows,
  truthful divs parts -> parts <> [] ->
  truthful (tail_divisions divs) (tail_parts parts nrows).
Proof.
  intros divs parts nrows Ht Hne.
  assert (Hn : 1 <= length parts) by (destruct parts; [congruence|simpl; lia]).
  pose proof Ht as (Hlen & _ & _).
  unfold tail_divisions. rewrite Hlen.
  replace (length parts + 1 - 2) with (length parts - 1) by lia.
  replace (length parts + 1 - 1) with (length parts) by lia.
  change [nth (length parts - 1) divs 0%Z; nth (length parts) divs 0%Z]
    with (map (fun c => nth c divs 0%Z) [length parts - 1; length parts]).
  apply truthful_regroup with (parts := parts).
  - exact Ht.
  - reflexivity.
  - intros j Hj. simpl in Hj. assert (j = 0) by lia. subst j. simpl. lia.
  - simpl. lia.
  - intros j Hj. simpl in Hj. lia.
  - intros j x Hj Hx. simpl in Hj. assert (j = 0) by lia. subst j.
    unfold tail_parts in Hx. simpl in Hx. apply In_skipn_weak in Hx.
    rewrite last_nth_eq in Hx.
    exists (length parts - 1). simpl. split; [lia|exact Hx].
Qed.

Example head_tail_example :
  let divs := [0; 10; 20; 30]%Z in let parts := [[1; 2]; [10; 15]; [22; 30]]%Z in
  truthfulb divs parts = true /\
  head_divisions divs 2 = [0; 20]%Z /\ head_parts parts 2 3 = [[1; 2; 10]]%Z /\
  truthfulb (head_divisions divs 2) (head_parts parts 2 3) = true /\
  bhead_divisions divs 2 = [0; 10; 20]%Z /\ bhead_parts parts 2 1 = [[1]; [10]]%Z /\
  truthfulb (bhead_divisions divs 2) (bhead_parts parts 2 1) = true /\
  tail_divisions divs = [20; 30]%Z /\ tail_parts parts 1 = [[30]]%Z /\
  truthfulb (tail_divisions divs) (tail_parts parts 1) = true.
Proof. vm_compute. repeat split; reflexivity. Qed.

(* ================================================================== *)
(* 6. Concat axis = 0                                                   *)
(* ================================================================== *)

Lemma concat2_core : forall A pa B pb,
  truthful A pa -> truthful B pb -> (last A 0 < hd 0 B)%Z ->
  truthful (removelast A ++ B) (pa ++ pb).
Proof.
  intros A pa B pb (HlA & HsA & HrA) (HlB & HsB & HrB) Hsep.
  rewrite last_nth_eq, hd_nth0, HlA in Hsep.
  replace (length pa + 1 - 1) with (length pa) in Hsep by lia.
  assert (Hrl : length (removelast A) = length pa).
  { rewrite removelast_firstn_len, firstn_length. lia. }
  assert (Rlo : forall i, i < length pa -> nth i (removelast A ++ B) 0%Z = nth i A 0%Z).
  { intros i Hi. rewrite app_nth1 by lia. rewrite removelast_firstn_len.
    apply nth_firstn_lt. lia. }
  assert (Rhi : forall i, length pa <= i -> nth i (removelast A ++ B) 0%Z = nth (i - length pa) B 0%Z).
  { intros i Hi. rewrite app_nth2 by lia. rewrite Hrl. reflexivity. }
  split; [rewrite !app_length, Hrl; lia|]. split.
  - intros i Hi. rewrite app_length, Hrl in Hi.
    destruct (lt_dec (S i) (length pa)) as [H1|H1].
    + rewrite !Rlo by lia. apply HsA. lia.
    + destruct (Nat.eq_dec (S i) (length pa)) as [H2|H2].
      * rewrite Rlo by lia. rewrite Rhi by lia.
        replace (S i - length pa) with 0 by lia.
        assert (H3 : (nth i A 0 <= nth (S i) A 0)%Z) by (apply HsA; lia).
        rewrite H2 in H3. lia.
      * rewrite !Rhi by lia. replace (S i - length pa) with (S (i - length pa)) by lia.
        apply HsB. lia.
  - intros i x Hi Hx. rewrite app_length in *. unfold row_ok.
    destruct (lt_dec i (length pa)) as [H1|H1].
    + rewrite app_nth1 in Hx by exact H1.
      destruct (HrA i x H1 Hx) as (Hlo & Hhi).
      rewrite Rlo by exact H1. split; [exact Hlo|].
      left. destruct (Nat.eq_dec (S i) (length pa)) as [H2|H2].
      * rewrite Rhi by lia. replace (S i - length pa) with 0 by lia.
        rewrite H2 in Hhi. destruct Hhi as [H|[_ H]]; lia.
      * rewrite Rlo by lia. destruct Hhi as [H|[E _]]; [exact H|lia].
    + rewrite app_nth2 in Hx by lia.
      assert (H2 : i - length pa < length pb) by lia.
      destruct (HrB _ x H2 Hx) as (Hlo & Hhi).
      rewrite !Rhi by lia. replace (S i - length pa) with (S (i - length pa)) by lia.
      split; [exact Hlo|]. destruct Hhi as [H|[E H]]; [left; exact H|].
      right. split; [lia|exact H].
Qed.

Theorem concat_truthful : forall A pa B pb R,
  truthful A pa -> truthful B pb ->
  concat_divisions2 A B = Some R ->
  truthful R (pa ++ pb).
Proof.
  intros A pa B pb R HA HB H. unfold concat_divisions2 in H.
  destruct (last A 0 <? hd 0 B)%Z eqn:E; [|discriminate].
  injection H as <-. apply Z.ltb_lt in E. apply concat2_core; assumption.
Qed.

(* touching frames  A[-1] = B[0]  must NOT be joined this way *)
Theorem concat_touching_refuted : exists A pa B pb R,
  truthful A pa /\ truthful B pb /\ last A 0%Z = hd 0%Z B /\
  concat_divisions2_touching A B = Some R /\ ~ truthful R (pa ++ pb).
Proof.
  exists [0; 10]%Z, [[3; 10]]%Z, [10; 20]%Z, [[10; 15]]%Z, [0; 10; 20]%Z.
  split; [apply truthfulb_spec; vm_compute; reflexivity|].
  split; [apply truthfulb_spec; vm_compute; reflexivity|].
  split; [reflexivity|]. split; [reflexivity|].
  apply truthfulb_false. vm_compute. reflexivity.
Qed.

(* ---- n frames ---- *)

Lemma truthful_divs_nonempty : forall A pa, truthful A pa -> A <> [].
Proof. intros A pa (Hl & _) E. subst A. simpl in Hl. lia. Qed.

Lemma join_divisions_cons2 : forall A B r,
  join_divisions (A :: B :: r) = removelast A ++ join_divisions (B :: r).
Proof. reflexivity. Qed.

Lemma separatedb_cons2 : forall A B r,
  separatedb (A :: B :: r) = ((last A 0 <? hd 0 B)%Z && separatedb (B :: r)).
Proof. reflexivity. Qed.

(* the joined vector of a separated family starts at or above the first frame's first division *)
Lemma join_hd_ge : forall ds pss,
  Forall2 truthful ds pss -> ds <> [] -> separatedb ds = true ->
  (hd 0 (hd [] ds) <= hd 0 (join_divisions ds))%Z.
Proof.
  intros ds pss HF. induction HF as [|A pa ds pss HA HF IH]; intros Hne Hsep; [congruence|].
  destruct ds as [|B r]; [simpl; lia|].
  rewrite join_divisions_cons2. rewrite separatedb_cons2 in Hsep.
  apply andb_true_iff in Hsep. destruct Hsep as [H1 H2]. apply Z.ltb_lt in H1.
  cbn [hd].
  destruct A as [|a0 [|a1 A']].
  - exfalso. eapply truthful_divs_nonempty; eauto.
  - (* zero-partition frame [a0] *)
    cbn [removelast app]. cbn [last] in H1.
    assert (Hne' : B :: r <> []) by discriminate.
    specialize (IH Hne' H2). cbn [hd] in IH. cbn [hd]. lia.
  - cbn [removelast app hd]. destruct A'; simpl; lia.
Qed.

Theorem concat_truthful_n : forall ds pss R,
  Forall2 truthful ds pss ->
  concat_divisions ds = Some R ->
  truthful R (concat_parts pss).
Proof.
  intros ds pss R HF. revert R.
  induction HF as [|A pa ds pss HA HF IH]; intros R H; [discriminate|].
  unfold concat_divisions in H.
  destruct (separatedb (A :: ds)) eqn:Hsep; [|discriminate]. injection H as <-.
  unfold concat_parts. cbn [concat].
  destruct ds as [|B r].
  - inversion HF; subst. simpl. rewrite app_nil_r. exact HA.
  - change (truthful (removelast A ++ join_divisions (B :: r)) (pa ++ concat pss)).
    change (((last A 0 <? hd 0 B)%Z && separatedb (B :: r)) = true) in Hsep.
    apply andb_true_iff in Hsep. destruct Hsep as [H1 H2]. apply Z.ltb_lt in H1.
    apply concat2_core.
    + exact HA.
    + apply (IH (join_divisions (B :: r))). unfold concat_divisions. rewrite H2. reflexivity.
    + assert (Hne : B :: r <> []) by discriminate.
      pose proof (join_hd_ge _ _ HF Hne H2) as Hge. cbn [hd] in Hge. lia.
Qed.

Example concat_example :
  concat_divisions2 [0; 10; 20]%Z [21; 30]%Z = Some [0; 10; 21; 30]%Z /\
  truthfulb [0; 10; 20]%Z [[0; 5]; [10; 20]]%Z = true /\
  truthfulb [21; 30]%Z [[21; 30]]%Z = true /\
  truthfulb [0; 10; 21; 30]%Z ([[0; 5]; [10; 20]] ++ [[21; 30]])%Z = true /\
  concat_divisions2 [0; 10; 20]%Z [20; 30]%Z = None /\
  concat_divisions2_touching [0; 10; 20]%Z [20; 30]%Z = Some [0; 10; 20; 30]%Z /\
  truthfulb [0; 10; 20; 30]%Z ([[0; 5]; [10; 20]] ++ [[20; 30]])%Z = false /\
  concat_divisions [[0; 10; 20]; [21; 30]; [31; 40; 50]]%Z = Some [0; 10; 21; 31; 40; 50]%Z /\
  truthfulb [0; 10; 21; 31; 40; 50]%Z
     (concat_parts [[[0; 5]; [10; 20]]; [[21; 30]]; [[31]; [40; 50]]])%Z = true /\
  concat_divisions [[0; 10; 20]; [20; 30]]%Z = None.
Proof. vm_compute. repeat split; reflexivity. Qed.

(* ================================================================== *)
(* 7. The RepartitionToFewer precondition is EXACT (necessity)          *)
(* ================================================================== *)

(* canonical data for n partitions: divisions 0..n, one row (index value n) in the last partition *)
Definition wit_divs (n : nat) : list Z := map Z.of_nat (seq 0 (n + 1)).
Definition wit_parts (n : nat) : list (list Z) :=
  map (fun i => if S i =? n then [Z.of_nat n] else []) (seq 0 n).

Lemma wit_divs_nth : forall n i, i <= n -> nth i (wit_divs n) 0%Z = Z.of_nat i.
Proof.
  intros n i Hi. unfold wit_divs.
  rewrite (nth_map_lt Z.of_nat (seq 0 (n + 1)) i 0 0%Z) by (rewrite seq_length; lia).
  rewrite seq_nth by lia. reflexivity.
Qed.

Lemma wit_parts_nth : forall n i, i < n ->
  nth i (wit_parts n) [] = if S i =? n then [Z.of_nat n] else [].
Proof.
  intros n i Hi. unfold wit_parts.
  rewrite (nth_map_lt (fun i => if S i =? n then [Z.of_nat n] else []) (seq 0 n) i 0 [])
    by (rewrite seq_length; lia).
  rewrite seq_nth by lia. reflexivity.
Qed.

Lemma wit_parts_length : forall n, length (wit_parts n) = n.
Proof. intros. unfold wit_parts. rewrite map_length, seq_length. reflexivity. Qed.

Lemma wit_truthful : forall n, truthful (wit_divs n) (wit_parts n).
Proof.
  intros n. split; [|split].
  - rewrite wit_parts_length. unfold wit_divs. rewrite map_length, seq_length. reflexivity.
  - intros i Hi. unfold wit_divs in Hi. rewrite map_length, seq_length in Hi.
    rewrite !wit_divs_nth by lia. lia.
  - intros i x Hi Hx. rewrite wit_parts_length in *. rewrite wit_parts_nth in Hx by exact Hi.
    destruct (S i =? n) eqn:E; [|inversion Hx]. apply Nat.eqb_eq in E.
    destruct Hx as [<-|[]]. unfold row_ok. rewrite !wit_divs_nth by lia.
    split; [lia|]. right. split; [exact E|lia].
Qed.

Lemma first_reach : forall (l : list nat) n j,
  nth 0 l 0 < n -> n <= nth j l 0 ->
  exists j0, j0 < j /\ nth j0 l 0 < n /\ n <= nth (S j0) l 0.
Proof.
  intros l n. induction j as [|j IH]; intros H0 Hj; [lia|].
  destruct (le_lt_dec n (nth j l 0)) as [H|H].
  - destruct (IH H0 H) as (j0 & A & B & C). exists j0. repeat split; try assumption. lia.
  - exists j. repeat split; try assumption. lia.
Qed.

(* If some interior boundary of a chain reaches n (a trailing empty output partition),
   the canonical truthful frame is mapped to a NON-truthful one.  Together with
   fewer_truthful:  for chains with n >= 1,  interior_below  is necessary and sufficient. *)
Theorem fewer_interior_necessary : forall bs n j,
  chain bs n -> 1 <= n ->
  1 <= j -> S j < length bs -> n <= nth j bs 0 ->
  ~ truthful (fewer_divisions (wit_divs n) bs) (fewer_parts (wit_parts n) bs).
Proof.
  intros bs n j (Hlen & Hhd & Hlast & Hnd) Hn Hj1 Hj2 Hreach (_ & _ & Hrows).
  rewrite hd_nth0 in Hhd. rewrite last_nth_eq in Hlast.
  assert (H0 : nth 0 bs 0 < n) by lia.
  destruct (first_reach bs n j H0 Hreach) as (j0 & Hj0 & Hlo & Hhi).
  assert (Hle : nth (S j0) bs 0 <= n).
  { rewrite <- Hlast. apply nondec_le; [exact Hnd|lia|lia]. }
  assert (Heq : nth (S j0) bs 0 = n) by lia.
  rewrite fewer_parts_length in Hrows.
  assert (Hj0' : j0 < length bs - 1) by lia.
  specialize (Hrows j0 (Z.of_nat n) Hj0').
  rewrite fewer_parts_nth in Hrows by lia.
  assert (Hin : In (Z.of_nat n) (range_rows (wit_parts n) (nth j0 bs 0) (nth (S j0) bs 0))).
  { unfold range_rows. apply in_concat. exists [Z.of_nat n]. split; [|left; reflexivity].
    apply in_map_iff. exists (n - 1). split.
    - rewrite wit_parts_nth by lia. replace (S (n - 1)) with n by lia.
      rewrite Nat.eqb_refl. reflexivity.
    - apply in_seq. lia. }
  destruct (Hrows Hin) as (_ & Hup). unfold fewer_divisions in Hup.
  rewrite nth_cuts in Hup by lia. rewrite Heq, wit_divs_nth in Hup by lia.
  destruct Hup as [H|[H _]]; lia.
Qed.

Example fewer_interior_necessary_example :
  truthfulb (fewer_divisions (wit_divs 3) [0; 1; 3; 3]) (fewer_parts (wit_parts 3) [0; 1; 3; 3]) = false /\
  truthfulb (fewer_divisions (wit_divs 3) [0; 1; 1; 3]) (fewer_parts (wit_parts 3) [0; 1; 1; 3]) = true.
Proof. vm_compute. split; reflexivity. Qed.

(* ================================================================== *)
(* Assumptions                                                          *)
(* ================================================================== *)
Print Assumptions truthfulb_spec.
Print Assumptions truthful_regroup.
Print Assumptions truthful_groups.
Print Assumptions partitions_truthful.
Print Assumptions partitions_divisions_known_iff.
Print Assumptions partitions_unsorted_refuted.
Print Assumptions partitions_repeat_refuted.
Print Assumptions partitions_example.
Print Assumptions fusion_buckets_concat.
Print Assumptions fused_truthful.
Print Assumptions fused_divisions_old_refuted.
Print Assumptions fused_divisions_old_refuted_sorted.
Print Assumptions fused_divisions_noplus1_refuted.
Print Assumptions fused_example.
Print Assumptions fewer_truthful_gen.
Print Assumptions fewer_truthful.
Print Assumptions fewer_truthful_no_trailing_empty.
Print Assumptions fewer_truthful_strict.
Print Assumptions fewer_trailing_empty_refuted.
Print Assumptions fewer_interior_necessary.
Print Assumptions fewer_example.
Print Assumptions head_truthful.
Print Assumptions bhead_truthful.
Print Assumptions tail_truthful.
Print Assumptions head_tail_example.
Print Assumptions concat_truthful.
Print Assumptions concat_touching_refuted.
Print Assumptions concat_truthful_n.
Print Assumptions concat_example.
Print Assumptions chainb_spec.
Print Assumptions interior_belowb_spec.
Print Assumptions strictly_increasingb_spec.
Print Assumptions nondecreasingb_spec.
