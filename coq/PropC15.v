(* PropC15.v -- property C15: planner caches are transparent.  Statements only (LRU.v models the class LRU of
   _util.py op for op -- compared exhaustively with the real class on every run -- and the cached-call pattern
   of _get_divisions / _get_mem_usages / _divisions_and_locations). *)
From Coq Require Import List.
From DX Require Import Base LRU.

(* every call through the cache returns f key, whatever was computed, evicted or overwritten before, for every
   capacity >= 1; the cache never holds two values for one key nor more than maxsize entries *)
Theorem C15_lru_transparent : forall (V : Type) (f : nat -> option V) ks s,
  Inv V f s -> fst (session V f s ks) = map f ks /\ Inv V f (snd (session V f s ks)).
Proof. intros V f ks s. exact (lru_transparent V f ks s). Qed.
Print Assumptions C15_lru_transparent.

(* a failed computation leaves nothing behind *)
Theorem C15_fail_atomic : forall (V : Type) (f : nat -> option V) s k, Inv V f s -> f k = None -> cached_call V f s k = (None, s).
Proof. exact fail_atomic. Qed.
Print Assumptions C15_fail_atomic.

Theorem C15_empty_cache_ok : forall (V : Type) (f : nat -> option V) m, 1 <= m -> Inv V f {| items := nil; maxsize := m |}.
Proof. exact inv_empty. Qed.
Print Assumptions C15_empty_cache_ok.

(* T-GEN: no _divisions/_meta/_layer/_task/_lower/npartitions method of the current source reads a process-global mutable
   container without the recompute fallback of the cached-call pattern *)
From DX Require Import GeneratedClassTable ClassTableChecks ClassTableState.
Theorem C15_state_free_table : state_free_b = true.
Proof. exact state_free_table. Qed.
Print Assumptions C15_state_free_table.

(* T-GEN: the process-global mutable state found in the current source is exactly the reviewed one (a new cache / memo table /
   registry, or a reviewed one read from a new function, breaks this obligation until it has been reviewed) *)
Theorem C15_global_state_reviewed :
  subset_b mutable_globals mutable_globals_reviewed = true /\ subset_b function_global_reads function_global_reads_reviewed = true.
Proof. exact (conj global_state_reviewed function_global_reads_are_reviewed). Qed.
Print Assumptions C15_global_state_reviewed.
