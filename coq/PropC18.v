(* PropC18.v -- property C18: parquet reads with pushed-down work equal reading everything into memory.
   Statements only (DNF.v mirrors _DNF.extract_pq_filters / normalize / combine and is compared with the real
   class on every run; Divisions.v covers the multi-file fused read). *)
From DX Require Import Base DNF DNFProofs Divisions DivisionsProofs.

(* row filters handed to the reader (the code no longer hands `!=` to it: defect D7, fixed): for EVERY pushed
   predicate the reader keeps exactly the rows pandas keeps, including rows with missing values *)
Theorem C18_filter_pushdown_sound : forall t d r,
  extract t = Some d -> pandas_keep t r = Some (arrow_keep d r).
Proof. exact dnf_sound. Qed.
Print Assumptions C18_filter_pushdown_sound.

(* why `!=` must not be pushed: with the old extraction (NE included) the statement is false -- witness = defect D7 *)
Theorem C18_pushing_ne_refuted : exists t d r,
  extract_with_ne t = Some d /\ pandas_keep t r = Some true /\ arrow_keep d r = false.
Proof. exact dnf_with_ne_refuted. Qed.
Print Assumptions C18_pushing_ne_refuted.
(* the fix only withdraws filters, it never changes one that is still pushed *)
Theorem C18_fix_refines : forall t d, extract t = Some d -> extract_with_ne t = Some d.
Proof. exact extract_refines_with_ne. Qed.
Print Assumptions C18_fix_refines.

(* user-supplied filters combined with pushed ones: conjunction *)
Theorem C18_combine_sound : forall o1 o2 r, arrow_keep_opt (combine o1 o2) r = arrow_keep_opt o1 r && arrow_keep_opt o2 r.
Proof. exact combine_sound. Qed.
Print Assumptions C18_combine_sound.

(* multi-file fused reads: buckets partition the selected files, and the divisions reported for the fused
   partitions are truthful (with the last entry taken from the divisions, not a partition number) *)
Theorem C18_fused_read_truthful : forall divs parts parts_sel step,
  truthful divs parts -> strictly_increasingb parts_sel = true -> (forall p, In p parts_sel -> p < length parts) ->
  1 <= step -> parts_sel <> [] ->
  truthful (fused_divisions divs (fusion_buckets parts_sel step)) (fused_parts parts (fusion_buckets parts_sel step)).
Proof. exact fused_truthful. Qed.
Print Assumptions C18_fused_read_truthful.

Theorem C18_fusion_buckets_cover : forall (l : list nat) step, 1 <= step -> concat (fusion_buckets l step) = l.
Proof. exact fusion_buckets_concat. Qed.
Print Assumptions C18_fusion_buckets_cover.

(* divisions from parquet statistics (calculate_divisions=True): files sorted by (min, max), accepted only when strictly
   separated; the unfixed acceptance test (defect D30) is refuted *)
From DX Require Import MinMax MinMaxProofs.
Theorem C18_statistics_divisions_truthful : forall l parts d p,
  stats_ok l parts -> wf_stats l -> stats_divisions l = Some (d, p) ->
  truthful d (reindex parts p []) /\ Permutation.Permutation p (seq 0 (length parts)).
Proof. exact stats_truthful. Qed.
Print Assumptions C18_statistics_divisions_truthful.

Theorem C18_statistics_old_refuted : exists l parts,
  stats_ok l parts /\ wf_stats l /\
  ~ truthful (fst (stats_divisions_old l)) (reindex parts (snd (stats_divisions_old l)) []).
Proof. exact stats_old_refuted. Qed.
Print Assumptions C18_statistics_old_refuted.
