(* PropC14.v -- property C14: blockwise fusion only changes task granularity.  Statements only. *)
From DX Require Import Base Fusion FusionProofs.

(* For EVERY fused group that satisfies valid_group (what the group-discovery pass must establish; every
   real group met by the harness is certified by the extracted valid_group), every nesting depth, any DAG
   shape inside the group, shared and broadcast (single-partition) members and dependencies, and EVERY
   partition index: the sub-graph built by Fused._task, executed with dask.core.get semantics, computes
   exactly the partition that the unfused root expression computes. *)
Theorem C14_fused_task_eq : forall (V : Type) (fn_sem : nat -> list V -> V) (lit : nat -> V) (ext : nat -> nat -> V)
    self_name group deps index,
  valid_group group deps = true -> self_fresh self_name group = true ->
  index < npart_of_root group ->
  exists v,
    eval_member fn_sem lit ext group (root_name group) index (eval_fuel group) = Some v /\
    exec_fused fn_sem lit (fused_task self_name group deps index)
               (dep_values ext (snd (fused_task self_name group deps index))) (exec_fuel group) = Some v.
Proof. intros V fn_sem lit ext. exact (@fused_task_eq V fn_sem lit ext). Qed.
Print Assumptions C14_fused_task_eq.

(* the statement is sensitive to the order in which Fused._task binds placeholders: binding them before
   the members (so that a nested group's own numbering survives) makes it FALSE *)
Theorem C14_binding_order_matters :
  ~ (forall (V : Type) (fn_sem : nat -> list V -> V) (lit : nat -> V) (ext : nat -> nat -> V)
            self_name group deps index,
       valid_group group deps = true -> self_fresh self_name group = true ->
       index < npart_of_root group ->
       exec_fused fn_sem lit (fused_task_bad self_name group deps index)
                  (dep_values ext (snd (fused_task_bad self_name group deps index))) (exec_fuel group)
       = eval_member fn_sem lit ext group (root_name group) index (eval_fuel group)).
Proof. exact fused_task_bad_refuted. Qed.
Print Assumptions C14_binding_order_matters.
