(* Extract.v -- extraction of the executable model to OCaml (ExtrOcamlBasic only:
   bool, list, option, prod, unit, sumbool map to OCaml's; nat, Z, positive, string stay
   the extracted inductives; no Extract Constant / Extract Inductive of our own). *)
From Coq Require Import Extraction ExtrOcamlBasic.
From DX Require Import Base TreeReduce Repart RepartProofs Shuffle LRU Pred Graph Plan Fusion PlanMeasure DNF Divisions MinMax Loc LocList Align Select SetIndex.
Extraction "model.ml" Z.add Z.compare tree_layer part_all
  repart_plan clean_boundaries fewer_ranges more_nsplits more_layer valid_divs plan_ok
  task_or_simple simple_layer task_layer digit insert_digit
  rewrite_filters contains getitem setitem wf_check
  rule_name rule_ok den schema
  fused_task valid_group self_fresh rule_ok_strict mu mu_ltb
  extract arrow_keep pandas_keep partitions_divisions fused_divisions fusion_buckets truthfulb
  fewer_divisions head_divisions bhead_divisions tail_divisions concat_divisions
  stats_divisions presorted_divisions
  ls_start ls_stop loc_divisions loc_parts ll_divisions ll_parts
  align_divisions align_single
  head_lowered tail_lowered nfirst_tree nfirst_spec select sp_part sp_parts sp_part_desc sp_parts_desc.
