(* Names.v -- model of Expr._name:  name = head ++ "-" ++ token(operands), where the token is a
   fixed-width digest (dask.base.tokenize: 32 hex characters).  The digest being collision-free on
   normalised operands is an ASSUMPTION about dask's tokenize (trusted base); given it, two expressions
   share a name iff they have the same head and the same operands. *)
From Coq Require Import String List Arith Lia.
Open Scope string_scope.

Lemma length_append : forall a b, String.length (a ++ b) = String.length a + String.length b.
Proof. induction a as [|c a IH]; intros b; simpl; [reflexivity|rewrite IH; reflexivity]. Qed.

Lemma append_inj_same_len : forall a1 a2 b1 b2,
  String.length a1 = String.length a2 -> a1 ++ b1 = a2 ++ b2 -> a1 = a2 /\ b1 = b2.
Proof.
  induction a1 as [|c a1 IH]; intros a2 b1 b2 Hl H; destruct a2 as [|d a2]; simpl in *; try discriminate.
  - split; [reflexivity|exact H].
  - inversion H; subst. destruct (IH a2 b1 b2) as [E1 E2]; [lia|assumption|]. subst. split; reflexivity.
Qed.

Section Names.
  Variable Operands : Type.
  Variable tok : Operands -> string.
  Hypothesis tok_inj : forall a b, tok a = tok b -> a = b.          (* tokenize is collision-free (assumed) *)
  Hypothesis tok_len : forall a, String.length (tok a) = 32.          (* fixed-width hex digest *)

  Definition name (head : string) (ops : Operands) : string := head ++ "-" ++ tok ops.

  Theorem name_collision_iff : forall h1 h2 o1 o2, name h1 o1 = name h2 o2 <-> (h1 = h2 /\ o1 = o2).
  Proof.
    intros h1 h2 o1 o2. split.
    - intro H. unfold name in H.
      assert (Hl : String.length h1 = String.length h2).
      { apply (f_equal String.length) in H. rewrite !length_append in H. simpl in H. rewrite !tok_len in H. lia. }
      destruct (append_inj_same_len h1 h2 _ _ Hl H) as [E1 E2]. split; [exact E1|].
      inversion E2 as [E3]. apply tok_inj. exact E3.
    - intros [-> ->]. reflexivity.
  Qed.

  (* distinct names give disjoint key sets when every key of a layer is (own name, index...) *)
  Theorem keys_disjoint : forall h1 h2 o1 o2 (i j : nat),
    (h1, o1) <> (h2, o2) -> (name h1 o1, i) <> (name h2 o2, j).
  Proof.
    intros h1 h2 o1 o2 i j Hne H. inversion H as [[Hn Hi]]. apply name_collision_iff in Hn. destruct Hn; subst. apply Hne. reflexivity.
  Qed.
End Names.
