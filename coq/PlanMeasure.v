(* PlanMeasure.v -- a termination certificate for the proved rewrite schemas of Plan.v:
   an executable measure [mu : expr -> nat * nat] that strictly decreases (lexicographically)
   along every accepted step that really changes the plan. *)
From DX Require Import Base Plan PlanProofs.

(* ------------------------------------------------------------------ *)
(** * The measure *)

(* number of static columns flowing out of a node; 1 for series / scalars (and ill-schemed terms) *)
Definition width (e : expr) : nat :=
  match schema e with
  | Some (KFrame cs) => length cs
  | Some (KRow cs) => length cs
  | _ => 1
  end.

Fixpoint size (e : expr) : nat :=
  match e with
  | Src _ _ | SrcS _ _ => 1
  | Proj e _ | ProjS e _ | BinL _ e _ | BinR _ _ e | Un _ e | Fillna e _ | Rename e _
  | RSum e | RCount e | RLen e => S (size e)
  | Filter a b | Bin _ a b | Assign a _ b => S (size a + size b)
  end.

(* M1: every NON-projection node costs 1 + the widths of the collections flowing INTO it
   (a source: 1 + the number of columns it reads; RLen needs no column at all: 1). *)
Fixpoint M1 (e : expr) : nat :=
  match e with
  | Src _ cs => 1 + length cs
  | SrcS _ _ => 2
  | Proj e _ | ProjS e _ => M1 e
  | BinL _ e _ | BinR _ _ e | Un _ e | Fillna e _ | Rename e _ | RSum e | RCount e =>
      1 + width e + M1 e
  | Filter a b | Bin _ a b | Assign a _ b => 1 + width a + width b + M1 a + M1 b
  | RLen e => 1 + M1 e
  end.

(* M2: every projection node costs the size of its subtree (= how far it still is from the sources) *)
Fixpoint M2 (e : expr) : nat :=
  match e with
  | Src _ _ | SrcS _ _ => 0
  | Proj e _ | ProjS e _ => 1 + size e + M2 e
  | BinL _ e _ | BinR _ _ e | Un _ e | Fillna e _ | Rename e _ | RSum e | RCount e | RLen e => M2 e
  | Filter a b | Bin _ a b | Assign a _ b => M2 a + M2 b
  end.

Definition mu (e : expr) : nat * nat := (M1 e, M2 e).

Definition mu_lt (a b : nat * nat) : Prop :=
  fst a < fst b \/ (fst a = fst b /\ snd a < snd b).
Definition mu_ltb (a b : nat * nat) : bool :=
  Nat.ltb (fst a) (fst b) || (Nat.eqb (fst a) (fst b) && Nat.ltb (snd a) (snd b)).

Lemma mu_ltb_spec : forall a b, mu_ltb a b = true <-> mu_lt a b.
Proof.
  intros [a1 a2] [b1 b2]. unfold mu_ltb, mu_lt. simpl.
  rewrite orb_true_iff, andb_true_iff, !Nat.ltb_lt, Nat.eqb_eq. tauto.
Qed.

Theorem mu_lt_wf : well_founded mu_lt.
Proof.
  intros [a b]. revert b. induction a as [a IHa] using lt_wf_ind.
  induction b as [b IHb] using lt_wf_ind.
  constructor. intros [a' b'] [H|[H1 H2]]; simpl in *.
  - apply IHa. exact H.
  - subst a'. apply IHb. exact H2.
Qed.

(* ------------------------------------------------------------------ *)
(** * Strict (really changing) steps *)

(* push schemas: the non-bare variant inserts a projection node, so it must narrow strictly;
   the two bare variants only move the projection down and always decrease *)
Definition push_strict (parent result : expr) : bool :=
  match pview parent with
  | Some (P, inner) =>
      match fview inner with
      | Some (F, x) =>
          match schema x with
          | Some (KFrame xs) =>
              (match inner_U (strip_p result) with
               | Some U => nodupb U && subsetb U xs && Nat.ltb (length U) (length xs)
                           && expr_eqb result (pbuild P (fbuild F (Proj x U)))
               | None => false
               end)
              ||
              (bare_allowed F &&
               match P with
               | PProj c => expr_eqb result (fbuild F (Proj x c))
               | PProjS c => expr_eqb result (fbuild F (ProjS x c))
               end)
          | _ => false
          end
      | None => false
      end
  | None => false
  end.

(* S6: the operands of the Bin node get strictly narrower in total *)
Definition s6_narrow (parent result : expr) : bool :=
  match pview parent, pview result with
  | Some (_, Bin _ a b), Some (_, Bin _ a' b') =>
      match schema a, schema b, side_U a a', side_U b b' with
      | Some (KFrame ca), Some (KFrame cb), Some sa, Some sb =>
          Nat.ltb (length (side_cols ca sa) + length (side_cols cb sb)) (length ca + length cb)
      | _, _, _, _ => false
      end
  | _, _ => false
  end.

(* S9: absorbing the projection removes a node; the variant that keeps the projection must make
   the source strictly narrower *)
Definition s9_narrow (parent result : expr) : bool :=
  match pview parent with
  | Some (P, Src id cs) =>
      (match P with
       | PProj c => expr_eqb result (Src id c)
       | PProjS c => expr_eqb result (SrcS id c)
       end)
      ||
      (match pview result with
       | Some (_, Src _ c') => Nat.ltb (length c') (length cs)
       | _ => false
       end)
  | _ => false
  end.

Definition strict_cond (p r : expr) : bool :=
  s1_ok p r || s2_ok p r || (negb (Nat.eqb (push_rule p r) 0) && push_strict p r)
  || (s6_ok p r && s6_narrow p r) || s7a_ok p r || (s9_ok p r && s9_narrow p r)
  || s10_ok p r || s13_ok p r.

Definition rule_ok_strict (p r : expr) : bool := rule_ok p r && strict_cond p r.

Lemma rule_ok_strict_ok : forall p r, rule_ok_strict p r = true -> rule_ok p r = true.
Proof. intros p r H. apply andb_true_iff in H. tauto. Qed.

(* ------------------------------------------------------------------ *)
(** * The decrease relation (strong enough to be closed under contexts) *)

Definition dec (a b : expr) : Prop :=
  M1 b < M1 a \/ (M1 b = M1 a /\ M2 b < M2 a /\ size b <= size a).
Definition decle (a b : expr) : Prop :=
  M1 b < M1 a \/ (M1 b = M1 a /\ M2 b <= M2 a /\ size b <= size a).

Lemma dec_mu_lt : forall a b, dec a b -> mu_lt (mu b) (mu a).
Proof. intros a b [H|[H1 [H2 _]]]; unfold mu_lt, mu; simpl; [left|right]; auto. Qed.

Lemma dec_trans : forall a b c, dec a b -> dec b c -> dec a c.
Proof. unfold dec. intros. lia. Qed.

(* ------------------------------------------------------------------ *)
(** * Helper facts *)

Lemma M1_pbuild : forall P e, M1 (pbuild P e) = M1 e.
Proof. intros [c|c] e; reflexivity. Qed.
Lemma M2_pbuild : forall P e, M2 (pbuild P e) = 1 + size e + M2 e.
Proof. intros [c|c] e; reflexivity. Qed.
Lemma size_pbuild : forall P e, size (pbuild P e) = S (size e).
Proof. intros [c|c] e; reflexivity. Qed.

Definition xM1 (F : fctx) : nat :=
  match F with
  | FFilter p => width p + M1 p
  | FAssign _ v => width v + M1 v
  | _ => 0
  end.
Definition xM2 (F : fctx) : nat :=
  match F with FFilter p => M2 p | FAssign _ v => M2 v | _ => 0 end.
Definition xsize (F : fctx) : nat :=
  match F with FFilter p => size p | FAssign _ v => size v | _ => 0 end.

Lemma M1_fbuild : forall F x, M1 (fbuild F x) = 1 + width x + M1 x + xM1 F.
Proof. intros [[]| | |] x; simpl; lia. Qed.
Lemma M2_fbuild : forall F x, M2 (fbuild F x) = M2 x + xM2 F.
Proof. intros [[]| | |] x; simpl; lia. Qed.
Lemma size_fbuild : forall F x, size (fbuild F x) = 1 + size x + xsize F.
Proof. intros [[]| | |] x; simpl; lia. Qed.

Lemma width_frame : forall x xs, schema x = Some (KFrame xs) -> width x = length xs.
Proof. intros x xs H. unfold width. rewrite H. reflexivity. Qed.

Lemma width_proj : forall x xs U, schema x = Some (KFrame xs) -> nodupb U = true ->
  subsetb U xs = true -> width (Proj x U) = length U.
Proof.
  intros x xs U Hs Hn Hsub. unfold width. cbn [schema]. rewrite Hs. simpl. rewrite Hn, Hsub.
  reflexivity.
Qed.

Lemma width_projs : forall x c, width (ProjS x c) = 1.
Proof.
  intros x c. unfold width. cbn [schema]. destruct (schema x) as [[xs| | |]|]; try reflexivity.
  simpl. destruct (memb c xs); reflexivity.
Qed.

Lemma sub_length : forall c xs, nodupb c = true -> subsetb c xs = true -> length c <= length xs.
Proof.
  intros c xs Hn Hs. apply NoDup_incl_length.
  - apply nodupb_NoDup. exact Hn.
  - intros a Ha. rewrite subsetb_incl in Hs. auto.
Qed.

Lemma bare_schema : forall F x xs k, bare_allowed F = true -> schema x = Some (KFrame xs) ->
  schema (fbuild F x) = Some k -> k = KFrame xs.
Proof.
  intros F x xs k Hb Hx H. rewrite schema_fbuild, Hx in H. cbn [bind] in H.
  destruct F as [op|p|a v|m]; simpl in Hb; try discriminate; unfold k_F in H.
  - inversion H. reflexivity.
  - destruct (schema p) as [[| | |]|]; simpl in H; try discriminate. inversion H. reflexivity.
Qed.

(* ------------------------------------------------------------------ *)
(** * Every strict step decreases *)

Lemma s1_dec : forall p r, s1_ok p r = true -> dec p r.
Proof.
  intros p r H. unfold s1_ok in H.
  destruct (pview p) as [[P inner]|] eqn:Ev; [|discriminate].
  destruct inner; try discriminate. apply expr_eqb_eq in H. subst r.
  apply pview_inv in Ev. subst p. right.
  rewrite !M1_pbuild, !M2_pbuild, !size_pbuild. simpl. lia.
Qed.

Lemma s2_dec : forall p r, s2_ok p r = true -> dec p r.
Proof.
  intros p r H. unfold s2_ok in H. destruct p; try discriminate.
  destruct (schema p) as [[xs| | |]|]; try discriminate.
  apply andb_true_iff in H. destruct H as [_ H]. apply expr_eqb_eq in H. subst r.
  right. simpl. lia.
Qed.

Lemma push_dec : forall p r, push_strict p r = true -> schema p <> None -> dec p r.
Proof.
  intros p r H Hp. unfold push_strict in H.
  destruct (pview p) as [[P inner]|] eqn:Ev; [|discriminate].
  destruct (fview inner) as [[F x]|] eqn:Ef; [|discriminate].
  destruct (schema x) as [[xs| | |]|] eqn:Es; try discriminate.
  apply pview_inv in Ev. apply fview_inv in Ef. subst p inner.
  apply orb_true_iff in H. destruct H as [H|H].
  - destruct (inner_U (strip_p r)) as [U|]; [|discriminate].
    apply andb_true_iff in H. destruct H as [H Hr]. apply andb_true_iff in H. destruct H as [H Hlt].
    apply andb_true_iff in H. destruct H as [Hn Hs]. apply expr_eqb_eq in Hr. subst r.
    apply Nat.ltb_lt in Hlt. left.
    rewrite !M1_pbuild, !M1_fbuild. cbn [M1].
    rewrite (width_proj _ _ _ Es Hn Hs), (width_frame _ _ Es). lia.
  - apply andb_true_iff in H. destruct H as [Hb H].
    destruct (schema (fbuild F x)) as [k|] eqn:EF.
    2:{ exfalso. apply Hp. rewrite schema_pbuild, EF. reflexivity. }
    pose proof (bare_schema _ _ _ _ Hb Es EF) as ->.
    destruct P as [c|c]; apply expr_eqb_eq in H; subst r.
    + assert (Hc : nodupb c = true /\ subsetb c xs = true).
      { cbn [pbuild schema] in Hp. rewrite EF in Hp. simpl in Hp.
        destruct (nodupb c); [|exfalso; apply Hp; reflexivity].
        destruct (subsetb c xs); [auto|exfalso; apply Hp; reflexivity]. }
      destruct Hc as [Hn Hs]. pose proof (sub_length _ _ Hn Hs) as Hle.
      unfold dec. cbn [pbuild M1 M2 size]. rewrite !M1_fbuild, !M2_fbuild, !size_fbuild.
      cbn [M1 M2 size]. rewrite (width_proj _ _ _ Es Hn Hs), (width_frame _ _ Es). lia.
    + assert (Hle : 1 <= length xs).
      { cbn [pbuild schema] in Hp. rewrite EF in Hp. simpl in Hp.
        destruct (memb c xs) eqn:E; [|exfalso; apply Hp; reflexivity].
        apply memb_In in E. destruct xs; [inversion E|simpl; lia]. }
      unfold dec. cbn [pbuild M1 M2 size]. rewrite !M1_fbuild, !M2_fbuild, !size_fbuild.
      cbn [M1 M2 size]. rewrite width_projs, (width_frame _ _ Es). lia.
Qed.

Lemma side_width : forall a a' ca sa c, side_U a a' = Some sa -> side_chk ca c sa = true ->
  schema a = Some (KFrame ca) ->
  width a' = length (side_cols ca sa) /\ M1 a' = M1 a.
Proof.
  intros a a' ca sa c Hs Hc Hk.
  pose proof (side_ksem _ _ _ _ _ Hs Hc Hk) as Hk'.
  split; [apply width_frame; exact Hk'|].
  apply side_U_inv in Hs. destruct Hs as [[-> ->]|(U & -> & ->)]; reflexivity.
Qed.

Lemma s6_dec : forall p r, s6_ok p r = true -> s6_narrow p r = true -> dec p r.
Proof.
  intros p r H Hn. unfold s6_ok in H. unfold s6_narrow in Hn.
  destruct (pview p) as [[P inner]|] eqn:Ev; [|discriminate].
  destruct inner as [| | | | | | |o a b| | | | | | |]; try discriminate.
  destruct (pview r) as [[P' inner']|] eqn:Ev'; [|discriminate].
  destruct inner' as [| | | | | | |o' a' b'| | | | | | |]; try discriminate.
  apply pview_inv in Ev. apply pview_inv in Ev'. subst p r.
  apply andb_true_iff in H. destruct H as [_ H].
  destruct (schema a) as [[ca| | |]|] eqn:Esa; try discriminate.
  destruct (schema b) as [[cb| | |]|] eqn:Esb; try discriminate.
  destruct (side_U a a') as [sa|] eqn:Ua; try discriminate.
  destruct (side_U b b') as [sb|] eqn:Ub; try discriminate.
  apply andb_true_iff in H. destruct H as [H _]. apply andb_true_iff in H. destruct H as [H Hcb].
  apply andb_true_iff in H. destruct H as [_ Hca].
  apply Nat.ltb_lt in Hn.
  destruct (side_width _ _ _ _ _ Ua Hca Esa) as [Wa Ma].
  destruct (side_width _ _ _ _ _ Ub Hcb Esb) as [Wb Mb].
  left. rewrite !M1_pbuild. cbn [M1]. rewrite Wa, Wb, Ma, Mb.
  rewrite (width_frame _ _ Esa), (width_frame _ _ Esb). lia.
Qed.

Lemma s7a_dec : forall p r, s7a_ok p r = true -> dec p r.
Proof.
  intros p r H. unfold s7a_ok in H.
  destruct (pview p) as [[P inner]|] eqn:Ev; [|discriminate].
  destruct inner; try discriminate. apply pview_inv in Ev. subst p.
  apply andb_true_iff in H. destruct H as [_ H]. apply expr_eqb_eq in H. subst r.
  left. rewrite !M1_pbuild. cbn [M1]. lia.
Qed.

Lemma s9_dec : forall p r, s9_ok p r = true -> s9_narrow p r = true -> schema p <> None -> dec p r.
Proof.
  intros p r H Hn Hp. unfold s9_ok in H. unfold s9_narrow in Hn.
  destruct (pview p) as [[P inner]|] eqn:Ev; [|discriminate].
  destruct inner; try discriminate. apply pview_inv in Ev. subst p.
  apply orb_true_iff in Hn. destruct Hn as [Hn|Hn].
  - clear H. destruct P as [c|c]; apply expr_eqb_eq in Hn; subst r.
    + assert (Hle : length c <= length cs).
      { cbn [pbuild schema] in Hp. destruct (nodupb cs); [|exfalso; apply Hp; reflexivity].
        simpl in Hp. destruct (nodupb c) eqn:E1; [|exfalso; apply Hp; reflexivity].
        destruct (subsetb c cs) eqn:E2; [|exfalso; apply Hp; reflexivity].
        apply sub_length; assumption. }
      unfold dec. cbn [pbuild M1 M2 size]. lia.
    + assert (Hle : 1 <= length cs).
      { cbn [pbuild schema] in Hp. destruct (nodupb cs); [|exfalso; apply Hp; reflexivity].
        simpl in Hp. destruct (memb c cs) eqn:E; [|exfalso; apply Hp; reflexivity].
        apply memb_In in E. destruct cs; [inversion E|simpl; lia]. }
      unfold dec. cbn [pbuild M1 M2 size]. lia.
  - apply orb_true_iff in H. destruct H as [H|H].
    + (* the absorbing variant matched as well: it decreases anyway *)
      destruct P as [c|c]; apply expr_eqb_eq in H; subst r; simpl in Hn; discriminate.
    + destruct (pview r) as [[P' inner']|]; [|discriminate].
      destruct inner'; try discriminate.
      apply andb_true_iff in H. destruct H as [H _]. apply andb_true_iff in H. destruct H as [H _].
      apply andb_true_iff in H. destruct H as [H _]. apply expr_eqb_eq in H. subst r.
      apply Nat.ltb_lt in Hn. left. rewrite !M1_pbuild. cbn [M1]. lia.
Qed.

(* S10 *)
Lemma width_subst : forall a b e, schema a = schema b -> width (subst a b e) = width e.
Proof. intros a b e H. unfold width. rewrite (schema_congruence a b H e). reflexivity. Qed.

Lemma rowwise_M1 : forall t x, schema t = schema x -> M1 x <= M1 t ->
  forall q, rowwise t q = true -> M1 (subst t x q) + (M1 t - M1 x) <= M1 q.
Proof.
  intros t x Hs Hle. induction q; intros H; rewrite subst_unfold; rewrite rowwise_unfold in H;
    (destruct (expr_eqb t _) eqn:E; [apply expr_eqb_eq in E; subst t; lia|]);
    try discriminate; cbn [M1]; rewrite ?(width_subst t x _ Hs).
  - specialize (IHq H). lia.
  - specialize (IHq H). lia.
  - specialize (IHq H). lia.
  - specialize (IHq H). lia.
  - apply andb_true_iff in H. destruct H as [H1 H2]. specialize (IHq1 H1). specialize (IHq2 H2). lia.
  - specialize (IHq H). lia.
  - specialize (IHq H). lia.
  - apply andb_true_iff in H. destruct H as [H1 H2]. specialize (IHq1 H1). specialize (IHq2 H2). lia.
  - specialize (IHq H). lia.
Qed.

Lemma s10_dec : forall p r, s10_ok p r = true -> schema p <> None -> dec p r.
Proof.
  intros p0 r H Hp. unfold s10_ok in H.
  destruct p0 as [| | | |t q| | | | | | | | | |]; try discriminate.
  destruct t as [| | | |x p| | | | | | | | | |]; try discriminate.
  apply andb_true_iff in H. destruct H as [H Hres]. apply andb_true_iff in H. destruct H as [_ Hrow].
  apply expr_eqb_eq in Hres. subst r.
  assert (Hk : exists kx, schema x = Some kx /\ schema p = Some KSeries /\ schema q = Some KSeries
                          /\ schema (Filter x p) = Some kx).
  { cbn [schema] in Hp |- *. destruct (schema x) as [kx|]; [|exfalso; apply Hp; reflexivity].
    cbn [bind] in *. destruct (schema p) as [kp|]; [|exfalso; apply Hp; reflexivity].
    cbn [bind] in *. destruct (schema q) as [kq|].
    2:{ exfalso. apply Hp. destruct (k_filter kx kp); reflexivity. }
    exists kx. destruct kx, kp; simpl in Hp; try (exfalso; apply Hp; reflexivity);
      destruct kq; simpl in Hp; try (exfalso; apply Hp; reflexivity); auto. }
  destruct Hk as (kx & Hx & Hps & Hqs & Ht).
  assert (Hs : schema (Filter x p) = schema x) by congruence.
  assert (Hle : M1 x <= M1 (Filter x p)) by (cbn [M1]; lia).
  pose proof (rowwise_M1 _ _ Hs Hle q Hrow) as Hq.
  assert (Wt : width (Filter x p) = width x) by (unfold width; rewrite Hs; reflexivity).
  assert (Wp : width p = 1) by (unfold width; rewrite Hps; reflexivity).
  assert (Wq : width q = 1) by (unfold width; rewrite Hqs; reflexivity).
  assert (Wb : width (Bin BAnd p (subst (Filter x p) x q)) = 1).
  { unfold width. cbn [schema]. rewrite (schema_congruence _ _ Hs q), Hps, Hqs. reflexivity. }
  left. cbn [M1] in Hq |- *. rewrite (width_subst _ _ _ Hs). rewrite Wb.
  change (width (Filter x p)) with (width (Filter x p)) in *. rewrite Wt, Wp, Wq in *. lia.
Qed.

(* S13 *)
Lemma len_reach_dec : forall t e, len_reach t e = true -> dec e t.
Proof.
  intros t.
  assert (R : forall e x (b : bool), dec e x -> (b = true -> dec x t) ->
                                     expr_eqb x t || b = true -> dec e t).
  { intros e x b Hex Hb H. apply orb_true_iff in H. destruct H as [H|H].
    - apply expr_eqb_eq in H. subst. exact Hex.
    - eapply dec_trans; [exact Hex|auto]. }
  induction e; intros H; cbn [len_reach] in H; try discriminate.
  - eapply R; [|exact IHe|exact H]. right. simpl. lia.
  - eapply R; [|exact IHe|exact H]. right. simpl. lia.
  - eapply R; [|exact IHe|exact H]. left. simpl. lia.
  - eapply R; [|exact IHe|exact H]. left. simpl. lia.
  - apply andb_true_iff in H. destruct H as [_ H].
    eapply R; [|exact IHe1|exact H]. left. simpl. lia.
  - eapply R; [|exact IHe|exact H]. left. simpl. lia.
  - eapply R; [|exact IHe|exact H]. left. simpl. lia.
  - eapply R; [|exact IHe1|exact H]. left. simpl. lia.
  - eapply R; [|exact IHe|exact H]. left. simpl. lia.
Qed.

Lemma s13_dec : forall p r, s13_ok p r = true -> dec p r.
Proof.
  intros p r H. unfold s13_ok in H. destruct p; try discriminate. destruct r; try discriminate.
  apply len_reach_dec in H. unfold dec in *. cbn [M1 M2 size]. lia.
Qed.

Lemma strict_dec : forall p r, rule_ok_strict p r = true -> schema p <> None -> dec p r.
Proof.
  intros p r H Hp. apply andb_true_iff in H. destruct H as [_ H]. unfold strict_cond in H.
  repeat (apply orb_true_iff in H; destruct H as [H|H]).
  - apply s1_dec. exact H.
  - apply s2_dec. exact H.
  - apply andb_true_iff in H. destruct H as [_ H]. apply push_dec; assumption.
  - apply andb_true_iff in H. destruct H as [H1 H2]. apply s6_dec; assumption.
  - apply s7a_dec. exact H.
  - apply andb_true_iff in H. destruct H as [H1 H2]. apply s9_dec; assumption.
  - apply s10_dec; assumption.
  - apply s13_dec. exact H.
Qed.

Theorem step_decreases : forall p r, rule_ok_strict p r = true -> schema p <> None ->
  mu_lt (mu r) (mu p).
Proof. intros p r H Hp. apply dec_mu_lt. apply strict_dec; assumption. Qed.

(* ------------------------------------------------------------------ *)
(** * The step applied anywhere inside a bigger plan *)

Fixpoint occurs (a e : expr) : bool :=
  expr_eqb a e ||
  match e with
  | Src _ _ | SrcS _ _ => false
  | Proj e1 _ | ProjS e1 _ | BinL _ e1 _ | BinR _ _ e1 | Un _ e1 | Fillna e1 _ | Rename e1 _
  | RSum e1 | RCount e1 | RLen e1 => occurs a e1
  | Filter x y | Bin _ x y | Assign x _ y => occurs a x || occurs a y
  end.

Lemma occurs_unfold : forall a e,
  occurs a e =
  expr_eqb a e ||
  match e with
  | Src _ _ | SrcS _ _ => false
  | Proj e1 _ | ProjS e1 _ | BinL _ e1 _ | BinR _ _ e1 | Un _ e1 | Fillna e1 _ | Rename e1 _
  | RSum e1 | RCount e1 | RLen e1 => occurs a e1
  | Filter x y | Bin _ x y | Assign x _ y => occurs a x || occurs a y
  end.
Proof. intros a e. destruct e; reflexivity. Qed.

Section Context.
  Variables a b : expr.
  Hypothesis Hdec : schema a <> None -> dec a b.
  Hypothesis Hsch : forall e k, schema e = Some k -> schema (subst a b e) = Some k.

  Lemma width_subst_ctx : forall e, schema e <> None -> width (subst a b e) = width e.
  Proof.
    intros e He. destruct (schema e) as [k|] eqn:E; [|congruence].
    unfold width. rewrite (Hsch _ _ E), E. reflexivity.
  Qed.

  Ltac child_ok He :=
    let Hn := fresh "Hn" in
    intro Hn; apply He; cbn [schema]; rewrite Hn;
    try reflexivity;
    match goal with |- bind ?s _ = None => destruct s; reflexivity end.

  Ltac unary_case IHe He E :=
    let S1 := fresh "S1" in let L1 := fresh "L1" in let D1 := fresh "D1" in
    let W1 := fresh "W1" in let Ho := fresh "Ho" in
    match type of IHe with (schema ?e1 <> None -> _) =>
      assert (S1 : schema e1 <> None) by child_ok He;
      destruct (IHe S1) as [L1 D1];
      pose proof (width_subst_ctx e1 S1) as W1;
      split;
      [ | intros Ho; rewrite occurs_unfold, E in Ho; cbn [orb] in Ho; specialize (D1 Ho) ];
      unfold dec, decle in *; cbn [M1 M2 size]; rewrite ?W1; lia
    end.

  Ltac binary_case IH1 IH2 He E :=
    let S1 := fresh "S1" in let L1 := fresh "L1" in let D1 := fresh "D1" in
    let W1 := fresh "W1" in let S2 := fresh "S2" in let L2 := fresh "L2" in
    let D2 := fresh "D2" in let W2 := fresh "W2" in let Ho := fresh "Ho" in
    match type of IH1 with (schema ?e1 <> None -> _) =>
    match type of IH2 with (schema ?e2 <> None -> _) =>
      assert (S1 : schema e1 <> None) by child_ok He;
      assert (S2 : schema e2 <> None) by child_ok He;
      destruct (IH1 S1) as [L1 D1]; destruct (IH2 S2) as [L2 D2];
      pose proof (width_subst_ctx e1 S1) as W1; pose proof (width_subst_ctx e2 S2) as W2;
      split;
      [ | intros Ho; rewrite occurs_unfold, E in Ho; cbn [orb] in Ho;
          apply orb_true_iff in Ho; destruct Ho as [Ho|Ho];
          [specialize (D1 Ho)|specialize (D2 Ho)] ];
      unfold dec, decle in *; cbn [M1 M2 size]; rewrite ?W1, ?W2; lia
    end end.

  Lemma ctx_dec : forall e, schema e <> None ->
    decle e (subst a b e) /\ (occurs a e = true -> dec e (subst a b e)).
  Proof.
    induction e; intros He; rewrite subst_unfold;
      (destruct (expr_eqb a _) eqn:E;
       [apply expr_eqb_eq in E; subst a;
        assert (D : dec _ b) by (apply Hdec; exact He);
        split; [unfold dec, decle in *; lia|intros _; exact D]|]).
    - split; [unfold decle; lia|]. intros Ho. rewrite occurs_unfold, E in Ho. discriminate.
    - split; [unfold decle; lia|]. intros Ho. rewrite occurs_unfold, E in Ho. discriminate.
    - unary_case IHe He E.
    - unary_case IHe He E.
    - binary_case IHe1 IHe2 He E.
    - unary_case IHe He E.
    - unary_case IHe He E.
    - binary_case IHe1 IHe2 He E.
    - unary_case IHe He E.
    - unary_case IHe He E.
    - binary_case IHe1 IHe2 He E.
    - unary_case IHe He E.
    - unary_case IHe He E.
    - unary_case IHe He E.
    - unary_case IHe He E.
  Qed.
End Context.

Theorem step_in_context_decreases : forall a b e,
  rule_ok_strict a b = true -> occurs a e = true -> schema e <> None ->
  mu_lt (mu (subst a b e)) (mu e).
Proof.
  intros a b e H Ho He. apply dec_mu_lt.
  apply (ctx_dec a b); try assumption.
  - intros Ha. apply strict_dec; assumption.
  - apply step_in_context_schema. apply rule_ok_strict_ok. exact H.
Qed.

(* a step that does not occur leaves the plan unchanged *)
Lemma subst_no_occurrence : forall a b e, occurs a e = false -> subst a b e = e.
Proof.
  intros a b. induction e; intros H; rewrite subst_unfold; rewrite occurs_unfold in H;
    apply orb_false_iff in H; destruct H as [E H]; rewrite E;
    try reflexivity; try (rewrite IHe by exact H; reflexivity);
    apply orb_false_iff in H; destruct H as [H1 H2]; rewrite IHe1, IHe2 by assumption; reflexivity.
Qed.

(* ------------------------------------------------------------------ *)
(** * Examples (one strictly decreasing accepted step per schema) *)

Definition decreasing (p r : expr) : Prop :=
  rule_ok_strict p r = true /\ schema p <> None /\ mu_ltb (mu r) (mu p) = true.
Ltac decr := split; [vm_compute; reflexivity|split; [vm_compute; discriminate|vm_compute; reflexivity]].

Example mu_s1 : decreasing (Proj (Proj T0 [0; 1]) [1]) (Proj T0 [1]).
Proof. decr. Qed.
Example mu_s1_values : mu (Proj (Proj T0 [0; 1]) [1]) = (4, 5) /\ mu (Proj T0 [1]) = (4, 2).
Proof. vm_compute. auto. Qed.
Example mu_s2 : decreasing (Proj (Fillna T0 0) [0; 1; 2]) (Fillna T0 0).
Proof. decr. Qed.
Example mu_s4 : decreasing (Proj (BinL BAdd T0 1) [1]) (Proj (BinL BAdd (Proj T0 [1; 2]) 1) [1]).
Proof. decr. Qed.
Example mu_s4_values :
  mu (Proj (BinL BAdd T0 1) [1]) = (8, 3) /\ mu (Proj (BinL BAdd (Proj T0 [1; 2]) 1) [1]) = (7, 6).
Proof. vm_compute. auto. Qed.
Example mu_s4_bare : decreasing (Proj (BinR BSub 1 T0) [1]) (BinR BSub 1 (Proj T0 [1])).
Proof. decr. Qed.
(* bare push with a mere reordering: M1 stays, the projection gets closer to the source *)
Example mu_s4_bare_permutation :
  decreasing (Proj (Un UNeg T0) [2; 1; 0]) (Un UNeg (Proj T0 [2; 1; 0]))
  /\ mu (Proj (Un UNeg T0) [2; 1; 0]) = (8, 3) /\ mu (Un UNeg (Proj T0 [2; 1; 0])) = (8, 2).
Proof. split; [decr|vm_compute; auto]. Qed.
Example mu_s4_series_bare : decreasing (ProjS (BinL BAdd T0 1) 1) (BinL BAdd (ProjS T0 1) 1).
Proof. decr. Qed.
Example mu_s5 : decreasing (Proj (Filter T0 pr0) [1]) (Proj (Filter (Proj T0 [1; 2]) pr0) [1]).
Proof. decr. Qed.
Example mu_s5_bare : decreasing (Proj (Filter T0 pr0) [1]) (Filter (Proj T0 [1]) pr0).
Proof. decr. Qed.
Example mu_s6 : decreasing (Proj (Bin BAdd T0 (Fillna T0 0)) [1])
                           (Proj (Bin BAdd (Proj T0 [1]) (Proj (Fillna T0 0) [1])) [1]).
Proof. decr. Qed.
Example mu_s7a : decreasing (Proj (Assign T0 5 v0) [0; 1]) (Proj T0 [0; 1]).
Proof. decr. Qed.
Example mu_s7b : decreasing (Proj (Assign T0 5 v0) [5; 1]) (Proj (Assign (Proj T0 [1]) 5 v0) [5; 1]).
Proof. decr. Qed.
(* replacing a column in place: the OUTPUT of the Assign keeps its width (2 -> 2 would not
   decrease an output-width measure); the width flowing INTO it shrinks *)
Example mu_s7b_inplace :
  decreasing (Proj (Assign (Src 0 [0; 1]) 1 v0) [1]) (Proj (Assign (Proj (Src 0 [0; 1]) []) 1 v0) [1]).
Proof. decr. Qed.
Example mu_s8 : decreasing (Proj (Rename T0 [(0, 7)]) [7; 2])
                           (Proj (Rename (Proj T0 [0; 2]) [(0, 7)]) [7; 2]).
Proof. decr. Qed.
Example mu_s9 : decreasing (Proj T0 [2; 0]) (Src 0 [2; 0]).
Proof. decr. Qed.
Example mu_s9_series : decreasing (ProjS T0 1) (SrcS 0 1).
Proof. decr. Qed.
Example mu_s9_partial : decreasing (Proj T0 [2]) (Proj (Src 0 [1; 2]) [2]).
Proof. decr. Qed.
Example mu_s10 : decreasing (Filter (Filter T0 p1) q1)
                            (Filter T0 (Bin BAnd p1 (BinL BGt (ProjS T0 0) 0))).
Proof. decr. Qed.
Example mu_s10_values :
  mu (Filter (Filter T0 p1) q1) = (37, 10)
  /\ mu (Filter T0 (Bin BAnd p1 (BinL BGt (ProjS T0 0) 0))) = (24, 4).
Proof. vm_compute. auto. Qed.
Example mu_s13 : decreasing (RLen (Proj (Filter T0 pr0) [1])) (RLen (Filter T0 pr0)).
Proof. decr. Qed.
Example mu_s13_series : decreasing (RLen (ProjS T0 1)) (RLen T0).
Proof. decr. Qed.
Example mu_in_context :
  let a := Proj (Fillna T0 0) [1] in let b := Fillna (Proj T0 [1]) 0 in
  let e := RSum (ProjS (Bin BAdd a a) 1) in
  rule_ok_strict a b = true /\ occurs a e = true /\ mu e = (21, 14) /\ mu (subst a b e) = (17, 12).
Proof. vm_compute. auto. Qed.

(* Degenerate instances of the proved schemas: accepted by [rule_ok] (they are semantically sound)
   but they change nothing useful and NO measure of this shape can decrease on them -- this is
   exactly what [rule_ok_strict] excludes (the real rules return None in these situations). *)
Example degenerate_s4_no_narrowing :   (* inserts a Proj node that only reorders: mu goes UP *)
  let p := Proj (BinL BAdd T0 1) [1] in let r := Proj (BinL BAdd (Proj T0 [2; 1; 0]) 1) [1] in
  rule_ok p r = true /\ rule_ok_strict p r = false /\ mu_ltb (mu p) (mu r) = true.
Proof. vm_compute. auto. Qed.
Example degenerate_s4_loops :   (* ... and it can be applied again and again: p -> r -> r' -> ... *)
  let r := Proj (BinL BAdd (Proj T0 [2; 1; 0]) 1) [1] in
  let r' := Proj (BinL BAdd (Proj (Proj T0 [2; 1; 0]) [0; 1; 2]) 1) [1] in
  rule_ok r r' = true /\ rule_ok_strict r r' = false.
Proof. vm_compute. auto. Qed.
Example degenerate_s6_no_narrowing :
  let p := Proj (Bin BAdd T0 (Fillna T0 0)) [1] in
  let r := Proj (Bin BAdd (Proj T0 [0; 1; 2]) (Fillna T0 0)) [1] in
  rule_ok p r = true /\ rule_ok_strict p r = false /\ mu_ltb (mu p) (mu r) = true.
Proof. vm_compute. auto. Qed.
Example degenerate_s9_reorder_only :   (* only permutes the columns read by the source: mu unchanged *)
  let p := Proj T0 [2] in let r := Proj (Src 0 [2; 1; 0]) [2] in
  rule_ok p r = true /\ rule_ok_strict p r = false /\ mu p = mu r /\ rule_ok r p = true.
Proof. vm_compute. auto. Qed.

Print Assumptions step_decreases.
Print Assumptions step_in_context_decreases.
Print Assumptions mu_lt_wf.
