(* PropC04.v -- property C04: column pruning never changes a result.  Statements only.
   Every projection-pushdown step of the modelled fragment (projection through projection, elementwise
   operators, filters, binary operators, assign, rename, absorption into the source: schemas S1-S9 of
   Plan.v) is validated on every run by the verified checker; the theorems say that an accepted step
   keeps values, labels and order of the result for every input table and never makes a defined query
   undefined (no column found missing or duplicated). *)
From DX Require Import Base Plan PlanProofs PlanMeasure.

Theorem C04_pruning_step_sound : forall parent result, rule_ok parent result = true ->
  forall rho o, den rho parent = Some o -> den rho result = Some o.
Proof. exact rule_ok_sound. Qed.
Print Assumptions C04_pruning_step_sound.

Theorem C04_pruning_in_context : forall a b, rule_ok a b = true ->
  forall rho e o, den rho e = Some o -> den rho (subst a b e) = Some o.
Proof. exact step_in_context_sound. Qed.
Print Assumptions C04_pruning_in_context.

(* labels and order of the result's columns are unchanged (static schema) *)
Theorem C04_result_labels_unchanged : forall parent result, rule_ok parent result = true ->
  forall k, schema parent = Some k -> schema result = Some k.
Proof. exact rule_ok_schema. Qed.
Print Assumptions C04_result_labels_unchanged.

(* the declared schema is the schema of the computed value *)
Theorem C04_schema_matches_value : forall rho e o, den rho e = Some o -> schema e = Some (kind_of o).
Proof. exact schema_sound. Qed.
Print Assumptions C04_schema_matches_value.
