(* ClassTableLengthFlags.v -- T-GEN obligation of property C06 *)
From Coq Require Import String List Bool.
From DX Require Import GeneratedClassTable ClassTableChecks.
Import ListNotations.
Open Scope string_scope.

(* length preservation (len() answered through the operator): every Elemwise class, plus these *)
Definition length_preserving_reviewed : list string := [
  "Repartition"; "RepartitionDivisions"; "RepartitionFreq"; "RepartitionSize"; "RepartitionToFewer"; "RepartitionToMore";
  "BaseSetIndexSortValues"; "DiskShuffle"; "P2PShuffle"; "RearrangeByColumn"; "SetIndex"; "SetIndexBlockwise"; "SetPartition"; "Shuffle"; "ShuffleBase";
  "SimpleShuffle"; "SortIndexBlockwise"; "SortValues"; "SortValuesBlockwise"; "TaskShuffle"; "_SetIndexPost"; "_SetPartitionsPreSetIndex" ].
Definition length_flags_b : bool :=
  forallb (fun c => negb (c_length_preserving c) || c_elemwise c || mems (c_name c) length_preserving_reviewed) class_table.
Lemma length_flags_reviewed : length_flags_b = true.
Proof. vm_compute. reflexivity. Qed.

