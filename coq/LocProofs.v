(* LocProofs.v -- theorems about Loc.v: label slicing `df.loc[lo:hi]` on known divisions (LocSlice) and index arithmetic
   applied to divisions (Binop._divisions).  Stdlib only, no axioms.
   Every statement of the task is proved exactly as given (none turned out false).  Two of them are in fact proved in a
   slightly STRONGER form first (loc_rows_gen / loc_truthful_gen: the hypothesis `slice_ok lo hi` is not needed, the model
   is also right for a reversed slice thanks to the `max` in ls_stop, fix D45) and the stated theorems are corollaries. *)
From DX Require Import Base Divisions DivisionsProofs DivisionsExtra Loc.
From Coq Require Import ZifyBool.

Definition slice_ok (lo hi : option Z) : Prop :=
  match lo, hi with Some l, Some h => (l <= h)%Z | _, _ => True end.

(* ================================================================== *)
(* 0. helpers                                                           *)
(* ================================================================== *)

Lemma nth_skipn_add : forall (A : Type) (s : nat) (l : list A) (j : nat) (d : A),
  nth j (skipn s l) d = nth (s + j) l d.
Proof.
  intros A s. induction s as [|s IH]; intros l j d; [reflexivity|].
  destruct l as [|a l]; [destruct j; reflexivity|].
  simpl. apply IH.
Qed.

Lemma seq_add_map : forall s k, seq s k = map (fun i => s + i) (seq 0 k).
Proof.
  intros s k. induction k as [|k IH]; [reflexivity|].
  rewrite !seq_S, map_app, IH. reflexivity.
Qed.

Lemma concat_map_nil : forall (A B : Type) (g : A -> list B) (l : list A),
  (forall a, In a l -> g a = []) -> concat (map g l) = [].
Proof.
  intros A B g l. induction l as [|a l IH]; intros H; [reflexivity|].
  simpl. rewrite (H a (or_introl eq_refl)). simpl. apply IH. intros b Hb. apply H. right. exact Hb.
Qed.

Lemma filter_all_true : forall (A : Type) (f : A -> bool) (l : list A),
  (forall a, In a l -> f a = true) -> filter f l = l.
Proof.
  intros A f l. induction l as [|a l IH]; intros H; [reflexivity|].
  simpl. rewrite (H a (or_introl eq_refl)). f_equal. apply IH. intros b Hb. apply H. right. exact Hb.
Qed.

Lemma filter_all_false : forall (A : Type) (f : A -> bool) (l : list A),
  (forall a, In a l -> f a = false) -> filter f l = [].
Proof.
  intros A f l. induction l as [|a l IH]; intros H; [reflexivity|].
  simpl. rewrite (H a (or_introl eq_refl)). apply IH. intros b Hb. apply H. right. exact Hb.
Qed.

(* ================================================================== *)
(* 1. bisect_right / part_of                                            *)
(* ================================================================== *)

Lemma bisect_right_le_length : forall divs v, bisect_right divs v <= length divs.
Proof.
  induction divs as [|a r IH]; intros v; simpl; [lia|].
  destruct (a <=? v)%Z; [specialize (IH v)|]; lia.
Qed.

(* every one of the counted leading entries is <= v *)
Lemma bisect_right_prefix : forall divs v i, i < bisect_right divs v -> (nth i divs 0 <= v)%Z.
Proof.
  induction divs as [|a r IH]; intros v i H; simpl in H; [lia|].
  destruct (a <=? v)%Z eqn:E; [|lia].
  destruct i as [|i]; simpl.
  - apply Z.leb_le. exact E.
  - apply IH. lia.
Qed.

(* the first entry that is not counted is > v *)
Lemma bisect_right_next : forall divs v,
  bisect_right divs v < length divs -> (v < nth (bisect_right divs v) divs 0)%Z.
Proof.
  induction divs as [|a r IH]; intros v H; simpl in H; [lia|].
  simpl. destruct (a <=? v)%Z eqn:E.
  - simpl. apply IH. simpl in H. lia.
  - simpl. apply Z.leb_gt. exact E.
Qed.

Lemma part_of_bound : forall divs v, 2 <= length divs -> part_of divs v <= length divs - 2.
Proof. intros divs v H. unfold part_of. lia. Qed.

Lemma part_of_lower : forall divs v, sortedZ divs -> 2 <= length divs ->
  part_of divs v = 0 \/ (nth (part_of divs v) divs 0 <= v)%Z.
Proof.
  intros divs v _ Hl.
  destruct (Nat.eq_dec (part_of divs v) 0) as [E|E]; [left; exact E|right].
  apply bisect_right_prefix. unfold part_of in *. lia.
Qed.

Lemma part_of_upper : forall divs v, sortedZ divs -> 2 <= length divs ->
  part_of divs v = length divs - 2 \/ (v < nth (S (part_of divs v)) divs 0)%Z.
Proof.
  intros divs v Hs Hl.
  destruct (Nat.eq_dec (part_of divs v) (length divs - 2)) as [E|E]; [left; exact E|right].
  pose proof (bisect_right_le_length divs v) as Hb.
  destruct (Nat.eq_dec (bisect_right divs v) 0) as [E0|E0].
  - assert (Hp : part_of divs v = 0) by (unfold part_of; rewrite E0; lia).
    rewrite Hp.
    assert (H0 : (v < nth (bisect_right divs v) divs 0)%Z) by (apply bisect_right_next; lia).
    rewrite E0 in H0.
    assert (H1 : (nth 0 divs 0 <= nth 1 divs 0)%Z) by (apply Hs; lia).
    lia.
  - assert (Hp : S (part_of divs v) = bisect_right divs v) by (unfold part_of in *; lia).
    rewrite Hp. apply bisect_right_next. unfold part_of in *. lia.
Qed.

(* ================================================================== *)
(* 2. start / stop                                                      *)
(* ================================================================== *)

Lemma truthful_len : forall divs parts, truthful divs parts -> parts <> [] ->
  length divs = length parts + 1 /\ 1 <= length parts /\ sortedZ divs.
Proof.
  intros divs parts (Hl & Hs & _) Hne. repeat split; try assumption.
  destruct parts; [congruence|simpl; lia].
Qed.

Lemma start_le : forall divs lo, 2 <= length divs -> ls_start divs lo <= length divs - 2.
Proof. intros divs [l|] H; simpl; [apply part_of_bound; exact H|lia]. Qed.

Lemma stop_bounds : forall divs lo hi, 2 <= length divs ->
  ls_start divs lo <= ls_stop divs lo hi /\ ls_stop divs lo hi <= length divs - 2.
Proof.
  intros divs lo hi H. pose proof (start_le divs lo H) as Hs.
  destruct hi as [h|]; simpl.
  - pose proof (part_of_bound divs h H). lia.
  - lia.
Qed.

Lemma start_lower : forall divs l, sortedZ divs -> 2 <= length divs ->
  ls_start divs (Some l) <> 0 -> (nth (ls_start divs (Some l)) divs 0 <= l)%Z.
Proof. intros divs l Hs Hl H. simpl in *. destruct (part_of_lower divs l Hs Hl); [congruence|assumption]. Qed.

Lemma start_upper : forall divs l, sortedZ divs -> 2 <= length divs ->
  ls_start divs (Some l) <> length divs - 2 -> (l < nth (S (ls_start divs (Some l))) divs 0)%Z.
Proof. intros divs l Hs Hl H. simpl in *. destruct (part_of_upper divs l Hs Hl); [congruence|assumption]. Qed.

Lemma stop_lower : forall divs lo h, sortedZ divs -> 2 <= length divs ->
  ls_start divs lo < ls_stop divs lo (Some h) -> (nth (ls_stop divs lo (Some h)) divs 0 <= h)%Z.
Proof.
  intros divs lo h Hs Hl H. simpl in *.
  assert (E : Nat.max (part_of divs h) (ls_start divs lo) = part_of divs h) by lia.
  rewrite E in *. destruct (part_of_lower divs h Hs Hl); [lia|assumption].
Qed.

Lemma stop_upper : forall divs lo h i, sortedZ divs -> 2 <= length divs ->
  ls_stop divs lo (Some h) < i -> i <= length divs - 2 -> (h < nth i divs 0)%Z.
Proof.
  intros divs lo h i Hs Hl H Hi. simpl in H.
  destruct (part_of_upper divs h Hs Hl) as [E|E]; [lia|].
  assert ((nth (S (part_of divs h)) divs 0 <= nth i divs 0)%Z) by (apply sortedZ_le; [assumption|lia|lia]).
  lia.
Qed.

(* ================================================================== *)
(* 3. rows of a truthful collection                                     *)
(* ================================================================== *)

Lemma row_lo : forall divs parts i x, truthful divs parts ->
  i < length parts -> In x (nth i parts []) -> (nth i divs 0 <= x)%Z.
Proof. intros divs parts i x (_ & _ & Hr) Hi Hx. destruct (Hr i x Hi Hx) as [H _]. exact H. Qed.

Lemma row_hi_strict : forall divs parts i x, truthful divs parts ->
  S i < length parts -> In x (nth i parts []) -> (x < nth (S i) divs 0)%Z.
Proof.
  intros divs parts i x (_ & _ & Hr) Hi Hx.
  assert (Hi' : i < length parts) by lia.
  destruct (Hr i x Hi' Hx) as [_ [H|[H _]]]; [exact H|lia].
Qed.

Lemma row_hi_weak : forall divs parts i x, truthful divs parts ->
  i < length parts -> In x (nth i parts []) -> (x <= nth (S i) divs 0)%Z.
Proof. intros divs parts i x (_ & _ & Hr) Hi Hx. destruct (Hr i x Hi Hx) as [_ [H|[_ H]]]; lia. Qed.

(* A: partitions before `start` hold only labels below lo *)
Lemma rows_before_start : forall divs parts lo i x,
  truthful divs parts -> parts <> [] ->
  i < ls_start divs lo -> In x (nth i parts []) -> ge_lo lo x = false.
Proof.
  intros divs parts lo i x Ht Hne Hi Hx.
  destruct (truthful_len divs parts Ht Hne) as (Hl & Hn & Hs).
  destruct lo as [l|]; [|simpl in Hi; lia].
  assert (H2 : 2 <= length divs) by lia.
  pose proof (start_le divs (Some l) H2) as Hsl.
  assert (H1 : (x < nth (S i) divs 0)%Z) by (apply (row_hi_strict divs parts _ _ Ht); [lia|exact Hx]).
  assert (H3 : (nth (S i) divs 0 <= nth (ls_start divs (Some l)) divs 0)%Z)
    by (apply sortedZ_le; [assumption|lia|lia]).
  assert (H4 : (nth (ls_start divs (Some l)) divs 0 <= l)%Z) by (apply start_lower; [assumption|lia|lia]).
  simpl. apply Z.leb_gt. lia.
Qed.

(* B: partitions after `stop` hold only labels above hi *)
Lemma rows_after_stop : forall divs parts lo hi i x,
  truthful divs parts -> parts <> [] ->
  ls_stop divs lo hi < i -> i < length parts -> In x (nth i parts []) -> le_hi hi x = false.
Proof.
  intros divs parts lo hi i x Ht Hne Hi Hin Hx.
  destruct (truthful_len divs parts Ht Hne) as (Hl & Hn & Hs).
  assert (H2 : 2 <= length divs) by lia.
  destruct hi as [h|]; [|simpl in Hi; lia].
  assert (H1 : (h < nth i divs 0)%Z) by (apply (stop_upper divs lo h); [assumption|lia|exact Hi|lia]).
  pose proof (row_lo divs parts _ _ Ht Hin Hx) as H3.
  simpl. apply Z.leb_gt. lia.
Qed.

(* C: partitions after `start` hold only labels above lo *)
Lemma rows_after_start : forall divs parts lo i x,
  truthful divs parts -> parts <> [] ->
  ls_start divs lo < i -> i < length parts -> In x (nth i parts []) -> ge_lo lo x = true.
Proof.
  intros divs parts lo i x Ht Hne Hi Hin Hx.
  destruct (truthful_len divs parts Ht Hne) as (Hl & Hn & Hs).
  assert (H2 : 2 <= length divs) by lia.
  destruct lo as [l|]; [|reflexivity].
  assert (H1 : (l < nth (S (ls_start divs (Some l))) divs 0)%Z) by (apply start_upper; [assumption|lia|lia]).
  assert (H3 : (nth (S (ls_start divs (Some l))) divs 0 <= nth i divs 0)%Z)
    by (apply sortedZ_le; [assumption|lia|lia]).
  pose proof (row_lo divs parts _ _ Ht Hin Hx) as H4.
  simpl. apply Z.leb_le. lia.
Qed.

(* D: touched partitions before `stop` hold only labels below hi *)
Lemma rows_before_stop : forall divs parts lo hi i x,
  truthful divs parts -> parts <> [] ->
  ls_start divs lo <= i -> i < ls_stop divs lo hi -> In x (nth i parts []) -> le_hi hi x = true.
Proof.
  intros divs parts lo hi i x Ht Hne Hsi Hi Hx.
  destruct (truthful_len divs parts Ht Hne) as (Hl & Hn & Hs).
  assert (H2 : 2 <= length divs) by lia.
  destruct (stop_bounds divs lo hi H2) as [Hb1 Hb2].
  destruct hi as [h|]; [|reflexivity].
  assert (H1 : (nth (ls_stop divs lo (Some h)) divs 0 <= h)%Z) by (apply stop_lower; [assumption|lia|lia]).
  assert (H3 : (x < nth (S i) divs 0)%Z) by (apply (row_hi_strict divs parts _ _ Ht); [lia|exact Hx]).
  assert (H4 : (nth (S i) divs 0 <= nth (ls_stop divs lo (Some h)) divs 0)%Z)
    by (apply sortedZ_le; [assumption|lia|lia]).
  simpl. apply Z.leb_le. lia.
Qed.

(* every output partition is the plain closed-range filter of its input partition *)
Lemma ls_part_eq : forall divs parts lo hi i,
  truthful divs parts -> parts <> [] ->
  i <= ls_stop divs lo hi - ls_start divs lo ->
  ls_part parts lo hi (ls_start divs lo) (ls_stop divs lo hi) i
  = filter (in_slice lo hi) (nth (ls_start divs lo + i) parts []).
Proof.
  intros divs parts lo hi i Ht Hne Hi.
  destruct (truthful_len divs parts Ht Hne) as (Hl & Hn & Hs).
  assert (H2 : 2 <= length divs) by lia.
  destruct (stop_bounds divs lo hi H2) as [Hb1 Hb2].
  unfold ls_part.
  destruct (Nat.eqb_spec (ls_stop divs lo hi) (ls_start divs lo)) as [E|E]; [reflexivity|].
  destruct (Nat.eqb_spec i 0) as [E0|E0].
  - subst i. apply filter_ext_in. intros x Hx. unfold in_slice.
    assert (Hd : le_hi hi x = true)
      by (apply (rows_before_stop divs parts lo hi (ls_start divs lo + 0) x); try assumption; lia).
    rewrite Hd, andb_true_r. reflexivity.
  - destruct (Nat.eqb_spec (ls_start divs lo + i) (ls_stop divs lo hi)) as [E1|E1].
    + apply filter_ext_in. intros x Hx. unfold in_slice.
      assert (Hc : ge_lo lo x = true)
        by (apply (rows_after_start divs parts lo (ls_start divs lo + i) x); try assumption; lia).
      rewrite Hc. reflexivity.
    + symmetry. apply filter_all_true. intros x Hx. unfold in_slice.
      assert (Hc : ge_lo lo x = true)
        by (apply (rows_after_start divs parts lo (ls_start divs lo + i) x); try assumption; lia).
      assert (Hd : le_hi hi x = true)
        by (apply (rows_before_stop divs parts lo hi (ls_start divs lo + i) x); try assumption; lia).
      rewrite Hc, Hd. reflexivity.
Qed.

Lemma loc_parts_length : forall divs parts lo hi,
  length (loc_parts divs parts lo hi) = ls_stop divs lo hi - ls_start divs lo + 1.
Proof. intros. unfold loc_parts. rewrite map_length, seq_length. reflexivity. Qed.

Lemma loc_parts_nth : forall divs parts lo hi i,
  i <= ls_stop divs lo hi - ls_start divs lo ->
  nth i (loc_parts divs parts lo hi) []
  = ls_part parts lo hi (ls_start divs lo) (ls_stop divs lo hi) i.
Proof.
  intros divs parts lo hi i Hi. unfold loc_parts.
  rewrite (nth_map_lt _ _ i 0 []) by (rewrite seq_length; lia).
  rewrite seq_nth by lia. reflexivity.
Qed.

(* ================================================================== *)
(* 4. the slice returns exactly the rows of the closed range, in order  *)
(* ================================================================== *)

(* stronger than stated: no slice_ok *)
Theorem loc_rows_gen : forall divs parts lo hi,
  truthful divs parts -> parts <> [] ->
  concat (loc_parts divs parts lo hi) = filter (in_slice lo hi) (concat parts).
Proof.
  intros divs parts lo hi Ht Hne.
  destruct (truthful_len divs parts Ht Hne) as (Hl & Hn & Hs).
  assert (H2 : 2 <= length divs) by lia.
  destruct (stop_bounds divs lo hi H2) as [Hb1 Hb2].
  assert (Hc : concat parts = concat (map (fun i => nth i parts []) (seq 0 (length parts))))
    by (rewrite map_nth_seq; reflexivity).
  rewrite Hc, <- concat_filter_map, map_map.
  unfold loc_parts.
  set (start := ls_start divs lo) in *. set (stop := ls_stop divs lo hi) in *.
  set (m := stop - start + 1).
  set (r := length parts - stop - 1).
  replace (length parts) with (start + (m + r)) by (unfold m, r; lia).
  rewrite !seq_app, !map_app, !concat_app. rewrite Nat.add_0_l.
  assert (HA : concat (map (fun i => filter (in_slice lo hi) (nth i parts [])) (seq 0 start)) = []).
  { apply concat_map_nil. intros i Hi. apply in_seq in Hi. apply filter_all_false. intros x Hx. unfold in_slice.
    assert (Hf : ge_lo lo x = false)
      by (apply (rows_before_start divs parts lo i x); try assumption; fold start; lia).
    rewrite Hf. reflexivity. }
  assert (HB : concat (map (fun i => filter (in_slice lo hi) (nth i parts [])) (seq (start + m) r)) = []).
  { apply concat_map_nil. intros i Hi. apply in_seq in Hi. apply filter_all_false. intros x Hx. unfold in_slice.
    assert (Hf : le_hi hi x = false)
      by (apply (rows_after_stop divs parts lo hi i x); try assumption; fold stop; unfold m, r in *; lia).
    rewrite Hf. apply andb_false_r. }
  rewrite HA, HB, app_nil_r. cbn [app].
  rewrite (seq_add_map start), map_map.
  f_equal. apply map_ext_in. intros i Hi. apply in_seq in Hi.
  apply ls_part_eq; try assumption. fold start stop. unfold m in Hi. lia.
Qed.

(* 1. as stated *)
Theorem loc_rows : forall divs parts lo hi,
  truthful divs parts -> parts <> [] -> slice_ok lo hi ->
  concat (loc_parts divs parts lo hi) = filter (in_slice lo hi) (concat parts).
Proof. intros divs parts lo hi Ht Hne _. apply loc_rows_gen; assumption. Qed.

(* 2. a reversed slice selects nothing *)
Theorem loc_reversed_empty : forall divs parts l h,
  truthful divs parts -> parts <> [] -> (h < l)%Z ->
  concat (loc_parts divs parts (Some l) (Some h)) = [].
Proof.
  intros divs parts l h Ht Hne Hlt. rewrite loc_rows_gen by assumption.
  apply filter_all_false. intros x _. unfold in_slice, ge_lo, le_hi.
  destruct (l <=? x)%Z eqn:E1; [|reflexivity]. simpl.
  apply Z.leb_le in E1. apply Z.leb_gt. lia.
Qed.

(* ================================================================== *)
(* 5. the reported divisions are truthful                               *)
(* ================================================================== *)

Section NthDivs.
  Variables (divs : list Z) (s k : nat) (ds de : Z).
  Hypothesis Hk : S s + k <= length divs.

  Let D := [ds] ++ firstn k (skipn (S s) divs) ++ [de].

  Lemma mid_length : length (firstn k (skipn (S s) divs)) = k.
  Proof. rewrite firstn_length, skipn_length. lia. Qed.

  Lemma locdiv_length : length D = k + 2.
  Proof. unfold D. rewrite !app_length, mid_length. simpl. lia. Qed.

  Lemma locdiv_nth0 : nth 0 D 0%Z = ds.
  Proof. reflexivity. Qed.

  Lemma locdiv_nth_mid : forall j, 1 <= j -> j <= k -> nth j D 0%Z = nth (s + j) divs 0%Z.
  Proof.
    intros j H1 H2. unfold D. destruct j as [|j]; [lia|].
    change (nth (S j) ([ds] ++ firstn k (skipn (S s) divs) ++ [de]) 0%Z)
      with (nth j (firstn k (skipn (S s) divs) ++ [de]) 0%Z).
    rewrite app_nth1 by (rewrite mid_length; lia).
    rewrite nth_firstn_lt by lia.
    rewrite nth_skipn_add. f_equal. lia.
  Qed.

  Lemma locdiv_nth_last : nth (S k) D 0%Z = de.
  Proof.
    unfold D.
    change (nth (S k) ([ds] ++ firstn k (skipn (S s) divs) ++ [de]) 0%Z)
      with (nth k (firstn k (skipn (S s) divs) ++ [de]) 0%Z).
    rewrite app_nth2 by (rewrite mid_length; lia).
    rewrite mid_length, Nat.sub_diag. reflexivity.
  Qed.
End NthDivs.

(* rows of output partition i: rows of input partition start + i that lie in the closed range *)
Lemma loc_parts_row : forall divs parts lo hi i x,
  truthful divs parts -> parts <> [] ->
  i <= ls_stop divs lo hi - ls_start divs lo ->
  In x (nth i (loc_parts divs parts lo hi) []) ->
  In x (nth (ls_start divs lo + i) parts []) /\ ge_lo lo x = true /\ le_hi hi x = true.
Proof.
  intros divs parts lo hi i x Ht Hne Hi Hx.
  rewrite loc_parts_nth in Hx by exact Hi.
  rewrite (ls_part_eq divs parts lo hi i) in Hx by assumption.
  apply filter_In in Hx. destruct Hx as [Hx Hf]. unfold in_slice in Hf.
  apply andb_true_iff in Hf. tauto.
Qed.

(* stronger than stated: no slice_ok *)
Theorem loc_truthful_gen : forall divs parts lo hi,
  truthful divs parts -> parts <> [] ->
  truthful (loc_divisions divs lo hi) (loc_parts divs parts lo hi).
Proof.
  intros divs parts lo hi Ht Hne.
  destruct (truthful_len divs parts Ht Hne) as (Hl & Hn & Hs).
  assert (H2 : 2 <= length divs) by lia.
  destruct (stop_bounds divs lo hi H2) as [Hb1 Hb2].
  assert (Hlast : last divs 0%Z = nth (length divs - 1) divs 0%Z) by apply last_nth_eq.
  assert (Hhd : hd 0%Z divs = nth 0 divs 0%Z) by apply hd_nth0.
  unfold truthful. rewrite loc_parts_length.
  unfold loc_divisions.
  destruct (Nat.eqb_spec (ls_stop divs lo hi) (ls_start divs lo)) as [E|E].
  - (* one touched partition *)
    split; [simpl; lia|]. split.
    + intros j Hj. simpl in Hj. assert (j = 0) by lia. subst j. simpl. lia.
    + intros i x Hi Hx. assert (i = 0) by lia. subst i.
      destruct (loc_parts_row divs parts lo hi 0 x Ht Hne) as (Hin & Hge & Hle); [lia|exact Hx|].
      rewrite Nat.add_0_r in Hin.
      assert (Hsn : ls_start divs lo < length parts) by lia.
      pose proof (row_lo divs parts _ _ Ht Hsn Hin) as Hr1. pose proof (row_hi_weak divs parts _ _ Ht Hsn Hin) as Hr2.
      assert (Hr3 : (nth (S (ls_start divs lo)) divs 0 <= nth (length divs - 1) divs 0)%Z)
        by (apply sortedZ_le; [assumption|lia|lia]).
      unfold row_ok. rewrite E, Nat.sub_diag.
      change (nth 0 [ls_istart divs lo hi; Z.max (ls_istart divs lo hi) (ls_istop divs lo hi)] 0%Z)
        with (ls_istart divs lo hi).
      change (nth 1 [ls_istart divs lo hi; Z.max (ls_istart divs lo hi) (ls_istop divs lo hi)] 0%Z)
        with (Z.max (ls_istart divs lo hi) (ls_istop divs lo hi)).
      assert (Ha : (ls_istart divs lo hi <= x)%Z).
      { unfold ls_istart. destruct lo as [l|].
        - simpl in Hge. apply Z.leb_le in Hge. exact Hge.
        - simpl in Hr1. destruct hi as [h|]; lia. }
      assert (Hb : (x <= Z.max (ls_istart divs lo hi) (ls_istop divs lo hi))%Z).
      { unfold ls_istop at 1. destruct hi as [h|].
        - simpl in Hle. apply Z.leb_le in Hle. lia.
        - simpl in E. rewrite <- E in Hr2. replace (S (length divs - 2)) with (length divs - 1) in Hr2 by lia.
          destruct lo as [l|]; lia. }
      split; [exact Ha|]. right. split; [reflexivity|exact Hb].
  - (* several touched partitions *)
    set (start := ls_start divs lo) in *. set (stop := ls_stop divs lo hi) in *.
    set (k := stop - start).
    assert (Hk1 : 1 <= k) by (unfold k; lia).
    assert (Hk : S start + k <= length divs) by (unfold k; lia).
    set (ds := match lo with
               | Some _ => Z.max (ls_istart divs lo hi) (nth start divs 0%Z)
               | None => hd 0%Z divs
               end).
    set (de := match hi with
               | Some _ => Z.min (ls_istop divs lo hi) (nth (S stop) divs 0%Z)
               | None => last divs 0%Z
               end).
    fold k.
    pose proof (locdiv_length divs start k ds de Hk) as HDl.
    pose proof (locdiv_nth0 divs start k ds de) as HD0.
    pose proof (locdiv_nth_mid divs start k ds de Hk) as HDm.
    pose proof (locdiv_nth_last divs start k ds de Hk) as HDe.
    cbv zeta in HDl, HD0, HDm, HDe.
    set (D := [ds] ++ firstn k (skipn (S start) divs) ++ [de]) in *.
    (* bounds of the two end divisions *)
    assert (Hds1 : (ds <= nth (S start) divs 0)%Z).
    { assert (Hss : (nth start divs 0 <= nth (S start) divs 0)%Z) by (apply Hs; lia).
      unfold ds. destruct lo as [l|].
      - assert ((l < nth (S (ls_start divs (Some l))) divs 0)%Z)
          by (apply start_upper; [assumption|lia|fold start; lia]).
        fold start in H. unfold ls_istart. lia.
      - rewrite Hhd. simpl in start. subst start. exact Hss. }
    assert (Hde1 : (nth stop divs 0 <= de)%Z).
    { assert (Hss : (nth stop divs 0 <= nth (S stop) divs 0)%Z) by (apply Hs; lia).
      unfold de. destruct hi as [h|].
      - assert ((nth (ls_stop divs lo (Some h)) divs 0 <= h)%Z)
          by (apply stop_lower; [assumption|lia|fold start stop; lia]).
        fold stop in H. unfold ls_istop. lia.
      - rewrite Hlast. simpl in stop. subst stop.
        replace (length divs - 1) with (S (length divs - 2)) by lia. exact Hss. }
    split; [rewrite HDl; lia|]. split.
    + intros j Hj. rewrite HDl in Hj.
      destruct (Nat.eq_dec j 0) as [J0|J0].
      * subst j. rewrite HD0, (HDm 1) by lia. replace (start + 1) with (S start) by lia. exact Hds1.
      * destruct (Nat.eq_dec j k) as [Jk|Jk].
        -- subst j. rewrite HDe, (HDm k) by lia. replace (start + k) with stop by (unfold k; lia). exact Hde1.
        -- rewrite (HDm j), (HDm (S j)) by lia. replace (start + S j) with (S (start + j)) by lia.
           apply Hs. unfold k in *. lia.
    + intros i x Hi Hx.
      destruct (loc_parts_row divs parts lo hi i x Ht Hne) as (Hin & Hge & Hle);
        [fold start stop k; lia|exact Hx|].
      fold start in Hin.
      assert (Hsn : start + i < length parts) by (unfold k in *; lia).
      pose proof (row_lo divs parts _ _ Ht Hsn Hin) as Hr1. pose proof (row_hi_weak divs parts _ _ Ht Hsn Hin) as Hr2.
      unfold row_ok. split.
      * destruct (Nat.eq_dec i 0) as [I0|I0].
        -- subst i. rewrite HD0. rewrite Nat.add_0_r in Hr1. unfold ds. destruct lo as [l|].
           ++ simpl in Hge. apply Z.leb_le in Hge. unfold ls_istart. lia.
           ++ rewrite Hhd. simpl in start. subst start. exact Hr1.
        -- rewrite (HDm i) by lia. exact Hr1.
      * destruct (Nat.eq_dec i k) as [Ik|Ik].
        -- right. split; [lia|]. subst i. rewrite HDe.
           replace (start + k) with stop in Hr2 by (unfold k; lia).
           unfold de. destruct hi as [h|].
           ++ simpl in Hle. apply Z.leb_le in Hle. unfold ls_istop. lia.
           ++ rewrite Hlast. simpl in stop. subst stop.
              replace (length divs - 1) with (S (length divs - 2)) by lia. exact Hr2.
        -- left. rewrite (HDm (S i)) by lia. replace (start + S i) with (S (start + i)) by lia.
           apply (row_hi_strict divs parts _ _ Ht); [unfold k in *; lia|exact Hin].
Qed.

(* 3. as stated *)
Theorem loc_truthful : forall divs parts lo hi,
  truthful divs parts -> parts <> [] -> slice_ok lo hi ->
  truthful (loc_divisions divs lo hi) (loc_parts divs parts lo hi).
Proof. intros divs parts lo hi Ht Hne _. apply loc_truthful_gen; assumption. Qed.

(* ================================================================== *)
(* 6. output partition i comes from input partition start + i (D42)     *)
(* ================================================================== *)

Theorem loc_partition_source : forall divs parts lo hi i x,
  i <= ls_stop divs lo hi - ls_start divs lo ->
  In x (nth i (loc_parts divs parts lo hi) []) -> In x (nth (ls_start divs lo + i) parts []).
Proof.
  intros divs parts lo hi i x Hi Hx.
  rewrite loc_parts_nth in Hx by exact Hi.
  unfold ls_part in Hx.
  destruct (ls_stop divs lo hi =? ls_start divs lo); [apply filter_In in Hx; tauto|].
  destruct (i =? 0); [apply filter_In in Hx; tauto|].
  destruct (ls_start divs lo + i =? ls_stop divs lo hi); [apply filter_In in Hx; tauto|exact Hx].
Qed.

Theorem loc_unshifted_refuted : exists divs parts lo hi,
  truthful divs parts /\ slice_ok lo hi /\ loc_parts_unshifted divs parts lo hi <> loc_parts divs parts lo hi.
Proof.
  exists [0; 10; 20; 30]%Z, [[0; 5]; [10; 15]; [20; 25]]%Z, (Some 12%Z), (Some 22%Z).
  split; [apply truthfulb_spec; vm_compute; reflexivity|].
  split; [simpl; lia|].
  vm_compute. discriminate.
Qed.

(* ================================================================== *)
(* 7. index arithmetic on divisions (Binop._divisions, fix D69)          *)
(* ================================================================== *)

Theorem map_increasing_truthful : forall f divs parts,
  strictly_increasing_fn f -> truthful divs parts -> truthful (map f divs) (map_parts f parts).
Proof.
  intros f divs parts Hf (Hl & Hs & Hr).
  assert (Hnd : forall a b, (a <= b)%Z -> (f a <= f b)%Z).
  { intros a b Hab. destruct (Z.eq_dec a b) as [->|Hne]; [lia|].
    assert ((f a < f b)%Z) by (apply Hf; lia). lia. }
  unfold truthful, map_parts. rewrite !map_length.
  split; [exact Hl|]. split.
  - intros i Hi. rewrite map_length in Hi.
    rewrite (nth_map_lt f divs i 0%Z 0%Z) by lia.
    rewrite (nth_map_lt f divs (S i) 0%Z 0%Z) by lia.
    apply Hnd. apply Hs. exact Hi.
  - intros i y Hi Hy.
    rewrite (nth_map_lt (map f) parts i [] []) in Hy by exact Hi.
    apply in_map_iff in Hy. destruct Hy as (x & <- & Hx).
    destruct (Hr i x Hi Hx) as [H1 H2].
    unfold row_ok.
    rewrite (nth_map_lt f divs i 0%Z 0%Z) by lia.
    rewrite (nth_map_lt f divs (S i) 0%Z 0%Z) by lia.
    split; [apply Hnd; exact H1|].
    destruct H2 as [H2|[H2 H3]].
    + left. apply Hf. exact H2.
    + right. split; [exact H2|apply Hnd; exact H3].
Qed.

Theorem map_nondecreasing_refuted : exists f divs parts,
  nondecreasing_fn f /\ truthful divs parts /\ ~ truthful (map f divs) (map_parts f parts).
Proof.
  exists (fun x => (x / 7)%Z), [0; 8; 14]%Z, [[0; 7]; [8; 14]]%Z.
  split; [intros x y Hxy; apply Z.div_le_mono; lia|].
  split; [apply truthfulb_spec; vm_compute; reflexivity|].
  apply truthfulb_false. vm_compute. reflexivity.
Qed.

Theorem map_nonmonotone_refuted : exists (f : Z -> Z) divs parts,
  truthful divs parts /\ ~ truthful (map f divs) (map_parts f parts).
Proof.
  exists (fun x => (x mod 30)%Z), [0; 20; 40]%Z, [[0; 10]; [25; 35]]%Z.
  split; [apply truthfulb_spec; vm_compute; reflexivity|].
  apply truthfulb_false. vm_compute. reflexivity.
Qed.

Print Assumptions part_of_bound.
Print Assumptions part_of_lower.
Print Assumptions part_of_upper.
Print Assumptions loc_rows.
Print Assumptions loc_reversed_empty.
Print Assumptions loc_truthful.
Print Assumptions loc_partition_source.
Print Assumptions loc_unshifted_refuted.
Print Assumptions map_increasing_truthful.
Print Assumptions map_nondecreasing_refuted.
Print Assumptions map_nonmonotone_refuted.
Print Assumptions loc_rows_gen.
Print Assumptions loc_truthful_gen.
