(* Fusion.v -- executable partition-level model of dask-expr blockwise fusion (C14).
   Mirrors  Blockwise._task/_blockwise_arg/_broadcast_dep,  Fused._task/_execute_task/_broadcast_dep.
   No proofs here (see FusionProofs.v).  Stdlib only.

   ENCODING (what the Python exporter must produce)
   ------------------------------------------------
   * Every expression is identified by a number standing for `expr._name`.
   * An Expr operand of a plain Blockwise member is exported as
         ADep op._name op.npartitions op.ndim
     i.e. every *reference* carries the partition count and ndim of the referenced
     expression; a plain member additionally carries its own `ndim`.  The broadcast decision of
     `Blockwise._broadcast_dep(dep) = dep.npartitions == 1 and dep.ndim < self.ndim` is then made
     by the MODEL (function [bcast]), locally, from exported facts only.  [valid_group] checks that the
     partition count recorded on a reference equals the one of the referenced member / dependency.
     Non-Expr operands are `ALit z` (z = any numbering of the literal).
   * `MPlain name npart ndim args`   : ordinary Blockwise expr; its task is  (op, *args)  which the
     model writes `TCall name args'` (the callable + kwargs are determined by the expression name).
   * `MFused name npart group deps`  : a nested `Fused`; group = `exprs` (root first, in the order of
     the Python list), deps = [(d._name, d.npartitions) for d in fused.dependencies()] (duplicates
     kept, order kept: position j is the placeholder "_j").
     `Fused._broadcast_dep(dep) = dep.npartitions == 1` only needs npartitions.
   * Keys of the inner dict: KName n = the bare string `n`, KPart n i = the tuple (n, i),
     KPlace j = the string "_j".
   * A Python dict is an association list with replace-in-place-or-append ([dset]); `dict.update`
     is [dupdate].  Insertion order is kept, so the exporter may compare `list(graph.items())`.

   MODELLING NOTES
   * [eval_key]: `Fused._execute_task` binds graph["_j"] = j-th dependency value, modelled by
     KPlace j |-> nth_error depvals j.  A key that is referenced but unbound yields None (error);
     real dask.core.get would silently pass the literal tuple/string instead - always wrong, so
     treating it as an error is the stricter reading.
   * The reference semantics [eval_member] works on the FLATTENED group ([flat]): nested Fused
     expressions are replaced by their original members (FA entry = "value of its root"), names that
     are not members are external: ext name idx.
   * [valid_group] additionally requires (because Fused._task needs it, see FusionProofs examples):
       - every dependency name of a nested Fused is NOT a member written earlier in `exprs`
         (graph.update(subgraph) would replace that member's task by the nested placeholder);
       - a nested Fused member has npartitions = npartitions of the root (Fused._task writes
         (name, index), never (name, 0)).
*)
From DX Require Import Base.

Set Implicit Arguments.

(* ---------- syntax ---------- *)
Inductive barg := ALit (z : nat) | ADep (name npart ndim : nat).
Inductive member :=
| MPlain (name npart ndim : nat) (args : list barg)
| MFused (name npart : nat) (group : list member) (deps : list (nat * nat)).

Inductive gkey := KName (n : nat) | KPart (n i : nat) | KPlace (j : nat).
Inductive garg := GKey (k : gkey) | GLit (z : nat).
Inductive gtask := TAlias (k : gkey) | TCall (fn : nat) (args : list garg).
Definition subgraph := list (gkey * gtask).

Definition mname (m : member) : nat :=
  match m with MPlain n _ _ _ => n | MFused n _ _ _ => n end.
Definition mnpart (m : member) : nat :=
  match m with MPlain _ np _ _ => np | MFused _ np _ _ => np end.
Definition root_name (group : list member) : nat :=
  match group with [] => 0 | m :: _ => mname m end.
Definition npart_of_root (group : list member) : nat :=
  match group with [] => 0 | m :: _ => mnpart m end.

(* ---------- dict semantics ---------- *)
Definition gkey_eqb (a b : gkey) : bool :=
  match a, b with
  | KName n, KName m => n =? m
  | KPart n i, KPart m j => (n =? m) && (i =? j)
  | KPlace i, KPlace j => i =? j
  | _, _ => false
  end.

Fixpoint lookup (k : gkey) (g : subgraph) : option gtask :=
  match g with
  | [] => None
  | (k', v) :: r => if gkey_eqb k k' then Some v else lookup k r
  end.

(* d[k] = v : replace in place if present, else append *)
Fixpoint dset (k : gkey) (v : gtask) (g : subgraph) : subgraph :=
  match g with
  | [] => [(k, v)]
  | (k', v') :: r => if gkey_eqb k k' then (k, v) :: r else (k', v') :: dset k v r
  end.

(* d.update(sub) *)
Definition dupdate (g sub : subgraph) : subgraph :=
  fold_left (fun acc kv => dset (fst kv) (snd kv) acc) sub g.

(* ---------- Blockwise._blockwise_arg / _task ---------- *)
(* Blockwise._broadcast_dep: dep.npartitions == 1 and dep.ndim < self.ndim *)
Definition bcast (dnpart dndim self_ndim : nat) : bool := (dnpart =? 1) && (dndim <? self_ndim).
(* Fused._broadcast_dep: dep.npartitions == 1 ; the index used for such an expression *)
Definition bidx (npart index : nat) : nat := if npart =? 1 then 0 else index.

Definition blockwise_arg (self_ndim index : nat) (a : barg) : garg :=
  match a with
  | ALit z => GLit z
  | ADep d dnp dnd => GKey (KPart d (if bcast dnp dnd self_ndim then 0 else index))
  end.

(* Blockwise._task(index) of the plain member `name` *)
Definition plain_task (name ndim : nat) (args : list barg) (index : nat) : gtask :=
  TCall name (map (blockwise_arg ndim index) args).

(* Fused._blockwise_arg(dep, index) for an external dependency (name, npartitions) *)
Definition dep_key (index : nat) (d : nat * nat) : gkey := KPart (fst d) (bidx (snd d) index).

(* for i, dep in enumerate(self.dependencies()): graph[self._blockwise_arg(dep, index)] = "_" + str(i) *)
Fixpoint add_deps (index : nat) (ds : list (nat * nat)) (j : nat) (g : subgraph) : subgraph :=
  match ds with
  | [] => g
  | d :: r => add_deps index r (S j) (dset (dep_key index d) (TAlias (KPlace j)) g)
  end.

(* one iteration of `for _expr in self.exprs:` *)
Fixpoint add_member (index : nat) (m : member) {struct m} : subgraph -> subgraph :=
  match m with
  | MPlain n np nd args =>
      fun g => let i := bidx np index in dset (KPart n i) (plain_task n nd args i) g
  | MFused n np grp ds =>
      fun g =>
      let sub := add_deps index ds 0
                   (fold_left (fun acc x => add_member index x acc) grp
                              [(KName n, TAlias (KPart (root_name grp) index))]) in
      dset (KPart n index) (TAlias (KName n)) (dupdate g sub)
  end.

(* the dict built by Fused._task(index) *)
Definition fused_graph (self_name : nat) (group : list member) (deps : list (nat * nat)) (index : nat)
  : subgraph :=
  add_deps index deps 0
    (fold_left (fun acc x => add_member index x acc) group
               [(KName self_name, TAlias (KPart (root_name group) index))]).

(* (graph, name, *deps) of the task tuple (Fused._execute_task, graph, name, *deps) *)
Definition fused_task (self_name : nat) (group : list member) (deps : list (nat * nat)) (index : nat)
  : subgraph * gkey * list gkey :=
  (fused_graph self_name group deps index, KName self_name, map (dep_key index) deps).

(* WRONG variant (refutation target): placeholders bound BEFORE the members are written, so that a
   nested Fused's own "_i" numbering (brought in by graph.update) survives. *)
Definition fused_task_bad (self_name : nat) (group : list member) (deps : list (nat * nat)) (index : nat)
  : subgraph * gkey * list gkey :=
  (fold_left (fun acc x => add_member index x acc) group
     (add_deps index deps 0 [(KName self_name, TAlias (KPart (root_name group) index))]),
   KName self_name, map (dep_key index) deps).

(* ---------- flattened view of a group (the original, unfused expressions) ---------- *)
Inductive fentry :=
| FP (name npart ndim : nat) (args : list barg)                       (* plain member *)
| FA (name npart : nat) (root : nat) (deps : list (nat * nat)).       (* nested Fused = alias of its root *)

Fixpoint flat_m (m : member) : list fentry :=
  match m with
  | MPlain n np nd args => [FP n np nd args]
  | MFused n np grp ds => FA n np (root_name grp) ds :: flat_map flat_m grp
  end.
Definition flat (group : list member) : list fentry := flat_map flat_m group.

Definition ename (e : fentry) : nat := match e with FP n _ _ _ => n | FA n _ _ _ => n end.
Definition enpart (e : fentry) : nat := match e with FP _ np _ _ => np | FA _ np _ _ => np end.
Definition names (fl : list fentry) : list nat := map ename fl.
Definition mnames (m : member) : list nat := names (flat_m m).

Fixpoint find_entry (n : nat) (fl : list fentry) : option fentry :=
  match fl with
  | [] => None
  | e :: r => if ename e =? n then Some e else find_entry n r
  end.

Definition arg_deps (args : list barg) : list nat :=
  flat_map (fun a => match a with ALit _ => [] | ADep d _ _ => [d] end) args.
Definition entry_deps (e : fentry) : list nat :=
  match e with FP _ _ _ args => arg_deps args | FA _ _ r _ => [r] end.

(* ---------- semantics ---------- *)
Fixpoint map_opt {A B} (f : A -> option B) (l : list A) : option (list B) :=
  match l with
  | [] => Some []
  | x :: r => match f x, map_opt f r with
              | Some y, Some ys => Some (y :: ys)
              | _, _ => None
              end
  end.

Section Sem.
  Variable V : Type.
  Variable fn_sem : nat -> list V -> V.     (* uninterpreted operations *)
  Variable lit : nat -> V.                  (* value of a literal operand *)

  (* dask.core.get(graph, key) after `graph["_i"] = deps[i]` : pv = the dependency values *)
  Fixpoint eval_key (fuel : nat) (g : subgraph) (pv : list V) (k : gkey) : option V :=
    match fuel with
    | 0 => None
    | S f =>
        match k with
        | KPlace j => nth_error pv j
        | _ =>
            match lookup k g with
            | None => None
            | Some (TAlias k') => eval_key f g pv k'
            | Some (TCall fn args) =>
                match map_opt (fun a => match a with
                                        | GLit z => Some (lit z)
                                        | GKey k' => eval_key f g pv k'
                                        end) args with
                | Some vs => Some (fn_sem fn vs)
                | None => None
                end
            end
        end
    end.

  (* Fused._execute_task(graph, name, *deps) *)
  Definition exec_fused (t : subgraph * gkey * list gkey) (depvals : list V) (fuel : nat) : option V :=
    eval_key fuel (fst (fst t)) depvals (snd (fst t)).

  (* UNFUSED reference semantics on the flattened group: value of expression `name` at partition idx;
     names that are not members are external: ext name idx *)
  Variable ext : nat -> nat -> V.

  Fixpoint eval_flat (fuel : nat) (fl : list fentry) (name idx : nat) : option V :=
    match fuel with
    | 0 => None
    | S f =>
        match find_entry name fl with
        | None => Some (ext name idx)
        | Some (FP n np nd args) =>
            match map_opt (fun a => match a with
                                    | ALit z => Some (lit z)
                                    | ADep d dnp dnd =>
                                        eval_flat f fl d (if bcast dnp dnd nd then 0 else idx)
                                    end) args with
            | Some vs => Some (fn_sem n vs)
            | None => None
            end
        | Some (FA n np r ds) => eval_flat f fl r idx
        end
    end.

  Definition eval_member (group : list member) (name index fuel : nat) : option V :=
    eval_flat fuel (flat group) name index.

  (* values the scheduler substitutes for the external dependency keys of the task tuple *)
  Definition dep_values (keys : list gkey) : list V :=
    flat_map (fun k => match k with KPart d i => [ext d i] | _ => [] end) keys.
End Sem.

Definition group_size (group : list member) : nat := length (flat group).
Definition eval_fuel (group : list member) : nat := S (group_size group).
Definition exec_fuel (group : list member) : nat := 2 * group_size group + 3.

(* ---------- validity: what _fusion_pass (+ well-formedness of the unfused graph) must establish ---------- *)
Definition memb (n : nat) (l : list nat) : bool := existsb (Nat.eqb n) l.
Fixpoint nodupb (l : list nat) : bool :=
  match l with [] => true | x :: r => negb (memb x r) && nodupb r end.
Definition is_nil {A} (l : list A) : bool := match l with [] => true | _ => false end.

(* per-entry checks, global view.  NP = npartitions of the root. *)
Definition arg_ok (fl : list fentry) (deps : list (nat * nat)) (np nd : nat) (a : barg) : bool :=
  match a with
  | ALit _ => true
  | ADep d dnp dnd =>
      (* a non-broadcast operand is aligned with its consumer *)
      (bcast dnp dnd nd || (dnp =? np))
      (* the recorded npartitions is the real one; non-members are declared external deps *)
      && match find_entry d fl with
         | Some e => enpart e =? dnp
         | None => existsb (fun x => (fst x =? d) && (snd x =? dnp)) deps
         end
  end.
Definition entry_ok (fl : list fentry) (deps : list (nat * nat)) (NP : nat) (e : fentry) : bool :=
  match e with
  | FP n np nd args => ((np =? NP) || (np =? 1)) && forallb (arg_ok fl deps np nd) args
  | FA n np r ds =>
      (np =? NP) && match find_entry r fl with Some e' => enpart e' =? NP | None => false end
  end.

(* structural (per nesting level) checks *)
Section ForallAcc.
  Variable A : Type.
  Variable f : list nat -> A -> bool.
  Variable nm : A -> list nat.
  Fixpoint forall_acc (acc : list nat) (l : list A) : bool :=
    match l with [] => true | x :: r => f acc x && forall_acc (acc ++ nm x) r end.
End ForallAcc.

(* names of ALL dependencies declared by the nested Fused expressions of a flattened group *)
Definition adeps (fl : list fentry) : list nat :=
  flat_map (fun e => match e with FP _ _ _ _ => [] | FA _ _ _ ds => map fst ds end) fl.

(* sibs    = names available at this level: top-level names of all members of the level ++ names of the level's deps
   earlier = all names (recursively) of the members written BEFORE m at this level *)
Fixpoint struct_ok (sibs earlier : list nat) (m : member) {struct m} : bool :=
  match m with
  | MPlain n np nd args => forallb (fun d => memb d sibs) (arg_deps args)   (* operands are siblings or declared deps *)
  | MFused n np grp ds =>
      negb (is_nil grp)
      && forallb (fun d => memb (fst d) sibs) ds                      (* closed at the outer level *)
      (* graph.update(subgraph) writes a placeholder alias for every dependency of the nested Fused
         (and of Fused nested deeper): it must not clobber a member written earlier *)
      && forallb (fun d => negb (memb d earlier)) (adeps (flat_m (MFused n np grp ds)))
      && forallb (fun d => negb (memb (fst d) (names (flat_map flat_m grp)))) ds  (* deps are external to the nested group *)
      && forall_acc (struct_ok (map mname grp ++ map fst ds)) mnames [] grp
  end.
Definition level_ok (group : list member) (deps : list (nat * nat)) : bool :=
  forall_acc (struct_ok (map mname group ++ map fst deps)) mnames [] group.

(* acyclicity of the flattened group: Kahn-style rounds *)
Definition ready (fl : list fentry) (done : list nat) (e : fentry) : bool :=
  forallb (fun d => match find_entry d fl with None => true | Some _ => memb d done end) (entry_deps e).
Definition topo_step (fl : list fentry) (done : list nat) : list nat :=
  done ++ names (filter (fun e => negb (memb (ename e) done) && ready fl done e) fl).
Fixpoint topo_iter (n : nat) (fl : list fentry) (done : list nat) : list nat :=
  match n with 0 => done | S n' => topo_iter n' fl (topo_step fl done) end.
Definition acyclicb (fl : list fentry) : bool :=
  let done := topo_iter (length fl) fl [] in forallb (fun e => memb (ename e) done) fl.

Definition valid_group (group : list member) (deps : list (nat * nat)) : bool :=
  let fl := flat group in
  negb (is_nil group)
  && nodupb (names fl)
  && forallb (fun d => negb (memb (fst d) (names fl))) deps
  && forallb (entry_ok fl deps (npart_of_root group)) fl
  && level_ok group deps
  && acyclicb fl.

(* the name of the Fused expression itself must not be the name of a member *)
Definition self_fresh (self_name : nat) (group : list member) : bool :=
  negb (memb self_name (names (flat group))).
