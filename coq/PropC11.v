(* PropC11.v -- property C11: selecting partitions / head / tail commutes with the computation.
   Statements only.  Proved here: output-subset selection of every shuffle implementation (the subset
   holds exactly the rows routed to the requested partitions), and the divisions reported for partition
   selections / head / tail are truthful.  The per-source _filtered_task contracts and the push-through
   rules are covered by the differential sweep (partial). *)
From Coq Require Import Permutation.
From DX Require Import Base Shuffle ShuffleProofs Divisions DivisionsProofs.

Theorem C11_shuffle_output_subset : forall (payload : Type) (n_in n_out k stages : nat) (sel : list nat) (filtered : bool) (Ps : list (list (row payload))),
  length Ps = n_in -> 1 <= n_in -> n_in <= n_out -> 2 <= k -> n_in <= k ^ stages -> 1 <= stages ->
  (forall p, In p sel -> p < n_out) ->
  (forall P r, In P Ps -> In r P -> target r < n_out) ->
  exists outs, exec_shuffle (task_layer n_in n_out k stages sel filtered) Ps = Some outs /\
               length outs = length sel /\
               forall i, i < length sel -> Permutation (nth i outs []) (routed Ps (nth i sel 0)).
Proof. exact staged_route. Qed.
Print Assumptions C11_shuffle_output_subset.

Theorem C11_simple_shuffle_output_subset : forall (payload : Type) (n_in n_out : nat) (sel : list nat) (filtered : bool) (Ps : list (list (row payload))),
  length Ps = n_in -> (forall p, In p sel -> p < n_out) -> (forall P r, In P Ps -> In r P -> target r < n_out) ->
  exec_shuffle (simple_layer n_in n_out sel filtered) Ps = Some (map (routed Ps) sel).
Proof. exact simple_route. Qed.
Print Assumptions C11_simple_shuffle_output_subset.

Theorem C11_partitions_divisions_truthful : forall divs parts sel d',
  truthful divs parts -> (forall p, In p sel -> p < length parts) -> sel <> [] ->
  partitions_divisions divs sel = Some d' -> truthful d' (select_parts parts sel).
Proof. exact partitions_truthful. Qed.
Print Assumptions C11_partitions_divisions_truthful.
