(* PropC11.v -- property C11: selecting partitions / head / tail commutes with the computation.
   Statements only.  Proved here: output-subset selection of every shuffle implementation (the subset
   holds exactly the rows routed to the requested partitions), and the divisions reported for partition
   selections / head / tail are truthful.  The per-source _filtered_task contracts and the push-through
   rules are covered by the differential sweep (partial). *)
From Coq Require Import Permutation.
From DX Require Import Base Shuffle ShuffleProofs Divisions DivisionsProofs.

Theorem C11_shuffle_output_subset : forall (payload : Type) (n_in n_out k stages : nat) (sel : list nat) (filtered : bool) (Ps : list (list (row payload))),
  length Ps = n_in -> 1 <= n_in -> n_in <= n_out -> 2 <= k -> n_in <= k ^ stages -> 1 <= stages ->
  (forall p, In p sel -> p < n_out) ->
  (forall P r, In P Ps -> In r P -> target r < n_out) ->
  exists outs, exec_shuffle (task_layer n_in n_out k stages sel filtered) Ps = Some outs /\
               length outs = length sel /\
               forall i, i < length sel -> Permutation (nth i outs []) (routed Ps (nth i sel 0)).
Proof. exact staged_route. Qed.
Print Assumptions C11_shuffle_output_subset.

Theorem C11_simple_shuffle_output_subset : forall (payload : Type) (n_in n_out : nat) (sel : list nat) (filtered : bool) (Ps : list (list (row payload))),
  length Ps = n_in -> (forall p, In p sel -> p < n_out) -> (forall P r, In P Ps -> In r P -> target r < n_out) ->
  exec_shuffle (simple_layer n_in n_out sel filtered) Ps = Some (map (routed Ps) sel).
Proof. exact simple_route. Qed.
Print Assumptions C11_simple_shuffle_output_subset.

Theorem C11_partitions_divisions_truthful : forall divs parts sel d',
  truthful divs parts -> (forall p, In p sel -> p < length parts) -> sel <> [] ->
  partitions_divisions divs sel = Some d' -> truthful d' (select_parts parts sel).
Proof. exact partitions_truthful. Qed.
Print Assumptions C11_partitions_divisions_truthful.

(* T-SRC: the same statements about the method bodies translated from the current source (GeneratedSource.v) *)
From DX Require Import PySeq GeneratedSource SourceChecks.
Local Open Scope nat_scope.
Theorem C11_src_partitions_truthful : forall divs parts (sel : list nat) d',
  truthful divs parts -> (forall p, In p sel -> p < length parts) -> sel <> [] ->
  src_Partitions_divisions divs (zs sel) = Known d' -> truthful d' (select_parts parts sel).
Proof. exact src_partitions_truthful. Qed.
Print Assumptions C11_src_partitions_truthful.

Theorem C11_src_pushed_selection_is_selection : forall full (sel : list nat),
  src_PartitionsFiltered_divisions full true (zs sel) = src_Partitions_divisions full (zs sel).
Proof. intros. rewrite src_PartitionsFiltered_ok, src_Partitions_ok. reflexivity. Qed.
Print Assumptions C11_src_pushed_selection_is_selection.

Theorem C11_src_head_truthful : forall divs parts k nrows,
  truthful divs parts -> k <= length parts ->
  truthful (src_Head_divisions divs (Z.of_nat k)) (head_parts parts k nrows).
Proof. exact src_head_truthful. Qed.
Print Assumptions C11_src_head_truthful.

Theorem C11_src_tail_truthful : forall divs parts nrows,
  truthful divs parts -> parts <> [] -> truthful (src_Tail_divisions divs) (tail_parts parts nrows).
Proof. exact src_tail_truthful. Qed.
Print Assumptions C11_src_tail_truthful.

(* label slices: output partition i of df.loc[lo:hi] is computed from input partition start + i (defect D42: partitions[i] of a
   slice was pushed through as if it were input partition i) *)
From DX Require Import Loc LocProofs.
Theorem C11_loc_partition_source : forall divs parts lo hi i x,
  i <= ls_stop divs lo hi - ls_start divs lo ->
  In x (nth i (loc_parts divs parts lo hi) []) -> In x (nth (ls_start divs lo + i) parts []).
Proof. exact loc_partition_source. Qed.
Print Assumptions C11_loc_partition_source.

Theorem C11_loc_unshifted_refuted : exists divs parts lo hi,
  truthful divs parts /\ slice_ok lo hi /\ loc_parts_unshifted divs parts lo hi <> loc_parts divs parts lo hi.
Proof. exact loc_unshifted_refuted. Qed.
Print Assumptions C11_loc_unshifted_refuted.

(* nested heads / tails: the merge rule of the current source (_nested_selection, translated into GeneratedSource.v) is sound, and
   only the row counts may be merged with min -- the outer head's npartitions is irrelevant (seed C11_b) *)
From DX Require Import NestedHead SourceChecksHead.
Theorem C11_src_nested_head_sound : forall (A : Type) (parts : list (list A)) k (n1 n2 : nat) n,
  src_nested_selection (Z.of_nat n2) (Z.of_nat n1) = Some n ->
  firstn n2 (head_rows parts k n1) = head_rows parts k (Z.to_nat n).
Proof. exact src_nested_head_sound. Qed.
Print Assumptions C11_src_nested_head_sound.

Theorem C11_src_nested_head_neg_sound : forall (A : Type) (l : list A) (m1 m2 : nat) n, 1 <= m1 -> 1 <= m2 ->
  src_nested_selection (- Z.of_nat m2) (- Z.of_nat m1) = Some n ->
  head_neg (head_neg l m1) m2 = head_neg l (Z.to_nat (- n)).
Proof. exact src_nested_head_neg_sound. Qed.
Print Assumptions C11_src_nested_head_neg_sound.

Theorem C11_src_nested_tail_sound : forall (A : Type) (l : list A) (n1 n2 : nat) n,
  src_nested_selection (Z.of_nat n2) (Z.of_nat n1) = Some n ->
  tail_rows (tail_rows l n1) n2 = tail_rows l (Z.to_nat n).
Proof. exact src_nested_tail_sound. Qed.
Print Assumptions C11_src_nested_tail_sound.

Theorem C11_src_nested_mixed_not_merged : forall (n : nat) (m : nat), 1 <= m ->
  src_nested_selection (- Z.of_nat m) (Z.of_nat n) = None /\ src_nested_selection (Z.of_nat n) (- Z.of_nat m) = None.
Proof. exact src_nested_selection_mixed. Qed.
Print Assumptions C11_src_nested_mixed_not_merged.

Theorem C11_nested_head_min_npartitions_refuted : exists (parts : list (list nat)) k1 k2 n1 n2,
  firstn n2 (head_rows parts k1 n1) <> head_rows parts (Nat.min k2 k1) (Nat.min n2 n1).
Proof. exact nested_head_min_npartitions_refuted. Qed.
Print Assumptions C11_nested_head_min_npartitions_refuted.

(* positional selection (Select.v): the lowering of head(n, npartitions=k) -- head of each of the first k partitions, concatenate,
   head again -- returns exactly the first n rows of the first k partitions, for every n, k >= 1 and every partitioning (short and
   empty partitions included); without the second head it does not (k >= 2); tail(n) is the tail of the last partition;
   both commute with element-wise operations on co-partitioned operands (Head/Tail._simplify_down) but not with row filters;
   partition selections commute with element-wise operations and compose.  Tie: T-LAYER select_layer (shape of the real lowered
   expression and computed rows vs the extracted head_lowered / tail_lowered). *)
From DX Require Import Select SelectProofs.
Theorem C11_head_lowering_correct : forall A (n k : nat) (parts : list (list A)),
  1 <= k -> head_lowered n k parts = head_spec n k parts.
Proof. exact head_lowered_correct. Qed.
Print Assumptions C11_head_lowering_correct.

Theorem C11_head_without_second_head_refuted : exists (n k : nat) (parts : list (list nat)),
  2 <= k /\ head_lowered_no_second n k parts <> head_spec n k parts.
Proof. exact head_no_second_refuted. Qed.
Print Assumptions C11_head_without_second_head_refuted.

Theorem C11_tail_lowering_correct : forall A n (parts : list (list A)),
  parts <> [] -> tail_lowered n parts = tail_spec n parts.
Proof. exact tail_lowered_correct. Qed.
Print Assumptions C11_tail_lowering_correct.

Theorem C11_head_through_elemwise : forall A B C (f : A -> B -> C) n k (P1 : list (list A)) (P2 : list (list B)),
  same_shape P1 P2 ->
  head_spec n k (elemwise2 f P1 P2) = zipw f (head_spec n k P1) (head_spec n k P2).
Proof. exact head_spec_elemwise2. Qed.
Print Assumptions C11_head_through_elemwise.

Theorem C11_tail_through_elemwise : forall A B C (f : A -> B -> C) n (P1 : list (list A)) (P2 : list (list B)),
  same_shape P1 P2 ->
  tail_spec n (elemwise2 f P1 P2) = zipw f (tail_spec n P1) (tail_spec n P2).
Proof. exact tail_spec_elemwise2. Qed.
Print Assumptions C11_tail_through_elemwise.

Theorem C11_head_not_through_filter : exists (p : nat -> bool) n (l : list nat),
  head_rows n (filter p l) <> filter p (head_rows n l).
Proof. exact head_filter_refuted. Qed.
Print Assumptions C11_head_not_through_filter.

Theorem C11_select_through_elemwise : forall A B C (f : A -> B -> C) sel (P1 : list (list A)) (P2 : list (list B)),
  same_shape P1 P2 -> Forall (fun i => i < length P1) sel ->
  select sel (elemwise2 f P1 P2) = elemwise2 f (select sel P1) (select sel P2).
Proof. exact select_elemwise2. Qed.
Print Assumptions C11_select_through_elemwise.

Theorem C11_select_of_select : forall A (s1 s2 : list nat) (parts : list (list A)),
  Forall (fun i => i < length s1) s2 ->
  select s2 (select s1 parts) = select (map (fun i => nth i s1 0) s2) parts.
Proof. exact select_select. Qed.
Print Assumptions C11_select_of_select.

Theorem C11_head_is_selection_of_first_partitions : forall A n k (parts : list (list A)),
  head_spec n k parts = head_rows n (concat (select (seq 0 (Nat.min k (length parts))) parts)).
Proof. exact head_is_select. Qed.
Print Assumptions C11_head_is_selection_of_first_partitions.

(* head over a sorted collection (Head(SortValues) -> NFirst): the n smallest rows, computed as a tree reduction, are the first n
   rows of the first sorted partition whenever that partition holds at least n rows; when it is shorter the rewritten plan returns
   MORE rows (the globally smallest n) than the first partition holds -- the upstream-intended deviation, refuted as an equality *)
Theorem C11_sorted_head_is_nfirst : forall A (key : A -> Z) n (parts sp : list (list A)),
  sorted_partitioning key parts sp -> n <= length (hd [] sp) ->
  head_spec n 1 sp = nfirst_tree key n parts.
Proof. intros A key n parts sp H1 H2. rewrite nfirst_tree_correct. exact (head_of_sorted_is_nfirst A key n parts sp H1 H2). Qed.
Print Assumptions C11_sorted_head_is_nfirst.

Theorem C11_sorted_head_short_first_partition_refuted :
  exists (parts sp : list (list (Z * Z))) (n : nat),
    sorted_partitioning fst parts sp /\ length (hd [] sp) < n /\
    head_spec n 1 sp <> nfirst_spec fst n parts.
Proof. exact head_of_sorted_short_first_partition_refuted. Qed.
Print Assumptions C11_sorted_head_short_first_partition_refuted.
