(* DNF.v -- executable model of dask-expr `_DNF` (parquet filter push-down in disjunctive normal form).
   Definitions only; all proofs are in DNFProofs.v.  Stdlib only, no axioms. *)
From DX Require Import Base.

(* ------------------------------------------------------------------ *)
(* Syntax                                                              *)
(* ------------------------------------------------------------------ *)
Inductive cmp := CEq | CNe | CLt | CLe | CGt | CGe.
Record atom := { a_col : nat; a_op : cmp; a_val : Z }.      (* the tuple (column, op, value) *)

(* Predicate tree as the optimizer sees it.
   PCmp a      : `df[col] op val`          (EQ/NE/LT/LE/GT/GE with a Projection on the left, a non-Expr on the right)
   PCmpFlip a  : `val op df[col]`          (literal on the LEFT; a_op is the operator as written)
   POther      : anything else (column-vs-column, ~, isin, arithmetic, ...) *)
Inductive ptree :=
| PCmp (a : atom) | PCmpFlip (a : atom) | PAndT (l r : ptree) | POrT (l r : ptree) | POther.

(* `_Or` of `_And` of tuples.  Python uses frozensets; the model uses lists and compares them through [canon]. *)
Definition dnf := list (list atom).

(* ------------------------------------------------------------------ *)
(* Canonical form (= frozenset identity)                                *)
(* ------------------------------------------------------------------ *)
Definition cmp_idx (c : cmp) : nat :=
  match c with CEq => 0 | CNe => 1 | CLt => 2 | CLe => 3 | CGt => 4 | CGe => 5 end.

Definition atom_compare (a b : atom) : comparison :=
  match Nat.compare (a_col a) (a_col b) with
  | Eq => match Nat.compare (cmp_idx (a_op a)) (cmp_idx (a_op b)) with
          | Eq => Z.compare (a_val a) (a_val b)
          | o => o
          end
  | o => o
  end.

Fixpoint lex_compare {A : Type} (c : A -> A -> comparison) (l1 l2 : list A) : comparison :=
  match l1, l2 with
  | [], [] => Eq
  | [], _ :: _ => Lt
  | _ :: _, [] => Gt
  | x :: xs, y :: ys => match c x y with Eq => lex_compare c xs ys | o => o end
  end.

Definition conj_compare : list atom -> list atom -> comparison := lex_compare atom_compare.
Definition dnf_compare : dnf -> dnf -> comparison := lex_compare conj_compare.

(* insertion into a strictly increasing list, dropping duplicates *)
Fixpoint insu {A : Type} (c : A -> A -> comparison) (x : A) (l : list A) : list A :=
  match l with
  | [] => [x]
  | y :: t => match c x y with
              | Lt => x :: l
              | Eq => l
              | Gt => y :: insu c x t
              end
  end.
Definition sortu {A : Type} (c : A -> A -> comparison) (l : list A) : list A := fold_right (insu c) [] l.

Definition canon_conj (c : list atom) : list atom := sortu atom_compare c.
Definition canon (d : dnf) : dnf := sortu conj_compare (map canon_conj d).

(* frozenset equality `left == right` *)
Definition dnf_eqb (d1 d2 : dnf) : bool :=
  match dnf_compare (canon d1) (canon d2) with Eq => true | _ => false end.

(* the frozenset built from a two-element list `[left, right]`: one element when left == right *)
Definition set2 (l r : dnf) : list dnf := if dnf_eqb l r then [l] else [l; r].

(* ------------------------------------------------------------------ *)
(* normalize                                                           *)
(* ------------------------------------------------------------------ *)
(* `_Or(se for e in filters for se in normalize(e))` : flatten.  (normalize is the identity on an
   `_Or` of `_And`s of tuples, so the members are given already normalised.) *)
Definition normalize_or (ds : list dnf) : dnf := concat ds.

(* `for c in itertools.product( * [normalize(e) for e in filters]): _And(se for e in c for se in e)` *)
Definition normalize_and (ds : list dnf) : dnf :=
  fold_right (fun d acc => flat_map (fun c => map (fun c' => c ++ c') acc) d) [[]] ds.

(* `_DNF(x)._filters` : `if not filters: None`, otherwise the frozenset-of-frozensets *)
Definition mk (d : dnf) : option dnf :=
  match d with [] => None | _ :: _ => Some (canon d) end.

(* Python truthiness of `_filters` (None and the empty frozenset are falsy) *)
Definition truthy (o : option dnf) : bool :=
  match o with Some (_ :: _) => true | _ => false end.

(* ------------------------------------------------------------------ *)
(* extract_pq_filters                                                  *)
(* ------------------------------------------------------------------ *)
Definition is_ne (o : cmp) : bool := match o with CNe => true | _ => false end.

(* [ok a] : is the comparison class of leaf [a] in the first isinstance test of extract_pq_filters? *)
Fixpoint extract_gen (ok : atom -> bool) (t : ptree) : option dnf :=
  match t with
  | PCmp a => if ok a then mk [[a]]          (* first `if` : (column, op, value) -> _Or((_And((t,)),)) *)
              else None                      (* comparison class not in the isinstance tuple : `_filters` stays None *)
  | PCmpFlip _ => None                       (* the `elif` needs `not isinstance(left, Expr) and isinstance(left, Projection)` : never true *)
  | POther => None
  | PAndT l r =>
      let ol := extract_gen ok l in let or_ := extract_gen ok r in
      if truthy ol && truthy or_ then
        match ol, or_ with
        | Some dl, Some dr => mk (normalize_and (set2 dl dr))
        | _, _ => None
        end
      else None
  | POrT l r =>
      let ol := extract_gen ok l in let or_ := extract_gen ok r in
      if truthy ol && truthy or_ then
        match ol, or_ with
        | Some dl, Some dr => mk (normalize_or (set2 dl dr))
        | _, _ => None
        end
      else None
  end.

(* OLD behaviour, `isinstance(predicate_expr, (LE, GE, LT, GT, EQ, NE))` : kept only for the refutation *)
Definition extract_with_ne : ptree -> option dnf := extract_gen (fun _ => true).

(* FIXED behaviour, `isinstance(predicate_expr, (LE, GE, LT, GT, EQ))` : a `!=` leaf is not convertible
   (`_filters = None`), exactly like POther, and so poisons an enclosing And/Or *)
Definition ne_ok (a : atom) : bool := negb (is_ne (a_op a)).
Definition extract : ptree -> option dnf := extract_gen ne_ok.

(* ------------------------------------------------------------------ *)
(* combine                                                             *)
(* ------------------------------------------------------------------ *)
(* `_And([self._filters, other._filters])` normalised, both sides present *)
Definition combine' (d1 d2 : dnf) : dnf := canon (normalize_and (set2 d1 d2)).

(* `_DNF(other)` for an `other` that is not yet a _DNF : falsy -> None *)
Definition of_filters (o : option dnf) : option dnf :=
  match o with Some ((_ :: _) as d) => Some (canon d) | _ => None end.

Definition combine (o1 o2 : option dnf) : option dnf :=
  match of_filters o1, of_filters o2 with
  | None, o => o
  | o, None => o
  | Some d1, Some d2 => mk (normalize_and (set2 d1 d2))
  end.

(* `to_list_tuple` : List[List[Tuple]] ; on the list model it is the identity *)
Definition to_list_tuple (d : dnf) : list (list atom) := d.

(* ------------------------------------------------------------------ *)
(* Semantics                                                           *)
(* ------------------------------------------------------------------ *)
Definition cell := option Z.           (* None = missing (NaN / null) *)
Definition rowv := nat -> cell.        (* column -> value *)

Definition cmp_holds (o : cmp) (x v : Z) : bool :=
  match o with
  | CEq => Z.eqb x v
  | CNe => negb (Z.eqb x v)
  | CLt => Z.ltb x v
  | CLe => Z.leb x v
  | CGt => Z.ltb v x
  | CGe => Z.leb v x
  end.

(* pandas, float column with NaN: every comparison with NaN is False, except != which is True *)
Definition pandas_atom (a : atom) (r : rowv) : bool :=
  match r (a_col a) with
  | Some x => cmp_holds (a_op a) x (a_val a)
  | None => match a_op a with CNe => true | _ => false end
  end.

(* `val op col` is `col (flip op) val` *)
Definition flip_op (o : cmp) : cmp :=
  match o with CLt => CGt | CLe => CGe | CGt => CLt | CGe => CLe | CEq => CEq | CNe => CNe end.
Definition flip_atom (a : atom) : atom :=
  {| a_col := a_col a; a_op := flip_op (a_op a); a_val := a_val a |}.

Definition obind2 (f : bool -> bool -> bool) (x y : option bool) : option bool :=
  match x, y with Some a, Some b => Some (f a b) | _, _ => None end.

Fixpoint pandas_keep (t : ptree) (r : rowv) : option bool :=
  match t with
  | PCmp a => Some (pandas_atom a r)
  | PCmpFlip a => Some (pandas_atom (flip_atom a) r)
  | PAndT l r' => obind2 andb (pandas_keep l r) (pandas_keep r' r)
  | POrT l r' => obind2 orb (pandas_keep l r) (pandas_keep r' r)
  | POther => None
  end.

(* pyarrow: a comparison with null is null; Kleene and/or; a row is kept iff the filter is TRUE *)
Definition arrow_atom (a : atom) (r : rowv) : option bool :=
  match r (a_col a) with
  | Some x => Some (cmp_holds (a_op a) x (a_val a))
  | None => None
  end.

Definition kand (x y : option bool) : option bool :=
  match x, y with
  | Some false, _ => Some false
  | _, Some false => Some false
  | Some true, Some true => Some true
  | _, _ => None
  end.
Definition kor (x y : option bool) : option bool :=
  match x, y with
  | Some true, _ => Some true
  | _, Some true => Some true
  | Some false, Some false => Some false
  | _, _ => None
  end.

Definition arrow_conj (c : list atom) (r : rowv) : option bool :=
  fold_right (fun a acc => kand (arrow_atom a r) acc) (Some true) c.
Definition arrow_eval (d : dnf) (r : rowv) : option bool :=
  fold_right (fun c acc => kor (arrow_conj c r) acc) (Some false) d.
Definition arrow_keep (d : dnf) (r : rowv) : bool :=
  match arrow_eval d r with Some true => true | _ => false end.

(* filters as dask hands them on: None / falsy = no filter = keep every row *)
Definition arrow_keep_opt (o : option dnf) (r : rowv) : bool :=
  match o with Some ((_ :: _) as d) => arrow_keep d r | _ => true end.

(* ------------------------------------------------------------------ *)
(* Hypothetical: what the dead `elif` body would emit if its guard were repaired.
   `flip.get(op, op)` is keyed by the INSTANCE, the dict by classes, so the lookup always misses
   and the operator is emitted unflipped. *)
Definition dead_branch_atom (a : atom) : atom := a.
(* ------------------------------------------------------------------ *)

Definition mkatom (c : nat) (o : cmp) (v : Z) : atom := {| a_col := c; a_op := o; a_val := v |}.
