(* Pred.v -- model of the predicate algebra of dask_expr/_expr.py:
     rewrite_filters, _get_predicate_components, _convert_mapping, _replace_common_or_components
   A predicate is a tree of And/Or over opaque atoms (any other boolean-series expression).
   dask-expr identifies sub-predicates by `_name`; structurally equal expressions have equal names,
   so the dict keyed by name is modelled by structural equality (pred_eqb).
   Model only; proofs in PredProofs.v. *)
From DX Require Import Base.

Inductive pred := PAtom (n : nat) | PAnd (a b : pred) | POr (a b : pred).

Fixpoint pred_eqb (p q : pred) : bool :=
  match p, q with
  | PAtom n, PAtom m => n =? m
  | PAnd a b, PAnd c d => pred_eqb a c && pred_eqb b d
  | POr a b, POr c d => pred_eqb a c && pred_eqb b d
  | _, _ => false
  end.

(* _get_predicate_components(predicate, [], type_) : flatten nested nodes of one type, left to right *)
Fixpoint comps_or (p : pred) : list pred :=
  match p with POr a b => comps_or a ++ comps_or b | _ => [p] end.
Fixpoint comps_and (p : pred) : list pred :=
  match p with PAnd a b => comps_and a ++ comps_and b | _ => [p] end.

Definition mem (p : pred) (l : list pred) : bool := existsb (pred_eqb p) l.
(* dict(zip(names, comps)): first-insertion order, one entry per name *)
Fixpoint dedup_acc (seen l : list pred) : list pred :=
  match l with
  | [] => []
  | x :: r => if mem x seen then dedup_acc seen r else x :: dedup_acc (x :: seen) r
  end.
Definition dedup (l : list pred) : list pred := dedup_acc [] l.
Definition mapping (p : pred) : list pred := dedup (comps_and p).

(* x0 & x1 & ... : Python builds ((x0 & x1) & x2) ... *)
Definition conj (x0 : pred) (xs : list pred) : pred := fold_left PAnd xs x0.
Definition disj (x0 : pred) (xs : list pred) : pred := fold_left POr xs x0.

(* the loop over [mapping] + and_components with its early return:
   None = "a whole OR component is absorbed" (the function returns outer_component) *)
Fixpoint result_components (comps : list (list pred)) (repl : list pred) : option (list pred) :=
  match comps with
  | [] => Some []
  | comp :: rest =>
      match filter (fun c => negb (mem c repl)) comp with
      | [] => None
      | k0 :: ks =>
          match result_components rest repl with
          | None => None
          | Some r => Some (conj k0 ks :: r)
          end
      end
  end.

Definition replace_common (first : pred) (rest : list pred) : option pred :=
  let m := mapping first in
  let ands := map mapping rest in
  match filter (fun c => forallb (mem c) ands) m with
  | [] => None
  | r0 :: rs =>
      let repl := r0 :: rs in
      let outer := conj r0 rs in
      match result_components (m :: ands) repl with
      | None => Some outer
      | Some [] => Some outer      (* unreachable: m :: ands is non-empty *)
      | Some (c0 :: cs) => Some (PAnd outer (disj c0 cs))
      end
  end.

Definition rewrite_filters (p : pred) : pred :=
  match comps_or p with
  | [_] => p
  | first :: rest => match replace_common first rest with Some r => r | None => p end
  | [] => p
  end.

(* ---- three-valued (Kleene) semantics: nullable booleans; plain booleans are the T/F fragment ---- *)
Inductive k3 := KT | KF | KU.
Definition k3_and (a b : k3) : k3 :=
  match a, b with KF, _ => KF | _, KF => KF | KT, KT => KT | _, _ => KU end.
Definition k3_or (a b : k3) : k3 :=
  match a, b with KT, _ => KT | _, KT => KT | KF, KF => KF | _, _ => KU end.
Fixpoint eval (v : nat -> k3) (p : pred) : k3 :=
  match p with
  | PAtom n => v n
  | PAnd a b => k3_and (eval v a) (eval v b)
  | POr a b => k3_or (eval v a) (eval v b)
  end.
(* a filter keeps the rows whose predicate is True (NA counts as not selected) *)
Definition keeps (v : nat -> k3) (p : pred) : bool := match eval v p with KT => true | _ => false end.
