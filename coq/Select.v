(* Select.v -- positional row / partition selection (_expr.py: Head, BlockwiseHead, Tail, BlockwiseTail, Partitions;
   _reductions.py: NFirst / NLast / NSmallest as tree reductions with chunk = aggregate = "sort, keep the first n").

     Head._lower  (n rows, k partitions; k = -1 means all and is resolved to the partition count by the caller):
         frame = BlockwiseHead(Partitions(frame, [0..k)), n)                 # df.head(n) of each selected partition
         if k != 1: frame = BlockwiseHead(Repartition(frame, new_partitions=1), n)   # concatenate, head again
     Tail._lower:  BlockwiseTail(Partitions(frame, [npartitions - 1]), n)
     Head/Tail._simplify_down: pushed into the non-broadcast operands of an element-wise operation
     Head(SortValues) -> NFirst: n smallest rows of the whole collection (tree reduction)

   Rows are abstract; n is a natural number here (what pandas does for negative n is tied separately in the harness).
   Definitions only; theorems in SelectProofs.v.  Stdlib only, no axioms. *)
From DX Require Import Base.

Section Rows.
  Variable A : Type.

  (* df.head(n) / df.tail(n), n >= 0 *)
  Definition head_rows (n : nat) (l : list A) : list A := firstn n l.
  Definition tail_rows (n : nat) (l : list A) : list A := skipn (length l - n) l.

  (* what the property demands *)
  Definition head_spec (n k : nat) (parts : list (list A)) : list A := head_rows n (concat (firstn k parts)).
  Definition tail_spec (n : nat) (parts : list (list A)) : list A := tail_rows n (last parts []).

  (* Head._lower *)
  Definition head_lowered (n k : nat) (parts : list (list A)) : list A :=
    let per := map (head_rows n) (firstn k parts) in
    match k with
    | 1 => concat per
    | _ => head_rows n (concat per)
    end.
  (* a lowering that forgets the second head (concatenates the per-partition heads) *)
  Definition head_lowered_no_second (n k : nat) (parts : list (list A)) : list A :=
    concat (map (head_rows n) (firstn k parts)).
  (* a lowering that heads only after concatenating everything is right but reads whole partitions: not modelled *)

  (* Tail._lower *)
  Definition tail_lowered (n : nat) (parts : list (list A)) : list A :=
    concat (map (tail_rows n) (match parts with [] => [] | _ => [last parts []] end)).

  (* Partitions(frame, sel): partition numbers in the requested order, repeats allowed *)
  Definition select (sel : list nat) (parts : list (list A)) : list (list A) := map (fun i => nth i parts []) sel.
End Rows.
Arguments head_rows {A}. Arguments tail_rows {A}. Arguments head_spec {A}. Arguments tail_spec {A}.
Arguments head_lowered {A}. Arguments head_lowered_no_second {A}. Arguments tail_lowered {A}. Arguments select {A}.

(* element-wise operations: one output row per input row, from the rows at the same position *)
Definition elemwise1 {A B} (f : A -> B) (parts : list (list A)) : list (list B) := map (map f) parts.
Fixpoint zipw {A B C} (f : A -> B -> C) (l1 : list A) (l2 : list B) : list C :=
  match l1, l2 with
  | x :: r1, y :: r2 => f x y :: zipw f r1 r2
  | _, _ => []
  end.
Definition elemwise2 {A B C} (f : A -> B -> C) (P1 : list (list A)) (P2 : list (list B)) : list (list C) :=
  zipw (zipw f) P1 P2.
(* same partitioning of the same rows: what co-aligned operands have *)
Definition same_shape {A B} (P1 : list (list A)) (P2 : list (list B)) : Prop :=
  length P1 = length P2 /\ forall i, length (nth i P1 []) = length (nth i P2 []).
(* a row filter is NOT element-wise in this sense *)
Definition filter_parts {A} (p : A -> bool) (parts : list (list A)) : list (list A) := map (filter p) parts.

(* ---- sorted selections: NFirst / NSmallest as a tree reduction -------------------------------------------------- *)
(* stable insertion sort by an integer key *)
Section Sorted.
  Variable A : Type.
  Variable key : A -> Z.
  Fixpoint insert_sorted (x : A) (l : list A) : list A :=
    match l with
    | [] => [x]
    | y :: r => if (key x <=? key y)%Z then x :: l else y :: insert_sorted x r
    end.
  (* sort_values(kind="stable"): rows with equal keys keep their order *)
  Definition sort_rows (l : list A) : list A := fold_right (fun x acc => insert_sorted x acc) [] l.
  (* fold_right inserts the LAST row first and every row BEFORE the first row whose key is not smaller: rows with equal
     keys keep their input order *)

  (* chunk = aggregate = sort and keep the first n *)
  Definition nfirst_chunk (n : nat) (l : list A) : list A := firstn n (sort_rows l).
  (* one-level tree (split_every >= npartitions) and the general tree are the same function by TreeReduce.tree_layer_correct;
     here: chunk every partition, concatenate, aggregate *)
  Definition nfirst_tree (n : nat) (parts : list (list A)) : list A :=
    nfirst_chunk n (concat (map (nfirst_chunk n) parts)).
  Definition nfirst_spec (n : nat) (parts : list (list A)) : list A := firstn n (sort_rows (concat parts)).

  (* Head(SortValues(frame), n) -> NFirst(frame, n): the sorted collection is SOME partitioning `sorted_parts` of the sorted rows *)
  Definition sorted_partitioning (parts sorted_parts : list (list A)) : Prop :=
    concat sorted_parts = sort_rows (concat parts).
End Sorted.
Arguments insert_sorted {A}. Arguments sort_rows {A}. Arguments nfirst_chunk {A}. Arguments nfirst_tree {A}.
Arguments nfirst_spec {A}. Arguments sorted_partitioning {A}.
