(* PropC03.v -- property C03: a filter keeps exactly the rows that satisfy the user's predicate.
   Statements only; proofs in PredProofs.v (more are added as DNF / plan-rule proofs land). *)
From DX Require Import Base Pred PredProofs.

(* OR-factoring (rewrite_filters): for EVERY And/Or predicate tree and EVERY three-valued valuation of
   its atoms (nullable booleans; plain booleans are the T/F fragment) the rewritten predicate has the
   same value, hence keeps exactly the same rows. *)
Theorem C03_or_factoring_sound : forall (p : pred) (v : nat -> k3), eval v (rewrite_filters p) = eval v p.
Proof. exact or_factoring_sound. Qed.
Print Assumptions C03_or_factoring_sound.

Theorem C03_or_factoring_keeps_rows : forall p v, keeps v (rewrite_filters p) = keeps v p.
Proof. exact or_factoring_keeps. Qed.
Print Assumptions C03_or_factoring_keeps_rows.

(* handing a filter to the parquet reader in disjunctive normal form (shared with C18) *)
From DX Require Import DNF DNFProofs.
(* every predicate that is handed to the reader (null-dropping, Kleene): it keeps exactly the rows pandas keeps *)
Theorem C03_reader_filter_sound : forall t d r,
  extract t = Some d -> pandas_keep t r = Some (arrow_keep d r).
Proof. exact dnf_sound. Qed.
Print Assumptions C03_reader_filter_sound.
(* handing `!=` to the reader (the behaviour before the fix of defect D7) makes the statement FALSE: a row whose
   compared value is missing satisfies the pandas predicate but is dropped by the reader *)
Theorem C03_reader_filter_ne_refuted : exists t d r,
  extract_with_ne t = Some d /\ pandas_keep t r = Some true /\ arrow_keep d r = false.
Proof. exact dnf_with_ne_refuted. Qed.
Print Assumptions C03_reader_filter_ne_refuted.
(* the reader never returns a row the predicate rejects *)
Theorem C03_reader_filter_under_approx : forall t d r,
  extract t = Some d -> arrow_keep d r = true -> pandas_keep t r = Some true.
Proof. exact dnf_under_approx. Qed.
Print Assumptions C03_reader_filter_under_approx.

(* T-GEN: every class of the current source that switches on the generic "filter may be evaluated below me" rule
   (_filter_passthrough) is on the reviewed list (ClassTableFilterFlags.v); the table is regenerated from /repo on every run *)
From DX Require Import GeneratedClassTable ClassTableChecks ClassTableFilterFlags.
Theorem C03_filter_flags_reviewed : filter_flags_b = true.
Proof. exact filter_flags_reviewed. Qed.
Print Assumptions C03_filter_flags_reviewed.
