(* PropC13.v -- property C13: repartitioning preserves rows and order and honours the layout.
   Statements only; proofs live in RepartCount.v / RepartProofs.v. *)
From DX Require Import Base Repart RepartCount.

(* count-based, fewer partitions: ANY non-decreasing boundary list from 0 to the number of input
   partitions (this is the contract the float-computed boundaries are checked against on every run) *)
Theorem C13_fewer_preserves_rows : forall (row : Type) (P : list (list row)) (bs : list nat),
  chain 0 bs (length P) ->
  concat (exec_fewer (0 :: bs) P) = concat P /\ length (exec_fewer (0 :: bs) P) = length bs.
Proof. intros; split; [apply fewer_eq; assumption | apply fewer_count]. Qed.
Print Assumptions C13_fewer_preserves_rows.

(* count-based, more partitions: split_evenly enters as a hypothesis (pieces concatenate back) *)
Theorem C13_more_preserves_rows : forall (row : Type) (split : nat -> list row -> list (list row)),
  (forall k p, 1 <= k -> concat (split k p) = p) -> (forall k p, length (split k p) = k) ->
  forall n_out (P : list (list row)), 1 <= length P -> length P <= n_out ->
    concat (exec_more split (more_nsplits (length P) n_out) P) = concat P /\
    length (exec_more split (more_nsplits (length P) n_out) P) = n_out.
Proof.
  intros row split H1 H2 n_out P Hp Hle.
  destruct (more_nsplits_ok Hp Hle) as [Hl [Hpos Hsum]]. split.
  - apply more_eq; assumption.
  - unfold exec_more. rewrite map_length, more_layer_length by assumption. exact Hsum.
Qed.
Print Assumptions C13_more_preserves_rows.

(* divisions-based: the verified plan checker.  Whatever plan is produced (by the model or by the real
   planner -- every real plan met by the harness is fed to plan_ok), if plan_ok accepts it then on EVERY
   data set that respects the old divisions each output partition holds exactly the rows of its target
   range, in the original order (lists, not just multisets).  Unbounded in everything. *)
From DX Require Import RepartProofs.
Theorem C13_plan_check_sound : forall (row : Type) (idx : row -> Z) (a b : list Z) (pl : plan) (P : list (list row)),
  valid_divs a = true -> valid_divs b = true ->
  plan_ok a b pl = true ->
  respects idx a P -> parts_sorted idx P ->
  exec_plan idx P pl = spec_plan idx b P.
Proof. exact plan_ok_sound. Qed.
Print Assumptions C13_plan_check_sound.

(* the planner itself (model = line-by-line mirror of RepartitionDivisions._layer, compared with the real
   dict on every run): kernel-checked for ALL old/new division vectors over an 8-value ordered domain with
   at most 7 entries (492 vectors, 484 128 triples with force), repeated last values and single-value
   ranges included.  The bound is part of the statement; the unbounded generator theorem is the open part
   (C13 is therefore `partial` on the generator, full on the checker). *)
Theorem C13_planner_correct_bounded : forall (row : Type) (idx : row -> Z) a b force pl (P : list (list row)),
  valid_divs a = true -> valid_divs b = true ->
  (length a <= 7)%nat -> (length b <= 7)%nat ->
  (forall x, In x a -> (0 <= x < 8)%Z) -> (forall x, In x b -> (0 <= x < 8)%Z) ->
  repart_plan a b force = Some pl ->
  respects idx a P -> parts_sorted idx P ->
  exec_plan idx P pl = spec_plan idx b P.
Proof. exact repart_plan_correct_bounded. Qed.
Print Assumptions C13_planner_correct_bounded.

(* the planner, UNBOUNDED, for strictly increasing division vectors without force (the common case:
   any lengths, any values): the generated plan exists and is accepted by the verified checker, hence
   correct on every data set. What remains open (covered by the bounded theorem above and by the per-run
   certification of every real plan) is the unbounded statement for repeated last values and for force. *)
Theorem C13_planner_correct_strict : forall (row : Type) (idx : row -> Z) (a b : list Z) (P : list (list row)),
  strict_incr a = true -> strict_incr b = true -> (2 <= length a)%nat -> (2 <= length b)%nat ->
  nthZ a 0 = nthZ b 0 -> lastZ a = lastZ b ->
  respects idx a P -> parts_sorted idx P ->
  exists pl, repart_plan a b false = Some pl /\ exec_plan idx P pl = spec_plan idx b P.
Proof. exact repart_plan_correct_strict. Qed.
Print Assumptions C13_planner_correct_strict.
