(* PropC13.v -- property C13: repartitioning preserves rows and order and honours the layout.
   Statements only; proofs live in RepartCount.v / RepartProofs.v. *)
From DX Require Import Base Repart RepartCount.

(* count-based, fewer partitions: ANY non-decreasing boundary list from 0 to the number of input
   partitions (this is the contract the float-computed boundaries are checked against on every run) *)
Theorem C13_fewer_preserves_rows : forall (row : Type) (P : list (list row)) (bs : list nat),
  chain 0 bs (length P) ->
  concat (exec_fewer (0 :: bs) P) = concat P /\ length (exec_fewer (0 :: bs) P) = length bs.
Proof. intros; split; [apply fewer_eq; assumption | apply fewer_count]. Qed.
Print Assumptions C13_fewer_preserves_rows.

(* count-based, more partitions: split_evenly enters as a hypothesis (pieces concatenate back) *)
Theorem C13_more_preserves_rows : forall (row : Type) (split : nat -> list row -> list (list row)),
  (forall k p, 1 <= k -> concat (split k p) = p) -> (forall k p, length (split k p) = k) ->
  forall n_out (P : list (list row)), 1 <= length P -> length P <= n_out ->
    concat (exec_more split (more_nsplits (length P) n_out) P) = concat P /\
    length (exec_more split (more_nsplits (length P) n_out) P) = n_out.
Proof.
  intros row split H1 H2 n_out P Hp Hle.
  destruct (more_nsplits_ok Hp Hle) as [Hl [Hpos Hsum]]. split.
  - apply more_eq; assumption.
  - unfold exec_more. rewrite map_length, more_layer_length by assumption. exact Hsum.
Qed.
Print Assumptions C13_more_preserves_rows.
