(* PropC10.v -- property C10: execution knobs change performance only.
   Only statements closed by [exact]; the proofs live in the model files. *)
From DX Require Import Base TreeReduce.

(* split_every (False or any k >= 2) never changes a tree reduction: for every list of
   chunk results the generated layer computes exactly what one flat aggregate computes. *)
Theorem C10_split_every_irrelevant :
  forall (A R : Type) (combine : list A -> A) (aggregate : list A -> R),
    (forall ls : list (list A), (forall b, In b ls -> b <> []) -> aggregate (map combine ls) = aggregate (concat ls)) ->
    forall (d : A) (se : option nat) (xs : list A),
      (forall k, se = Some k -> 2 <= k) ->
      exists levels, tree_layer (length xs) se (length xs) = Some levels /\
                     exec_layer combine aggregate d levels xs = aggregate xs.
Proof. exact tree_layer_correct. Qed.
Print Assumptions C10_split_every_irrelevant.

Corollary C10_split_every_pair :
  forall (A R : Type) (combine : list A -> A) (aggregate : list A -> R),
    (forall ls : list (list A), (forall b, In b ls -> b <> []) -> aggregate (map combine ls) = aggregate (concat ls)) ->
    forall (d : A) (se1 se2 : option nat) (xs : list A),
      (forall k, se1 = Some k -> 2 <= k) -> (forall k, se2 = Some k -> 2 <= k) ->
      exists l1 l2, tree_layer (length xs) se1 (length xs) = Some l1 /\ tree_layer (length xs) se2 (length xs) = Some l2 /\
                    exec_layer combine aggregate d l1 xs = exec_layer combine aggregate d l2 xs.
Proof.
  intros A R c a H d se1 se2 xs H1 H2.
  destruct (@tree_layer_correct A R c a H d se1 xs H1) as [l1 [E1 Q1]].
  destruct (@tree_layer_correct A R c a H d se2 xs H2) as [l2 [E2 Q2]].
  exists l1, l2. repeat split; try assumption. congruence.
Qed.
Print Assumptions C10_split_every_pair.

(* shuffle staging (max_branch -> branch factor k and stage count): any two admissible stagings deliver, at
   every requested output position, the same rows up to order; the single-stage shuffle likewise *)
From Coq Require Import Permutation.
From DX Require Import Shuffle ShuffleProofs.
Theorem C10_max_branch_irrelevant : forall (payload : Type) (n_in n_out k1 s1 k2 s2 : nat) (sel : list nat) (f1 f2 : bool) (Ps : list (list (row payload))),
  length Ps = n_in -> 1 <= n_in -> n_in <= n_out ->
  2 <= k1 -> n_in <= k1 ^ s1 -> 1 <= s1 -> 2 <= k2 -> n_in <= k2 ^ s2 -> 1 <= s2 ->
  (forall p, In p sel -> p < n_out) -> (forall P r, In P Ps -> In r P -> target r < n_out) ->
  exists o1 o2, exec_shuffle (task_layer n_in n_out k1 s1 sel f1) Ps = Some o1 /\
                exec_shuffle (task_layer n_in n_out k2 s2 sel f2) Ps = Some o2 /\
                forall i, i < length sel -> Permutation (nth i o1 []) (nth i o2 []).
Proof.
  intros payload n_in n_out k1 s1 k2 s2 sel f1 f2 Ps Hl H1 H2 Hk1 Hp1 Hs1 Hk2 Hp2 Hs2 Hsel Ht.
  destruct (staged_route payload n_in n_out k1 s1 sel f1 Ps Hl H1 H2 Hk1 Hp1 Hs1 Hsel Ht) as [o1 [E1 [_ P1]]].
  destruct (staged_route payload n_in n_out k2 s2 sel f2 Ps Hl H1 H2 Hk2 Hp2 Hs2 Hsel Ht) as [o2 [E2 [_ P2]]].
  exists o1, o2. split; [exact E1|]. split; [exact E2|].
  intros i Hi. eapply Permutation_trans; [apply P1; exact Hi|]. apply Permutation_sym. apply P2. exact Hi.
Qed.
Print Assumptions C10_max_branch_irrelevant.

(* staged vs single-stage *)
Theorem C10_staged_vs_simple : forall (payload : Type) (n_in n_out k s : nat) (sel : list nat) (f1 f2 : bool) (Ps : list (list (row payload))),
  length Ps = n_in -> 1 <= n_in -> n_in <= n_out -> 2 <= k -> n_in <= k ^ s -> 1 <= s ->
  (forall p, In p sel -> p < n_out) -> (forall P r, In P Ps -> In r P -> target r < n_out) ->
  exists o1, exec_shuffle (task_layer n_in n_out k s sel f1) Ps = Some o1 /\
             exec_shuffle (simple_layer n_in n_out sel f2) Ps = Some (map (routed Ps) sel) /\
             forall i, i < length sel -> Permutation (nth i o1 []) (nth i (map (routed Ps) sel) []).
Proof.
  intros payload n_in n_out k s sel f1 f2 Ps Hl H1 H2 Hk Hp Hs Hsel Ht.
  destruct (staged_route payload n_in n_out k s sel f1 Ps Hl H1 H2 Hk Hp Hs Hsel Ht) as [o1 [E1 [_ P1]]].
  exists o1. split; [exact E1|]. split; [apply simple_route; assumption|].
  intros i Hi.
  assert (E : nth i (map (routed Ps) sel) [] = routed Ps (nth i sel 0)).
  { rewrite (nth_indep (map (routed Ps) sel) [] (routed Ps 0)); [apply map_nth|rewrite map_length; exact Hi]. }
  rewrite E. apply P1. exact Hi.
Qed.
Print Assumptions C10_staged_vs_simple.

(* the presorted fast path of set_index / sort_values (an automatic choice among algorithms): the divisions it reports are
   truthful exactly under the strict test max_i < min_{i+1}; the relaxed test is refuted *)
From DX Require Import Divisions MinMax MinMaxProofs.
Theorem C10_presorted_fast_path_truthful : forall l parts d,
  stats_ok l parts -> wf_stats l -> presorted_divisions l = Some d -> truthful d parts.
Proof. exact presorted_truthful. Qed.
Print Assumptions C10_presorted_fast_path_truthful.

Theorem C10_presorted_touching_refuted : exists l parts d,
  stats_ok l parts /\ wf_stats l /\ presorted_divisions_touching l = Some d /\ ~ truthful d parts.
Proof. exact presorted_touching_refuted. Qed.
Print Assumptions C10_presorted_touching_refuted.

(* sort_values / set_index: whatever divisions the planner computed (npartitions, upsample, quantile estimates -- the
   theorem quantifies over every division vector), rows are routed by `set_partitions_pre` (SetIndex.v, tied by T-LAYER
   `setindex_layer`) so that every key of an earlier output partition is <= (descending: >=) every key of a later one:
   sorting the partitions one by one gives a globally sorted frame, and (C06_set_index_partition_exact) no row is lost or
   duplicated.  The knobs therefore change the partition layout only. *)
From DX Require Import Divisions Loc SetIndex SetIndexProofs.
Theorem C10_sort_any_divisions_ordered : forall divs rows i j x y, 2 <= length divs -> keys_above divs rows ->
  i < j -> j < length divs - 1 ->
  In x (nth i (sp_parts divs rows) []) -> In y (nth j (sp_parts divs rows) []) -> (x <= y)%Z.
Proof. exact sort_partitions_ordered. Qed.
Print Assumptions C10_sort_any_divisions_ordered.

Theorem C10_sort_desc_any_divisions_ordered : forall divs rows i j x y, 2 <= length divs -> keys_above divs rows ->
  i < j -> j < length divs - 1 ->
  In x (nth i (sp_parts_desc divs rows) []) -> In y (nth j (sp_parts_desc divs rows) []) -> (y <= x)%Z.
Proof. exact sort_desc_partitions_ordered. Qed.
Print Assumptions C10_sort_desc_any_divisions_ordered.

Theorem C10_sort_below_refuted : exists divs rows i j x y, 2 <= length divs /\ i < j /\ j < length divs - 1 /\
  In x (nth i (sp_parts divs rows) []) /\ In y (nth j (sp_parts divs rows) []) /\ (y < x)%Z.
Proof. exact sort_partitions_below_refuted. Qed.
Print Assumptions C10_sort_below_refuted.
