(* PropC10.v -- property C10: execution knobs change performance only.
   Only statements closed by [exact]; the proofs live in the model files. *)
From DX Require Import Base TreeReduce.

(* split_every (False or any k >= 2) never changes a tree reduction: for every list of
   chunk results the generated layer computes exactly what one flat aggregate computes. *)
Theorem C10_split_every_irrelevant :
  forall (A R : Type) (combine : list A -> A) (aggregate : list A -> R),
    (forall ls : list (list A), (forall b, In b ls -> b <> []) -> aggregate (map combine ls) = aggregate (concat ls)) ->
    forall (d : A) (se : option nat) (xs : list A),
      (forall k, se = Some k -> 2 <= k) ->
      exists levels, tree_layer (length xs) se (length xs) = Some levels /\
                     exec_layer combine aggregate d levels xs = aggregate xs.
Proof. exact tree_layer_correct. Qed.
Print Assumptions C10_split_every_irrelevant.

Corollary C10_split_every_pair :
  forall (A R : Type) (combine : list A -> A) (aggregate : list A -> R),
    (forall ls : list (list A), (forall b, In b ls -> b <> []) -> aggregate (map combine ls) = aggregate (concat ls)) ->
    forall (d : A) (se1 se2 : option nat) (xs : list A),
      (forall k, se1 = Some k -> 2 <= k) -> (forall k, se2 = Some k -> 2 <= k) ->
      exists l1 l2, tree_layer (length xs) se1 (length xs) = Some l1 /\ tree_layer (length xs) se2 (length xs) = Some l2 /\
                    exec_layer combine aggregate d l1 xs = exec_layer combine aggregate d l2 xs.
Proof.
  intros A R c a H d se1 se2 xs H1 H2.
  destruct (@tree_layer_correct A R c a H d se1 xs H1) as [l1 [E1 Q1]].
  destruct (@tree_layer_correct A R c a H d se2 xs H2) as [l2 [E2 Q2]].
  exists l1, l2. repeat split; try assumption. congruence.
Qed.
Print Assumptions C10_split_every_pair.
