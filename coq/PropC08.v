(* PropC08.v -- property C08: expression names are deterministic and collision-free.  Statements only.
   Determinism across processes / hash seeds / construction order is observed by the harness (tokenize is
   external); what is proved: given a collision-free fixed-width token, names collide iff head and operands
   coincide, and -- over the class table regenerated from the source on every run -- no two classes share a
   static name head with the same arity unless the pair is on the reviewed list. *)
From Coq Require Import String.
From DX Require Import GeneratedClassTable ClassTableChecks Names.

Theorem C08_name_collision_iff : forall (Operands : Type) (tok : Operands -> string),
  (forall a b, tok a = tok b -> a = b) -> (forall a, String.length (tok a) = 32) ->
  forall h1 h2 o1 o2, name Operands tok h1 o1 = name Operands tok h2 o2 <-> (h1 = h2 /\ o1 = o2).
Proof. exact name_collision_iff. Qed.
Print Assumptions C08_name_collision_iff.

Theorem C08_heads_unambiguous : heads_unambiguous_b = true.
Proof. exact heads_unambiguous. Qed.
Print Assumptions C08_heads_unambiguous.
