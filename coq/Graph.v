(* Graph.v -- task graphs as dask executes them (keys + explicit dependencies), the verified
   well-formedness checker run on every exported real graph, and scheduling semantics.
   Keys are numbered by the exporter; the node list is given in a candidate topological order
   (the certificate); wf_check verifies it.  Model only; proofs in GraphProofs.v. *)
From DX Require Import Base.

Record gnode := { g_key : nat; g_deps : list nat }.
Definition graph := list gnode.

Definition keys_of (g : graph) : list nat := map g_key g.
Definition memn (k : nat) (l : list nat) : bool := existsb (Nat.eqb k) l.

(* every dependency of a node is defined EARLIER in the list; no key is defined twice *)
Fixpoint ordered (seen : list nat) (g : graph) : bool :=
  match g with
  | [] => true
  | n :: r => negb (memn (g_key n) seen) && forallb (fun d => memn d seen) (g_deps n) && ordered (g_key n :: seen) r
  end.
(* closed + acyclic + unambiguous + every requested output key is defined *)
Definition wf_check (g : graph) (outs : list nat) : bool :=
  ordered [] g && forallb (fun o => memn o (keys_of g)) outs.

Section Sched.
  Variable V : Type.
  Variable dV : V.
  (* the (pure) function each task applies to the values of its dependencies *)
  Variable fn : nat -> list V -> V.

  Definition store := list (nat * V).
  Fixpoint lookup (k : nat) (st : store) : option V :=
    match st with [] => None | (k', v) :: r => if k =? k' then Some v else lookup k r end.
  Definition get (st : store) (k : nat) : V := match lookup k st with Some v => v | None => dV end.
  Definition has (st : store) (k : nat) : bool := match lookup k st with Some _ => true | None => false end.

  Fixpoint node_of (g : graph) (k : nat) : option gnode :=
    match g with [] => None | n :: r => if k =? g_key n then Some n else node_of r k end.

  (* a worker may fire key k when it is a task of the graph, not computed yet, and all its
     dependencies are in the store; the result is committed atomically *)
  Definition ready (g : graph) (st : store) (k : nat) : bool :=
    match node_of g k with
    | Some n => negb (has st k) && forallb (has st) (g_deps n)
    | None => false
    end.
  Definition fire (g : graph) (st : store) (k : nat) : option store :=
    match node_of g k with
    | Some n => if ready g st k then Some ((k, fn k (map (get st) (g_deps n))) :: st) else None
    | None => None
    end.
  (* a schedule = the order in which results are committed (any number of workers) *)
  Fixpoint run (g : graph) (st : store) (ks : list nat) : option store :=
    match ks with
    | [] => Some st
    | k :: r => match fire g st k with Some st' => run g st' r | None => None end
    end.
  Definition complete (g : graph) (st : store) : bool := forallb (has st) (keys_of g).

  (* the canonical evaluation: list order *)
  Definition canon (g : graph) : store :=
    fold_left (fun st n => (g_key n, fn (g_key n) (map (get st) (g_deps n))) :: st) g [].
End Sched.
