(* ClassTableFilterFlags.v -- T-GEN obligation of property C03 *)
From Coq Require Import String List Bool.
From DX Require Import GeneratedClassTable ClassTableChecks.
Import ListNotations.
Open Scope string_scope.

(* ---- C03 / C06: classes that switch on a generic rewrite through a flag ----------------------- *)
(* filter pass-through: the filter may be evaluated below the operator.  Reviewed classes: value- and
   row-identity preserving operators (copy, rename of axis/series, string-storage conversion, to_frame),
   row rearrangements (repartition, shuffles, sorts) for row-wise predicates, Filter itself (squash schema S10),
   AsType (guarded by the lossless-cast test), ResetIndex / ToTimestamp (index only), parquet reader (dnf_sound). *)
Definition filter_passthrough_reviewed : list string := [
  "AddPrefixSeries"; "AddSuffixSeries"; "ArrowStringConversion"; "AsType"; "Filter"; "FilterAlign"; "RenameAxis"; "RenameSeries";
  "ResetIndex"; "ToFrame"; "ToFrameIndex"; "ToSeriesIndex"; "ToTimestamp"; "_DeepCopy";
  "Repartition"; "RepartitionDivisions"; "RepartitionFreq"; "RepartitionSize"; "RepartitionToFewer"; "RepartitionToMore";
  "DiskShuffle"; "P2PShuffle"; "RearrangeByColumn"; "SetIndex"; "SetPartition"; "Shuffle"; "ShuffleBase"; "SimpleShuffle"; "SortValues"; "TaskShuffle";
  "ReadParquetPyarrowFS" ].
Definition filter_flags_b : bool :=
  forallb (fun c => negb (c_filter_passthrough c) || mems (c_name c) filter_passthrough_reviewed) class_table.
Lemma filter_flags_reviewed : filter_flags_b = true.
Proof. vm_compute. reflexivity. Qed.

