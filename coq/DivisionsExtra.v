(* DivisionsExtra.v -- two general facts about reported divisions used by property C06 (defects D35, D36).
   Stdlib only, no axioms. *)
From DX Require Import Base Divisions DivisionsProofs.

(* Any partitionwise operation whose output partition i holds only index values of input partition i
   (filters, element-wise operations, head of each partition, an inner / left / semi join on the index against a
   broadcast frame, a cumulative operation) may report the divisions of its input. *)
Theorem truthful_subset : forall divs parts parts',
  truthful divs parts ->
  length parts' = length parts ->
  (forall i x, i < length parts -> In x (nth i parts' []) -> In x (nth i parts [])) ->
  truthful divs parts'.
Proof.
  intros divs parts parts' [Hlen [Hsorted Hrows]] Hl Hsub.
  split; [rewrite Hl; exact Hlen|].
  split; [exact Hsorted|].
  intros i x Hi Hin. rewrite Hl in *. apply Hrows; [exact Hi|]. apply Hsub; assumption.
Qed.

(* ... but it must be the divisions of the input it really reads.  Once a partition selection has been pushed into a
   source, the divisions of the whole source (what X._divisions() of a partition-filtered X returns) have the wrong
   number of entries for every selection that is not as long as the source: defect D35. *)
Theorem raw_divisions_of_selection_refuted : forall divs parts sel,
  truthful divs parts ->
  length sel <> length parts ->
  ~ truthful divs (select_parts parts sel).
Proof.
  intros divs parts sel [Hlen _] Hne [Hlen' _].
  unfold select_parts in Hlen'. rewrite map_length in Hlen'. lia.
Qed.

(* while the selected divisions are right for the same derived node *)
Theorem derived_of_selection_truthful : forall divs parts sel d' parts',
  truthful divs parts ->
  (forall p, In p sel -> p < length parts) -> sel <> [] ->
  partitions_divisions divs sel = Some d' ->
  length parts' = length sel ->
  (forall i x, i < length sel -> In x (nth i parts' []) -> In x (nth i (select_parts parts sel) [])) ->
  truthful d' parts'.
Proof.
  intros divs parts sel d' parts' Ht Hb Hne Hd Hl Hsub.
  apply truthful_subset with (parts := select_parts parts sel).
  - eapply partitions_truthful; eauto.
  - unfold select_parts. rewrite map_length. exact Hl.
  - unfold select_parts at 1. rewrite map_length. exact Hsub.
Qed.

(* An index merge lowered to a partitionwise broadcast keeps the partitioning of the multi-partition side; reporting
   the merged divisions of both sides (one more entry whenever the single-partition side reaches beyond) has the
   wrong count: defect D36. *)
Theorem longer_divisions_refuted : forall divs divs' parts,
  truthful divs parts -> length divs' <> length divs -> ~ truthful divs' parts.
Proof.
  intros divs divs' parts [Hlen _] Hne [Hlen' _]. lia.
Qed.
