(* ClassTableDivisions.v -- T-GEN obligation of property C06 over the table regenerated from the source
   (kept apart from ClassTableChecks.v so that only the C06 check depends on it). *)
From Coq Require Import String List Bool.
Import ListNotations.
Open Scope string_scope.
From DX Require Import GeneratedClassTable.

(* ---- C06 / C11: divisions of operands are read through the `divisions` property ----------------- *)
(* `X._divisions()` of a partition-filtered X is the divisions of the whole source (Divisions.v:
   C06_raw_divisions_of_selection_refuted says such a report is wrong for every proper selection); only the
   `divisions` property applies the selection.  Every call `<receiver>._divisions()` on something other than
   self / super() found in the source must be one of these reviewed sites, where the unfiltered divisions are wanted
   (FusedIO indexes them by absolute partition numbers: fused_truthful) or the receiver cannot be partition-filtered
   (the root of a fused group of >= 2 blockwise members is never a source). *)
Definition raw_divisions_reviewed : list (string * (string * string)) := [
  ("FusedIO", ("_divisions", "expr"));     (* expr = self.operand("_expr"), after a test of expr.divisions (the selected ones) *)
  ("Fused", ("_divisions", "self.exprs[0]"));
  (* np.add(index, x) etc. delegate to the divisions rule of a freshly built Add/Sub/Mul/Div node: a Binop, never a source *)
  ("UFuncElemwise", ("_divisions", "binops[func](*self.args)")) ].
Definition raw_divisions_b : bool :=
  forallb (fun r => existsb (fun a => String.eqb (fst a) (fst r) && String.eqb (fst (snd a)) (fst (snd r)) && String.eqb (snd (snd a)) (snd (snd r)))
                            raw_divisions_reviewed) raw_divisions_calls.
Lemma raw_divisions_reviewed_ok : raw_divisions_b = true.
Proof. vm_compute. reflexivity. Qed.
