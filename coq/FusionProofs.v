(* FusionProofs.v -- C14: the task built by Fused._task computes exactly the partition the unfused
   root would.  Stdlib only, no axioms. *)
From DX Require Import Base Fusion.

Set Implicit Arguments.

(* ====================== 1. dict lemmas ====================== *)
Lemma gkey_eqb_eq : forall a b, gkey_eqb a b = true <-> a = b.
Proof.
  destruct a, b; simpl; split; intros H; try discriminate; try congruence.
  - apply Nat.eqb_eq in H; congruence.
  - inversion H; apply Nat.eqb_refl.
  - apply andb_true_iff in H as [H1 H2]. apply Nat.eqb_eq in H1, H2. congruence.
  - inversion H; rewrite !Nat.eqb_refl; reflexivity.
  - apply Nat.eqb_eq in H; congruence.
  - inversion H; apply Nat.eqb_refl.
Qed.
Lemma gkey_eqb_refl : forall a, gkey_eqb a a = true.
Proof. intros; apply gkey_eqb_eq; reflexivity. Qed.
Lemma gkey_eqb_neq : forall a b, a <> b -> gkey_eqb a b = false.
Proof. intros a b H. destruct (gkey_eqb a b) eqn:E; [apply gkey_eqb_eq in E; contradiction|reflexivity]. Qed.
Lemma gkey_eq_dec : forall a b : gkey, {a = b} + {a <> b}.
Proof. intros a b. destruct (gkey_eqb a b) eqn:E; [left; apply gkey_eqb_eq; exact E|right; intros H; apply gkey_eqb_eq in H; congruence]. Qed.

Lemma lookup_dset_same : forall k v g, lookup k (dset k v g) = Some v.
Proof.
  induction g as [|[k' v'] r IH]; simpl.
  - rewrite gkey_eqb_refl; reflexivity.
  - destruct (gkey_eqb k k') eqn:E; simpl; [rewrite gkey_eqb_refl; reflexivity|rewrite E; exact IH].
Qed.
Lemma lookup_dset_other : forall k k' v g, k' <> k -> lookup k' (dset k v g) = lookup k' g.
Proof.
  induction g as [|[k0 v0] r IH]; simpl; intros Hn.
  - rewrite gkey_eqb_neq by exact Hn; reflexivity.
  - destruct (gkey_eqb k k0) eqn:E; simpl.
    + apply gkey_eqb_eq in E; subst k0. rewrite gkey_eqb_neq by exact Hn; reflexivity.
    + destruct (gkey_eqb k' k0); [reflexivity|apply IH; exact Hn].
Qed.

Definition NoDupK (g : subgraph) : Prop := NoDup (map fst g).

Lemma lookup_none_iff : forall k g, lookup k g = None <-> ~ In k (map fst g).
Proof.
  induction g as [|[k' v'] r IH]; simpl; [tauto|].
  destruct (gkey_eqb k k') eqn:E.
  - apply gkey_eqb_eq in E; subst. split; [discriminate|intros H; exfalso; apply H; left; reflexivity].
  - rewrite IH. split; [intros H [H1|H1]; [subst; rewrite gkey_eqb_refl in E; discriminate|tauto]|tauto].
Qed.

Lemma dset_keys : forall k v g k', In k' (map fst (dset k v g)) <-> k' = k \/ In k' (map fst g).
Proof.
  induction g as [|[k0 v0] r IH]; simpl; intros k'.
  - intuition.
  - destruct (gkey_eqb k k0) eqn:E; simpl.
    + apply gkey_eqb_eq in E; subst. intuition.
    + rewrite IH. intuition.
Qed.

Lemma dset_nodup : forall k v g, NoDupK g -> NoDupK (dset k v g).
Proof.
  unfold NoDupK. induction g as [|[k0 v0] r IH]; simpl; intros H.
  - constructor; [intros []|constructor].
  - inversion H; subst. destruct (gkey_eqb k k0) eqn:E; simpl.
    + apply gkey_eqb_eq in E; subst. constructor; assumption.
    + constructor; [|apply IH; assumption].
      rewrite dset_keys. intros [->|Hin]; [rewrite gkey_eqb_refl in E; discriminate|contradiction].
Qed.

Lemma lookup_dupdate : forall k sub g, NoDupK sub ->
  lookup k (dupdate g sub) = match lookup k sub with Some v => Some v | None => lookup k g end.
Proof.
  unfold dupdate, NoDupK. induction sub as [|[k1 v1] r IH]; simpl; intros g H; [reflexivity|].
  inversion H; subst. rewrite IH by assumption.
  destruct (gkey_eqb k k1) eqn:E.
  - apply gkey_eqb_eq in E; subst k1.
    assert (Hn : lookup k r = None) by (apply lookup_none_iff; assumption).
    rewrite Hn. apply lookup_dset_same.
  - destruct (lookup k r); [reflexivity|].
    apply lookup_dset_other. intros ->. rewrite gkey_eqb_refl in E; discriminate.
Qed.

(* ====================== 2. structure of the generated graph ====================== *)
Section MemberInd.
  Variable P : member -> Prop.
  Hypothesis HP : forall n np nd args, P (MPlain n np nd args).
  Hypothesis HF : forall n np grp ds, Forall P grp -> P (MFused n np grp ds).
  Fixpoint member_ind' (m : member) : P m :=
    match m with
    | MPlain n np nd args => HP n np nd args
    | MFused n np grp ds =>
        HF n np ds ((fix go (l : list member) : Forall P l :=
                       match l with
                       | [] => Forall_nil _
                       | x :: r => Forall_cons _ (member_ind' x) (go r)
                       end) grp)
    end.
End MemberInd.

Definition addm (index : nat) := fun (acc : subgraph) (x : member) => add_member index x acc.

Lemma add_member_fused : forall index n np grp ds g,
  add_member index (MFused n np grp ds) g
  = dset (KPart n index) (TAlias (KName n)) (dupdate g (fused_graph n grp ds index)).
Proof. reflexivity. Qed.

Lemma dupdate_nodup : forall sub g, NoDupK g -> NoDupK (dupdate g sub).
Proof.
  unfold dupdate. induction sub as [|[k v] r IH]; simpl; intros g H; [exact H|].
  apply IH. apply dset_nodup. exact H.
Qed.
Lemma add_member_nodup : forall index m g, NoDupK g -> NoDupK (add_member index m g).
Proof.
  intros index [n np nd args|n np grp ds] g H.
  - simpl. apply dset_nodup; exact H.
  - rewrite add_member_fused. apply dset_nodup. apply dupdate_nodup. exact H.
Qed.
Lemma fold_addm_nodup : forall index grp g, NoDupK g -> NoDupK (fold_left (addm index) grp g).
Proof.
  induction grp as [|x r IH]; simpl; intros g H; [exact H|].
  apply IH. apply add_member_nodup. exact H.
Qed.
Lemma add_deps_nodup : forall index ds j g, NoDupK g -> NoDupK (add_deps index ds j g).
Proof.
  induction ds as [|d r IH]; simpl; intros j g H; [exact H|].
  apply IH. apply dset_nodup. exact H.
Qed.
Lemma fused_graph_nodup : forall n grp ds index, NoDupK (fused_graph n grp ds index).
Proof.
  intros. unfold fused_graph. apply add_deps_nodup.
  apply (fold_addm_nodup index grp). unfold NoDupK. simpl. constructor; [intros []|constructor].
Qed.

Lemma add_deps_other : forall index k ds j g,
  (forall d, In d ds -> dep_key index d <> k) ->
  lookup k (add_deps index ds j g) = lookup k g.
Proof.
  induction ds as [|d r IH]; simpl; intros j g H; [reflexivity|].
  rewrite IH by (intros; apply H; right; assumption).
  apply lookup_dset_other. intros ->. apply (H d); [left; reflexivity|reflexivity].
Qed.

Lemma add_deps_hit : forall index ds j g d, In d ds ->
  exists p d', nth_error ds p = Some d' /\ dep_key index d' = dep_key index d /\
               lookup (dep_key index d) (add_deps index ds j g) = Some (TAlias (KPlace (j + p))).
Proof.
  induction ds as [|d0 r IH]; intros j g d Hin; [inversion Hin|].
  simpl.
  destruct (existsb (fun d' => gkey_eqb (dep_key index d') (dep_key index d)) r) eqn:E.
  - apply existsb_exists in E as [d' [Hin' Hk]]. apply gkey_eqb_eq in Hk.
    destruct (IH (S j) (dset (dep_key index d0) (TAlias (KPlace j)) g) d' Hin') as [p [d'' [Hn [Hk' Hl]]]].
    exists (S p), d''. split; [exact Hn|]. split; [congruence|].
    rewrite <- Hk, Hl. f_equal; f_equal; f_equal; lia.
  - assert (Hall : forall d', In d' r -> dep_key index d' <> dep_key index d).
    { intros d' Hin' Heq.
      assert (existsb (fun d' => gkey_eqb (dep_key index d') (dep_key index d)) r = true).
      { apply existsb_exists. exists d'. split; [exact Hin'|apply gkey_eqb_eq; exact Heq]. }
      congruence. }
    destruct Hin as [->|Hin].
    + exists 0, d. split; [reflexivity|]. split; [reflexivity|].
      rewrite add_deps_other by exact Hall. rewrite lookup_dset_same. f_equal; f_equal; f_equal; lia.
    + exfalso. apply (Hall d Hin). reflexivity.
Qed.

(* key name *)
Definition kn (k : gkey) : option nat :=
  match k with KName n => Some n | KPart n _ => Some n | KPlace _ => None end.

(* over-approximation of the keys written by add_member *)
Definition touches (m : member) (k : gkey) : Prop :=
  match k with
  | KName n => In n (mnames m)
  | KPart n _ => In n (mnames m) \/ In n (adeps (flat_m m))
  | KPlace _ => False
  end.

Lemma names_app : forall a b, names (a ++ b) = names a ++ names b.
Proof. intros; unfold names; apply map_app. Qed.
Lemma adeps_app : forall a b, adeps (a ++ b) = adeps a ++ adeps b.
Proof. intros; unfold adeps; apply flat_map_app. Qed.

Lemma touches_sub : forall n np grp ds x k, In x grp -> touches x k -> touches (MFused n np grp ds) k.
Proof.
  intros n np grp ds x k Hin Ht.
  assert (Hn : forall z, In z (mnames x) -> In z (mnames (MFused n np grp ds))).
  { intros z Hz. unfold mnames in *. simpl. right. unfold names in *.
    apply in_map_iff in Hz as [e [He Hin']]. apply in_map_iff. exists e. split; [exact He|].
    apply in_flat_map. exists x. split; assumption. }
  assert (Hd : forall z, In z (adeps (flat_m x)) -> In z (adeps (flat_m (MFused n np grp ds)))).
  { intros z Hz. simpl. apply in_or_app. right. unfold adeps in *.
    apply in_flat_map in Hz as [e [He Hin']]. apply in_flat_map. exists e. split; [|exact Hin'].
    apply in_flat_map. exists x. split; assumption. }
  destruct k; simpl in *; [auto| destruct Ht; auto | exact Ht].
Qed.

Lemma fold_frame0 : forall index k grp,
  Forall (fun x => forall g, ~ touches x k -> lookup k (add_member index x g) = lookup k g) grp ->
  (forall x, In x grp -> ~ touches x k) ->
  forall g, lookup k (fold_left (addm index) grp g) = lookup k g.
Proof.
  induction grp as [|x r IH]; intros HF Hnt g; [reflexivity|].
  inversion HF; subst. simpl. rewrite IH; [|assumption|intros; apply Hnt; right; assumption].
  unfold addm at 1. apply H1. apply Hnt. left; reflexivity.
Qed.

Lemma add_member_frame : forall index m g k, ~ touches m k -> lookup k (add_member index m g) = lookup k g.
Proof.
  intros index m. induction m as [n np nd args|n np grp ds IH] using member_ind'; intros g k Hnt.
  - simpl. apply lookup_dset_other. intros ->. apply Hnt. simpl. left. left. reflexivity.
  - rewrite add_member_fused.
    assert (HnF : k <> KPart n index).
    { intros ->. apply Hnt. simpl. left. left. reflexivity. }
    rewrite lookup_dset_other by exact HnF.
    rewrite lookup_dupdate by apply fused_graph_nodup.
    assert (Hsub : lookup k (fused_graph n grp ds index) = None).
    { unfold fused_graph. rewrite add_deps_other.
      - change (fun acc x => add_member index x acc) with (addm index).
        rewrite fold_frame0.
        + simpl. rewrite gkey_eqb_neq; [reflexivity|].
          intros ->. apply Hnt. simpl. left. reflexivity.
        + eapply Forall_impl; [|exact IH]. intros x Hx g0 Hn0. apply Hx. exact Hn0.
        + intros x Hin Ht. apply Hnt. eapply touches_sub; eassumption.
      - intros d Hin Heq. apply Hnt. rewrite <- Heq. unfold dep_key. simpl. right.
        apply in_or_app. left. apply in_map. exact Hin. }
    rewrite Hsub. reflexivity.
Qed.

(* ====================== 3. every (nested) member has its expected binding ====================== *)
Lemma memb_In : forall n l, memb n l = true <-> In n l.
Proof.
  intros. unfold memb. rewrite existsb_exists. split.
  - intros [x [H1 H2]]. apply Nat.eqb_eq in H2. subst. exact H1.
  - intros H. exists n. split; [exact H|apply Nat.eqb_refl].
Qed.
Lemma memb_false : forall n l, memb n l = false <-> ~ In n l.
Proof. intros. rewrite <- memb_In. destruct (memb n l); split; congruence. Qed.
Lemma nodupb_NoDup : forall l, nodupb l = true -> NoDup l.
Proof.
  induction l as [|x r IH]; simpl; intros H; [constructor|].
  apply andb_true_iff in H as [H1 H2]. constructor; [|apply IH; exact H2].
  apply memb_false. destruct (memb x r); [discriminate|reflexivity].
Qed.

Definition eexp (index : nat) (e : fentry) : list (gkey * gtask) :=
  match e with
  | FP n np nd args => [(KPart n (bidx np index), plain_task n nd args (bidx np index))]
  | FA n np r ds => [(KPart n index, TAlias (KName n)); (KName n, TAlias (KPart r index))]
  end.
Definition holds (index : nat) (g : subgraph) (e : fentry) : Prop :=
  forall k v, In (k, v) (eexp index e) -> lookup k g = Some v.

Lemma eexp_kn : forall index e k v, In (k, v) (eexp index e) -> kn k = Some (ename e).
Proof.
  intros index [n np nd args|n np r ds] k v H; simpl in H.
  - destruct H as [H|[]]. inversion H; reflexivity.
  - destruct H as [H|[H|[]]]; inversion H; reflexivity.
Qed.

Lemma holds_frame : forall index g g' e,
  (forall k, kn k = Some (ename e) -> lookup k g' = lookup k g) -> holds index g e -> holds index g' e.
Proof.
  intros index g g' e Hf Hh k v Hin. rewrite Hf; [apply Hh; exact Hin|eapply eexp_kn; exact Hin].
Qed.
Lemma holds_mono : forall index g g' e,
  (forall k v, kn k = Some (ename e) -> lookup k g = Some v -> lookup k g' = Some v) ->
  holds index g e -> holds index g' e.
Proof.
  intros index g g' e Hf Hh k v Hin. apply Hf; [eapply eexp_kn; exact Hin|apply Hh; exact Hin].
Qed.

Lemma struct_ok_fused : forall sibs earlier n np grp ds,
  struct_ok sibs earlier (MFused n np grp ds) =
  negb (is_nil grp)
  && forallb (fun d => memb (fst d) sibs) ds
  && forallb (fun d => negb (memb d earlier)) (adeps (flat_m (MFused n np grp ds)))
  && forallb (fun d => negb (memb (fst d) (names (flat_map flat_m grp)))) ds
  && forall_acc (struct_ok (map mname grp ++ map fst ds)) mnames [] grp.
Proof. reflexivity. Qed.

Lemma struct_ok_earlier : forall sibs earlier x, struct_ok sibs earlier x = true ->
  forall n, In n (adeps (flat_m x)) -> ~ In n earlier.
Proof.
  intros sibs earlier [n0 np nd args|n0 np grp ds] H n Hin.
  - simpl in Hin. contradiction.
  - rewrite struct_ok_fused in H. rewrite !andb_true_iff in H.
    destruct H as [[[[_ _] H] _] _]. rewrite forallb_forall in H. specialize (H n Hin).
    apply memb_false. destruct (memb n earlier); [discriminate|reflexivity].
Qed.

Lemma not_touches : forall x k n, kn k = Some n -> ~ In n (mnames x) -> ~ In n (adeps (flat_m x)) -> ~ touches x k.
Proof.
  intros x [m|m i|j] n Hk H1 H2; simpl in *; try discriminate; inversion Hk; subst; tauto.
Qed.

Lemma flat_cons : forall x r, flat (x :: r) = flat_m x ++ flat r.
Proof. reflexivity. Qed.

Lemma fold_frame : forall index r sibs acc g n k, kn k = Some n ->
  forall_acc (struct_ok sibs) mnames acc r = true -> In n acc -> ~ In n (names (flat r)) ->
  lookup k (fold_left (addm index) r g) = lookup k g.
Proof.
  induction r as [|x r IH]; intros sibs acc g n k Hk Hacc Hin Hnin; [reflexivity|].
  simpl in Hacc. apply andb_true_iff in Hacc as [Hx Hr].
  rewrite flat_cons, names_app in Hnin.
  simpl. rewrite (IH sibs (acc ++ mnames x) _ n k Hk Hr).
  - unfold addm at 1. apply add_member_frame. eapply not_touches; [exact Hk| |].
    + intros H; apply Hnin; apply in_or_app; left; exact H.
    + intros H. eapply struct_ok_earlier; eassumption.
  - apply in_or_app; left; exact Hin.
  - intros H; apply Hnin; apply in_or_app; right; exact H.
Qed.

Definition MemberGood (index : nat) (m : member) : Prop :=
  forall sibs earlier g, struct_ok sibs earlier m = true -> NoDup (mnames m) ->
  forall e, In e (flat_m m) -> holds index (add_member index m g) e.

Lemma NoDup_app_l : forall (A : Type) (a b : list A), NoDup (a ++ b) -> NoDup a.
Proof. induction a; simpl; intros b H; [constructor|]. inversion H; subst. constructor; [intros Hi; apply H2; apply in_or_app; left; exact Hi|eapply IHa; eassumption]. Qed.
Lemma NoDup_app_r : forall (A : Type) (a b : list A), NoDup (a ++ b) -> NoDup b.
Proof. induction a; simpl; intros b H; [exact H|]. inversion H; subst. apply IHa; assumption. Qed.
Lemma NoDup_app_disj : forall (A : Type) (a b : list A) x, NoDup (a ++ b) -> In x a -> ~ In x b.
Proof.
  induction a; simpl; intros b x H Hin; [contradiction|]. inversion H; subst.
  destruct Hin as [->|Hin]; [intros Hb; apply H2; apply in_or_app; right; exact Hb|eapply IHa; eassumption].
Qed.

Lemma level_holds : forall index grp, Forall (MemberGood index) grp ->
  forall sibs acc g0 ds j, forall_acc (struct_ok sibs) mnames acc grp = true ->
  NoDup (names (flat grp)) -> (forall d, In d ds -> ~ In (fst d) (names (flat grp))) ->
  forall e, In e (flat grp) -> holds index (add_deps index ds j (fold_left (addm index) grp g0)) e.
Proof.
  intros index grp HF sibs acc g0 ds j Hacc Hnd Hds e Hin.
  apply holds_frame with (g := fold_left (addm index) grp g0).
  { intros k Hk. apply add_deps_other. intros d Hd Heq. apply (Hds d Hd).
    rewrite <- Heq in Hk. simpl in Hk. inversion Hk as [Hk']. rewrite Hk'. unfold names. apply in_map. exact Hin. }
  clear Hds ds j.
  revert acc g0 Hacc Hnd e Hin.
  induction HF as [|x r Hx HF IH]; intros acc g0 Hacc Hnd e Hin; [inversion Hin|].
  simpl in Hacc. apply andb_true_iff in Hacc as [Hsx Hr].
  rewrite flat_cons, names_app in Hnd. rewrite flat_cons in Hin.
  simpl. apply in_app_or in Hin as [Hin|Hin].
  - apply holds_frame with (g := add_member index x g0).
    + intros k Hk. unfold addm at 2. eapply fold_frame; [exact Hk|exact Hr| |].
      * apply in_or_app; right. apply in_map; exact Hin.
      * eapply NoDup_app_disj; [exact Hnd|]. apply in_map; exact Hin.
    + eapply Hx; [exact Hsx|eapply NoDup_app_l; exact Hnd|exact Hin].
  - eapply IH; [exact Hr|eapply NoDup_app_r; exact Hnd|exact Hin].
Qed.

Lemma member_good : forall index m, MemberGood index m.
Proof.
  intros index m. induction m as [n np nd args|n np grp ds IH] using member_ind';
    intros sibs earlier g Hs Hnd e Hin.
  - simpl in Hin. destruct Hin as [<-|[]]. intros k v Hkv. simpl in Hkv. destruct Hkv as [Hkv|[]].
    inversion Hkv; subst. simpl. apply lookup_dset_same.
  - rewrite struct_ok_fused in Hs. rewrite !andb_true_iff in Hs.
    destruct Hs as [[[[_ _] _] Hdis] Hlev].
    unfold mnames in Hnd. simpl in Hnd. inversion Hnd as [|? ? HnF Hnd']; subst.
    rewrite add_member_fused.
    assert (Hsubn : NoDupK (fused_graph n grp ds index)) by apply fused_graph_nodup.
    simpl in Hin. destruct Hin as [<-|Hin].
    + intros k v Hkv. simpl in Hkv. destruct Hkv as [Hkv|[Hkv|[]]]; inversion Hkv; subst.
      * apply lookup_dset_same.
      * rewrite lookup_dset_other by discriminate.
        rewrite lookup_dupdate by exact Hsubn.
        unfold fused_graph. rewrite add_deps_other by (intros d _; unfold dep_key; discriminate).
        change (fun acc x => add_member index x acc) with (addm index).
        rewrite fold_frame0.
        -- simpl. rewrite Nat.eqb_refl. reflexivity.
        -- apply Forall_forall. intros x _ g1 Hnt. apply add_member_frame. exact Hnt.
        -- intros x Hx Ht. simpl in Ht. apply HnF. unfold mnames, names in Ht.
           apply in_map_iff in Ht as [e' [He' Hin']]. apply in_map_iff. exists e'. split; [exact He'|].
           apply in_flat_map. exists x. split; assumption.
    + assert (Hsub : holds index (fused_graph n grp ds index) e).
      { unfold fused_graph. change (fun acc x => add_member index x acc) with (addm index).
        eapply level_holds; [exact IH|exact Hlev|exact Hnd'| |exact Hin].
        intros d Hd. rewrite forallb_forall in Hdis. specialize (Hdis d Hd).
        apply memb_false. apply negb_true_iff in Hdis. exact Hdis. }
      eapply holds_mono; [|exact Hsub].
      intros k v Hk Hl.
      rewrite lookup_dset_other.
      * rewrite lookup_dupdate by exact Hsubn. rewrite Hl. reflexivity.
      * intros ->. simpl in Hk. inversion Hk. apply HnF. rewrite H0. apply in_map. exact Hin.
Qed.

(* ====================== 4. semantics: monotonicity and simulation ====================== *)
Lemma map_opt_impl : forall (A B : Type) (f f' : A -> option B) l ys,
  (forall x y, In x l -> f x = Some y -> f' x = Some y) -> map_opt f l = Some ys -> map_opt f' l = Some ys.
Proof.
  induction l as [|x r IH]; simpl; intros ys H Hm; [exact Hm|].
  destruct (f x) as [y|] eqn:Ex; [|discriminate].
  destruct (map_opt f r) as [ys'|] eqn:Er; [|discriminate].
  rewrite (H x y (or_introl eq_refl) Ex). rewrite (IH ys'); [exact Hm| |reflexivity].
  intros x0 y0 Hin. apply H. right; exact Hin.
Qed.
Lemma map_opt_map : forall (A B C : Type) (h : A -> B) (f : B -> option C) l,
  map_opt f (map h l) = map_opt (fun x => f (h x)) l.
Proof. induction l as [|x r IH]; simpl; [reflexivity|]. rewrite IH. reflexivity. Qed.
Lemma map_opt_total : forall (A B : Type) (f : A -> option B) l,
  (forall x, In x l -> exists y, f x = Some y) -> exists ys, map_opt f l = Some ys.
Proof.
  induction l as [|x r IH]; simpl; intros H; [eexists; reflexivity|].
  destruct (H x (or_introl eq_refl)) as [y Hy]. rewrite Hy.
  destruct IH as [ys Hys]; [intros; apply H; right; assumption|]. rewrite Hys. eexists; reflexivity.
Qed.

Lemma find_entry_name : forall n fl e, find_entry n fl = Some e -> ename e = n.
Proof.
  induction fl as [|e0 r IH]; simpl; intros e H; [discriminate|].
  destruct (ename e0 =? n) eqn:E; [inversion H; subst; apply Nat.eqb_eq; exact E|apply IH; exact H].
Qed.
Lemma find_entry_In : forall n fl e, find_entry n fl = Some e -> In e fl.
Proof.
  induction fl as [|e0 r IH]; simpl; intros e H; [discriminate|].
  destruct (ename e0 =? n); [inversion H; left; reflexivity|right; apply IH; exact H].
Qed.
Lemma find_entry_None : forall n fl, find_entry n fl = None <-> ~ In n (names fl).
Proof.
  induction fl as [|e0 r IH]; simpl; [tauto|].
  destruct (ename e0 =? n) eqn:E.
  - apply Nat.eqb_eq in E. split; [discriminate|intros H; exfalso; apply H; left; exact E].
  - apply Nat.eqb_neq in E. rewrite IH. tauto.
Qed.
Lemma find_entry_NoDup : forall fl e, NoDup (names fl) -> In e fl -> find_entry (ename e) fl = Some e.
Proof.
  induction fl as [|e0 r IH]; simpl; intros e Hnd Hin; [contradiction|].
  inversion Hnd; subst. destruct Hin as [->|Hin].
  - rewrite Nat.eqb_refl. reflexivity.
  - destruct (ename e0 =? ename e) eqn:E.
    + apply Nat.eqb_eq in E. exfalso. apply H1. rewrite E. apply in_map. exact Hin.
    + apply IH; assumption.
Qed.

Section SemProofs.
  Variable V : Type.
  Variable fn_sem : nat -> list V -> V.
  Variable lit : nat -> V.
  Variable ext : nat -> nat -> V.

  Lemma eval_key_eq : forall f g pv k,
    eval_key fn_sem lit (S f) g pv k =
    match k with
    | KPlace j => nth_error pv j
    | _ => match lookup k g with
           | None => None
           | Some (TAlias k') => eval_key fn_sem lit f g pv k'
           | Some (TCall fn args) =>
               match map_opt (fun a => match a with
                                       | GLit z => Some (lit z)
                                       | GKey k' => eval_key fn_sem lit f g pv k'
                                       end) args with
               | Some vs => Some (fn_sem fn vs)
               | None => None
               end
           end
    end.
  Proof. reflexivity. Qed.

  Lemma eval_flat_eq : forall f fl name idx,
    eval_flat fn_sem lit ext (S f) fl name idx =
    match find_entry name fl with
    | None => Some (ext name idx)
    | Some (FP n np nd args) =>
        match map_opt (fun a => match a with
                                | ALit z => Some (lit z)
                                | ADep d dnp dnd =>
                                    eval_flat fn_sem lit ext f fl d (if bcast dnp dnd nd then 0 else idx)
                                end) args with
        | Some vs => Some (fn_sem n vs)
        | None => None
        end
    | Some (FA n np r ds) => eval_flat fn_sem lit ext f fl r idx
    end.
  Proof. reflexivity. Qed.

  Lemma eval_key_S : forall f g pv k v,
    eval_key fn_sem lit f g pv k = Some v -> eval_key fn_sem lit (S f) g pv k = Some v.
  Proof.
    induction f as [|f IH]; intros g pv k v H; [discriminate|].
    rewrite eval_key_eq in H. rewrite eval_key_eq.
    destruct k as [n|n i|j]; try exact H.
    - destruct (lookup (KName n) g) as [[k'|fn args]|]; [apply IH; exact H| |exact H].
      destruct (map_opt _ args) as [vs|] eqn:E; [|discriminate].
      erewrite map_opt_impl; [exact H| |exact E].
      intros [k'|z] y _ Hy; [apply IH; exact Hy|exact Hy].
    - destruct (lookup (KPart n i) g) as [[k'|fn args]|]; [apply IH; exact H| |exact H].
      destruct (map_opt _ args) as [vs|] eqn:E; [|discriminate].
      erewrite map_opt_impl; [exact H| |exact E].
      intros [k'|z] y _ Hy; [apply IH; exact Hy|exact Hy].
  Qed.
  Lemma eval_key_mono : forall f f' g pv k v, f <= f' ->
    eval_key fn_sem lit f g pv k = Some v -> eval_key fn_sem lit f' g pv k = Some v.
  Proof. induction 1; intros Hev; [exact Hev|apply eval_key_S; auto]. Qed.

  Lemma eval_flat_S : forall f fl n idx v,
    eval_flat fn_sem lit ext f fl n idx = Some v -> eval_flat fn_sem lit ext (S f) fl n idx = Some v.
  Proof.
    induction f as [|f IH]; intros fl n idx v H; [discriminate|].
    rewrite eval_flat_eq in H. rewrite eval_flat_eq.
    destruct (find_entry n fl) as [[n0 np nd args|n0 np r ds]|]; [|apply IH; exact H|exact H].
    destruct (map_opt _ args) as [vs|] eqn:E; [|discriminate].
    erewrite map_opt_impl; [exact H| |exact E].
    intros [z|d dnp dnd] y _ Hy; [exact Hy|apply IH; exact Hy].
  Qed.
  Lemma eval_flat_mono : forall f f' fl n idx v, f <= f' ->
    eval_flat fn_sem lit ext f fl n idx = Some v -> eval_flat fn_sem lit ext f' fl n idx = Some v.
  Proof. induction 1; intros Hev; [exact Hev|apply eval_flat_S; auto]. Qed.

  (* ---- simulation: the flat (unfused) evaluation is reproduced by the graph ---- *)
  Section Simulation.
    Variable g : subgraph.
    Variable pv : list V.
    Variable index NP : nat.
    Variable fl : list fentry.

    Definition ArgGood (np nd : nat) (a : barg) : Prop :=
      match a with
      | ALit _ => True
      | ADep d dnp dnd =>
          (bcast dnp dnd nd = true \/ dnp = np) /\
          ((exists e, find_entry d fl = Some e /\ enpart e = dnp) \/
           (find_entry d fl = None /\
            exists j, lookup (KPart d (bidx dnp index)) g = Some (TAlias (KPlace j)) /\
                      nth_error pv j = Some (ext d (bidx dnp index))))
      end.
    Definition EntryGood (e : fentry) : Prop :=
      holds index g e /\
      match e with
      | FP n np nd args => (np = NP \/ np = 1) /\ forall a, In a args -> ArgGood np nd a
      | FA n np r ds => np = NP /\ exists e', find_entry r fl = Some e' /\ enpart e' = NP
      end.

    Hypothesis Hidx : bidx NP index = index.
    Hypothesis Hgood : forall n e, find_entry n fl = Some e -> EntryGood e.

    Lemma bcast_idx : forall dnp dnd nd np, (bcast dnp dnd nd = true \/ dnp = np) ->
      (if bcast dnp dnd nd then 0 else bidx np index) = bidx dnp index.
    Proof.
      intros dnp dnd nd np H. destruct (bcast dnp dnd nd) eqn:E.
      - unfold bcast in E. apply andb_true_iff in E as [E _]. unfold bidx. rewrite E. reflexivity.
      - destruct H as [H|H]; [discriminate|subst; reflexivity].
    Qed.

    Lemma simulation : forall fuel n e v, find_entry n fl = Some e ->
      eval_flat fn_sem lit ext fuel fl n (bidx (enpart e) index) = Some v ->
      eval_key fn_sem lit (2 * fuel) g pv (KPart n (bidx (enpart e) index)) = Some v.
    Proof.
      induction fuel as [|f IH]; intros n e v Hfind Hev; [discriminate|].
      replace (2 * S f) with (S (S (2 * f))) by lia.
      rewrite eval_flat_eq, Hfind in Hev.
      pose proof (find_entry_name _ _ Hfind) as Hname.
      destruct (Hgood _ Hfind) as [Hh Hg].
      destruct e as [n0 np nd args|n0 np r ds]; simpl in Hname; subst n0; simpl enpart in *.
      - destruct Hg as [Hnp Hargs].
        rewrite eval_key_eq.
        rewrite (Hh (KPart n (bidx np index)) (plain_task n nd args (bidx np index)) (or_introl eq_refl)).
        unfold plain_task. rewrite map_opt_map.
        destruct (map_opt _ args) as [vs|] eqn:E; [|discriminate].
        remember (S (2 * f)) as F2 eqn:EF2.
        erewrite map_opt_impl; [exact Hev| |exact E].
        intros [z|d dnp dnd] y Hin Hy; simpl; [exact Hy|]. subst F2.
        destruct (Hargs _ Hin) as [Hbc Hres].
        rewrite (bcast_idx _ _ Hbc) in Hy |- *.
        destruct Hres as [[e' [Hf' Hnp']]|[Hnone [j [Hl Hn]]]].
        + apply eval_key_S. subst dnp. apply (IH d e' y Hf' Hy).
        + destruct f as [|f']; [discriminate|].
          rewrite eval_flat_eq, Hnone in Hy. inversion Hy; subst y.
          rewrite eval_key_eq, Hl.
          replace (2 * S f') with (S (S (2 * f'))) by lia. rewrite eval_key_eq. exact Hn.
      - destruct Hg as [-> [e' [Hf' Hnp']]]. rewrite Hidx in *.
        rewrite eval_key_eq.
        rewrite (Hh (KPart n index) (TAlias (KName n)) (or_introl eq_refl)).
        rewrite eval_key_eq.
        rewrite (Hh (KName n) (TAlias (KPart r index)) (or_intror (or_introl eq_refl))).
        specialize (IH r e' v Hf'). rewrite Hnp', Hidx in IH. apply IH. exact Hev.
    Qed.
  End Simulation.
End SemProofs.

(* ====================== 5. termination of the reference evaluation from acyclicb ====================== *)
Section Termination.
  Variable V : Type.
  Variable fn_sem : nat -> list V -> V.
  Variable lit : nat -> V.
  Variable ext : nat -> nat -> V.
  Variable fl : list fentry.
  Hypothesis Hnd : NoDup (names fl).

  Definition GoodT (F : nat) (done : list nat) : Prop :=
    forall n, In n done -> forall idx, exists v, eval_flat fn_sem lit ext F fl n idx = Some v.

  Lemma dep_total : forall F done d idx, GoodT (S F) done ->
    match find_entry d fl with None => true | Some _ => memb d done end = true ->
    exists v, eval_flat fn_sem lit ext (S F) fl d idx = Some v.
  Proof.
    intros F done d idx HG H. destruct (find_entry d fl) as [e|] eqn:E.
    - apply memb_In in H. apply HG. exact H.
    - rewrite eval_flat_eq, E. eexists; reflexivity.
  Qed.

  Lemma step_good : forall F done, GoodT (S F) done -> GoodT (S (S F)) (topo_step fl done).
  Proof.
    intros F done HG n Hin idx. unfold topo_step in Hin. apply in_app_or in Hin as [Hin|Hin].
    - destruct (HG n Hin idx) as [v Hv]. exists v. apply eval_flat_S. exact Hv.
    - unfold names in Hin. apply in_map_iff in Hin as [e [Hname Hin]].
      apply filter_In in Hin as [Hin Hr]. apply andb_true_iff in Hr as [_ Hr].
      unfold ready in Hr. rewrite forallb_forall in Hr.
      rewrite eval_flat_eq. subst n. rewrite (@find_entry_NoDup fl e Hnd Hin).
      destruct e as [n np nd args|n np r ds].
      + destruct (@map_opt_total barg V
          (fun a => match a with
                    | ALit z => Some (lit z)
                    | ADep d dnp dnd => eval_flat fn_sem lit ext (S F) fl d (if bcast dnp dnd nd then 0 else idx)
                    end) args) as [vs Hvs].
        * intros [z|d dnp dnd] Ha; [eexists; reflexivity|].
          eapply dep_total; [exact HG|]. apply Hr. simpl. unfold arg_deps. apply in_flat_map.
          exists (ADep d dnp dnd). split; [exact Ha|left; reflexivity].
        * rewrite Hvs. eexists; reflexivity.
      + eapply dep_total; [exact HG|]. apply Hr. simpl. left; reflexivity.
  Qed.

  Lemma iter_good : forall n F done, GoodT (S F) done -> GoodT (n + S F) (topo_iter n fl done).
  Proof.
    induction n as [|n IH]; intros F done HG; [exact HG|].
    simpl topo_iter. replace (S n + S F) with (n + S (S F)) by lia.
    apply IH. apply step_good. exact HG.
  Qed.

  Lemma acyclic_total : acyclicb fl = true ->
    forall e, In e fl -> forall idx, exists v, eval_flat fn_sem lit ext (S (length fl)) fl (ename e) idx = Some v.
  Proof.
    intros H e Hin idx. unfold acyclicb in H. rewrite forallb_forall in H.
    specialize (H e Hin). apply memb_In in H.
    assert (HG : GoodT (length fl + 1) (topo_iter (length fl) fl [])).
    { apply iter_good. intros n []. }
    replace (S (length fl)) with (length fl + 1) by lia. apply HG. exact H.
  Qed.
End Termination.

(* ====================== 6. main theorem ====================== *)
Lemma root_entry : forall m rest,
  exists e, find_entry (mname m) (flat (m :: rest)) = Some e /\ enpart e = mnpart m /\ In e (flat (m :: rest)).
Proof.
  intros [n np nd args|n np grp ds] rest; rewrite flat_cons; simpl; rewrite Nat.eqb_refl;
    eexists; (split; [reflexivity|split; [reflexivity|left; reflexivity]]).
Qed.

Lemma mnames_sub : forall x group n, In x group -> In n (mnames x) -> In n (names (flat group)).
Proof.
  intros x group n Hx Hn. unfold mnames, names in *. apply in_map_iff in Hn as [e [He Hin]].
  apply in_map_iff. exists e. split; [exact He|]. apply in_flat_map. exists x. split; assumption.
Qed.

Lemma bidx_lt : forall NP index, index < NP -> bidx NP index = index.
Proof.
  intros NP index H. unfold bidx. destruct (NP =? 1) eqn:E; [|reflexivity].
  apply Nat.eqb_eq in E. lia.
Qed.

Section Main.
  Variable V : Type.
  Variable fn_sem : nat -> list V -> V.
  Variable lit : nat -> V.
  Variable ext : nat -> nat -> V.

  Lemma dep_values_keys : forall index deps,
    dep_values ext (map (dep_key index) deps) = map (fun d => ext (fst d) (bidx (snd d) index)) deps.
  Proof. induction deps as [|d r IH]; simpl; [reflexivity|]. f_equal. exact IH. Qed.

  Theorem fused_task_eq : forall self_name group deps index,
    valid_group group deps = true -> self_fresh self_name group = true ->
    index < npart_of_root group ->
    exists v,
      eval_member fn_sem lit ext group (root_name group) index (eval_fuel group) = Some v /\
      exec_fused fn_sem lit (fused_task self_name group deps index)
                 (dep_values ext (snd (fused_task self_name group deps index))) (exec_fuel group) = Some v.
  Proof.
    intros self_name group deps index Hv Hself Hidx.
    unfold valid_group in Hv. rewrite !andb_true_iff in Hv.
    destruct Hv as [[[[[Hne Hnd] Hdis] Hent] Hlev] Hacy].
    apply nodupb_NoDup in Hnd.
    set (fl := flat group) in *. set (NP := npart_of_root group) in *.
    set (g := fused_graph self_name group deps index).
    set (pv := dep_values ext (map (dep_key index) deps)).
    assert (Hdis' : forall d, In d deps -> ~ In (fst d) (names fl)).
    { intros d Hd. rewrite forallb_forall in Hdis. specialize (Hdis d Hd).
      apply memb_false. apply negb_true_iff in Hdis. exact Hdis. }
    (* A: every flattened entry has its expected binding in the final graph *)
    assert (HA : forall e, In e fl -> holds index g e).
    { intros e Hin. unfold g, fused_graph.
      change (fun acc x => add_member index x acc) with (addm index).
      eapply level_holds; [|exact Hlev|exact Hnd|exact Hdis'|exact Hin].
      apply Forall_forall. intros x _. apply member_good. }
    (* B: the entry point *)
    assert (HB : lookup (KName self_name) g = Some (TAlias (KPart (root_name group) index))).
    { unfold g, fused_graph. rewrite add_deps_other by (intros d _; unfold dep_key; discriminate).
      change (fun acc x => add_member index x acc) with (addm index).
      rewrite fold_frame0.
      - simpl. rewrite Nat.eqb_refl. reflexivity.
      - apply Forall_forall. intros x _ g1 Hnt. apply add_member_frame. exact Hnt.
      - intros x Hx Ht. simpl in Ht. unfold self_fresh in Hself. apply negb_true_iff in Hself.
        apply memb_false in Hself. apply Hself. eapply mnames_sub; eassumption. }
    assert (Hbi : bidx NP index = index) by (apply bidx_lt; exact Hidx).
    (* D: hypotheses of the simulation lemma *)
    assert (HD : forall n e, find_entry n fl = Some e -> EntryGood ext g pv index NP fl e).
    { intros n e Hf. pose proof (find_entry_In _ _ Hf) as Hin. split; [apply HA; exact Hin|].
      rewrite forallb_forall in Hent. specialize (Hent e Hin).
      destruct e as [n0 np nd args|n0 np r ds]; simpl in Hent.
      - apply andb_true_iff in Hent as [Hnp Hargs]. split.
        + apply orb_true_iff in Hnp as [H|H]; apply Nat.eqb_eq in H; [left|right]; exact H.
        + intros a Ha. rewrite forallb_forall in Hargs. specialize (Hargs a Ha).
          destruct a as [z|d dnp dnd]; simpl; [exact I|]. simpl in Hargs.
          apply andb_true_iff in Hargs as [Hbc Hres]. split.
          * apply orb_true_iff in Hbc as [H|H]; [left; exact H|right; apply Nat.eqb_eq in H; exact H].
          * destruct (find_entry d fl) as [e'|] eqn:Ed.
            -- left. exists e'. split; [reflexivity|apply Nat.eqb_eq; exact Hres].
            -- right. split; [reflexivity|].
               apply existsb_exists in Hres as [x [Hx Hxe]]. apply andb_true_iff in Hxe as [H1 H2].
               apply Nat.eqb_eq in H1, H2.
               destruct (add_deps_hit index deps 0
                           (fold_left (fun acc x => add_member index x acc) group
                              [(KName self_name, TAlias (KPart (root_name group) index))]) x Hx)
                 as [p [d' [Hn [Hk Hl]]]].
               exists p. unfold dep_key in Hl, Hk. rewrite H1, H2 in Hl, Hk. split; [exact Hl|].
               unfold pv. rewrite dep_values_keys.
               rewrite (map_nth_error (fun d0 => ext (fst d0) (bidx (snd d0) index)) p deps Hn).
               inversion Hk. reflexivity.
      - apply andb_true_iff in Hent as [Hnp Hr]. apply Nat.eqb_eq in Hnp. split; [exact Hnp|].
        destruct (find_entry r fl) as [e'|]; [|discriminate].
        exists e'. split; [reflexivity|apply Nat.eqb_eq; exact Hr]. }
    (* root + termination *)
    destruct group as [|m rest]; [discriminate|].
    destruct (root_entry m rest) as [e0 [Hf0 [Hnp0 Hin0]]].
    fold fl in Hf0, Hin0. simpl root_name in *. 
    assert (Hnp0' : enpart e0 = NP) by exact Hnp0.
    destruct (@acyclic_total V fn_sem lit ext fl Hnd Hacy e0 Hin0 index) as [v Hv].
    rewrite (find_entry_name _ _ Hf0) in Hv.
    exists v. split.
    - unfold eval_member, eval_fuel, group_size. exact Hv.
    - unfold exec_fused, fused_task. cbn [fst snd]. fold g. fold pv.
      unfold exec_fuel, group_size. fold fl.
      replace (2 * length fl + 3) with (S (2 * S (length fl))) by lia.
      rewrite eval_key_eq, HB.
      pose proof (@simulation V fn_sem lit ext g pv index NP fl Hbi HD (S (length fl)) (mname m) e0 v Hf0) as Hs.
      rewrite Hnp0', Hbi in Hs. apply Hs. exact Hv.
  Qed.

  (* any larger fuel gives the same result; in particular the two sides are equal and defined *)
  Corollary fused_task_eq_fuel : forall self_name group deps index f1 f2,
    valid_group group deps = true -> self_fresh self_name group = true ->
    index < npart_of_root group -> eval_fuel group <= f1 -> exec_fuel group <= f2 ->
    exec_fused fn_sem lit (fused_task self_name group deps index)
               (dep_values ext (snd (fused_task self_name group deps index))) f2
    = eval_member fn_sem lit ext group (root_name group) index f1
    /\ eval_member fn_sem lit ext group (root_name group) index f1 <> None.
  Proof.
    intros self_name group deps index f1 f2 Hv Hs Hi H1 H2.
    destruct (@fused_task_eq self_name group deps index Hv Hs Hi) as [v [Ha Hb]].
    unfold eval_member in *. unfold exec_fused in *.
    pose proof (@eval_flat_mono V fn_sem lit ext _ _ _ _ _ _ H1 Ha) as Ha'.
    pose proof (@eval_key_mono V fn_sem lit _ _ _ _ _ _ H2 Hb) as Hb'.
    rewrite Ha', Hb'. split; [reflexivity|discriminate].
  Qed.
End Main.

(* ====================== 7. non-vacuity examples and refutation of the wrong binding order ====================== *)
(* free term algebra: equality of results is the strongest possible comparison *)
Inductive term := TmLit (z : nat) | TmExt (d i : nat) | TmApp (fn : nat) (a : list term).

Definition run (t : subgraph * gkey * list gkey) (group : list member) : option term :=
  exec_fused TmApp TmLit t (dep_values TmExt (snd t)) (exec_fuel group).
Definition ref (group : list member) (index : nat) : option term :=
  eval_member TmApp TmLit TmExt group (root_name group) index (eval_fuel group).

(* (a) 3-member chain, member 3 shared by 1 and 2, external dep 10 used twice (listed twice, as
   Fused.dependencies() does), external dep 11 is single-partition with lower ndim: broadcast, key (11,0) *)
Definition ex_chain : list member :=
  [ MPlain 1 4 2 [ADep 2 4 2; ADep 3 4 2];
    MPlain 2 4 2 [ADep 3 4 2; ADep 10 4 2; ALit 7];
    MPlain 3 4 2 [ADep 10 4 2; ADep 11 1 0] ].
Definition ex_chain_deps : list (nat * nat) := [(10, 4); (10, 4); (11, 1)].

Example ex_chain_valid : valid_group ex_chain ex_chain_deps = true /\ self_fresh 100 ex_chain = true.
Proof. vm_compute. split; reflexivity. Qed.
Example ex_chain_graph :
  fused_task 100 ex_chain ex_chain_deps 2 =
  ([(KName 100, TAlias (KPart 1 2));
    (KPart 1 2, TCall 1 [GKey (KPart 2 2); GKey (KPart 3 2)]);
    (KPart 2 2, TCall 2 [GKey (KPart 3 2); GKey (KPart 10 2); GLit 7]);
    (KPart 3 2, TCall 3 [GKey (KPart 10 2); GKey (KPart 11 0)]);
    (KPart 10 2, TAlias (KPlace 1)); (KPart 11 0, TAlias (KPlace 2))],
   KName 100, [KPart 10 2; KPart 10 2; KPart 11 0]).
Proof. vm_compute. reflexivity. Qed.
Example ex_chain_run :
  run (fused_task 100 ex_chain ex_chain_deps 2) ex_chain
  = Some (TmApp 1 [TmApp 2 [TmApp 3 [TmExt 10 2; TmExt 11 0]; TmExt 10 2; TmLit 7];
                   TmApp 3 [TmExt 10 2; TmExt 11 0]])
  /\ ref ex_chain 2 = run (fused_task 100 ex_chain ex_chain_deps 2) ex_chain.
Proof. vm_compute. split; reflexivity. Qed.

(* (b) broadcast MEMBER: member 3 is a single-partition expression of lower ndim fused into a 4-partition group *)
Definition ex_bmember : list member :=
  [ MPlain 1 4 2 [ADep 2 4 2; ADep 3 1 0];
    MPlain 2 4 2 [ADep 10 4 2; ADep 3 1 0];
    MPlain 3 1 0 [ADep 12 1 0; ALit 5] ].
Definition ex_bmember_deps : list (nat * nat) := [(10, 4); (12, 1)].
Example ex_bmember_ok :
  valid_group ex_bmember ex_bmember_deps = true
  /\ run (fused_task 100 ex_bmember ex_bmember_deps 3) ex_bmember
     = Some (TmApp 1 [TmApp 2 [TmExt 10 3; TmApp 3 [TmExt 12 0; TmLit 5]]; TmApp 3 [TmExt 12 0; TmLit 5]])
  /\ ref ex_bmember 3 = run (fused_task 100 ex_bmember ex_bmember_deps 3) ex_bmember
  /\ lookup (KPart 3 0) (fst (fst (fused_task 100 ex_bmember ex_bmember_deps 3)))
     = Some (TCall 3 [GKey (KPart 12 0); GLit 5]).
Proof. vm_compute. repeat split; reflexivity. Qed.

(* (c) nested group: member 20 is a Fused([21], deps 5, 11) whose dependency 5 is a LATER member of the
   outer group and whose dependency 11 is external to both *)
Definition ex_nested : list member :=
  [ MPlain 1 4 2 [ADep 20 4 2; ADep 5 4 2];
    MFused 20 4 [MPlain 21 4 2 [ADep 5 4 2; ADep 11 4 2]] [(5, 4); (11, 4)];
    MPlain 5 4 2 [ADep 10 4 2] ].
Definition ex_nested_deps : list (nat * nat) := [(10, 4); (11, 4)].
Example ex_nested_ok :
  valid_group ex_nested ex_nested_deps = true
  /\ run (fused_task 100 ex_nested ex_nested_deps 2) ex_nested
     = Some (TmApp 1 [TmApp 21 [TmApp 5 [TmExt 10 2]; TmExt 11 2]; TmApp 5 [TmExt 10 2]])
  /\ ref ex_nested 2 = run (fused_task 100 ex_nested ex_nested_deps 2) ex_nested.
Proof. vm_compute. repeat split; reflexivity. Qed.

(* (d) the SAME nested group with member 5 listed BEFORE the nested Fused: graph.update(subgraph)
   replaces the task of (5, i) by the nested placeholder "_0"; valid_group rejects it, and the real
   evaluation is indeed wrong (member 5 is replaced by the value of external dep 10). *)
Definition ex_nested_misordered : list member :=
  [ MPlain 1 4 2 [ADep 20 4 2; ADep 5 4 2];
    MPlain 5 4 2 [ADep 10 4 2];
    MFused 20 4 [MPlain 21 4 2 [ADep 5 4 2; ADep 11 4 2]] [(5, 4); (11, 4)] ].
Example ex_nested_misordered_rejected :
  valid_group ex_nested_misordered ex_nested_deps = false
  /\ run (fused_task 100 ex_nested_misordered ex_nested_deps 2) ex_nested_misordered
     = Some (TmApp 1 [TmApp 21 [TmExt 10 2; TmExt 11 2]; TmExt 10 2])
  /\ ref ex_nested_misordered 2 <> run (fused_task 100 ex_nested_misordered ex_nested_deps 2) ex_nested_misordered.
Proof. vm_compute. repeat split; try reflexivity. discriminate. Qed.

(* (e) a single-partition nested Fused broadcast into a 4-partition group: Fused._task writes (20, index)
   but the consumer asks for (20, 0): unbound key; rejected by valid_group *)
Definition ex_nested_bcast : list member :=
  [ MPlain 1 4 2 [ADep 10 4 2; ADep 20 1 0];
    MFused 20 1 [MPlain 21 1 0 [ADep 12 1 0]] [(12, 1)] ].
Example ex_nested_bcast_rejected :
  valid_group ex_nested_bcast [(10, 4); (12, 1)] = false
  /\ run (fused_task 100 ex_nested_bcast [(10, 4); (12, 1)] 2) ex_nested_bcast = None.
Proof. vm_compute. split; reflexivity. Qed.

(* (f) binding order matters: fused_task_bad writes the outer placeholders BEFORE the members, so the
   nested group's own numbering ("_0" for its dependency 11) survives and member 21 reads the value of
   the outer "_0" = dependency 10. *)
Definition ex_bad : list member :=
  [ MPlain 1 4 2 [ADep 10 4 2; ADep 20 4 2];
    MFused 20 4 [MPlain 21 4 2 [ADep 11 4 2]] [(11, 4)] ].
Definition ex_bad_deps : list (nat * nat) := [(10, 4); (11, 4)].

Example ex_bad_good_order :
  valid_group ex_bad ex_bad_deps = true /\ self_fresh 100 ex_bad = true
  /\ run (fused_task 100 ex_bad ex_bad_deps 3) ex_bad = Some (TmApp 1 [TmExt 10 3; TmApp 21 [TmExt 11 3]])
  /\ ref ex_bad 3 = Some (TmApp 1 [TmExt 10 3; TmApp 21 [TmExt 11 3]]).
Proof. vm_compute. repeat split; reflexivity. Qed.
Example ex_bad_wrong_order :
  run (fused_task_bad 100 ex_bad ex_bad_deps 3) ex_bad = Some (TmApp 1 [TmExt 10 3; TmApp 21 [TmExt 10 3]])
  /\ run (fused_task_bad 100 ex_bad ex_bad_deps 3) ex_bad <> ref ex_bad 3.
Proof. vm_compute. split; [reflexivity|discriminate]. Qed.

(* the statement of fused_task_eq is FALSE for fused_task_bad *)
Theorem fused_task_bad_refuted :
  ~ (forall (V : Type) (fn_sem : nat -> list V -> V) (lit : nat -> V) (ext : nat -> nat -> V)
            self_name group deps index,
       valid_group group deps = true -> self_fresh self_name group = true ->
       index < npart_of_root group ->
       exec_fused fn_sem lit (fused_task_bad self_name group deps index)
                  (dep_values ext (snd (fused_task_bad self_name group deps index))) (exec_fuel group)
       = eval_member fn_sem lit ext group (root_name group) index (eval_fuel group)).
Proof.
  intros H.
  specialize (H term TmApp TmLit TmExt 100 ex_bad ex_bad_deps 3).
  assert (H1 : valid_group ex_bad ex_bad_deps = true) by (vm_compute; reflexivity).
  assert (H2 : self_fresh 100 ex_bad = true) by (vm_compute; reflexivity).
  assert (H3 : 3 < npart_of_root ex_bad) by (vm_compute; lia).
  specialize (H H1 H2 H3). vm_compute in H. discriminate.
Qed.

(* the general theorem instantiated (not by computation) on the examples *)
Example ex_nested_by_theorem : forall index, index < 4 ->
  exists v, ref ex_nested index = Some v /\ run (fused_task 100 ex_nested ex_nested_deps index) ex_nested = Some v.
Proof.
  intros index H. apply fused_task_eq; [vm_compute; reflexivity|vm_compute; reflexivity|exact H].
Qed.

Print Assumptions fused_task_eq.
Print Assumptions fused_task_eq_fuel.
Print Assumptions fused_task_bad_refuted.
Print Assumptions ex_nested_by_theorem.
Print Assumptions ex_chain_run.
Print Assumptions ex_nested_misordered_rejected.
