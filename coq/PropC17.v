(* PropC17.v -- property C17: materialization boundaries are transparent.  Statements only.
   A cut replaces a sub-plan by an opaque source holding its computed value.  In the plan semantics this is
   congruence: replacing a sub-plan by ANY plan with the same value on every input leaves the value of every
   context unchanged (and an optimizer step applied to the continued plan is still sound).  The imported
   graphs themselves are certified per run by wf_check (C09). *)
From DX Require Import Base Plan PlanProofs.

Theorem C17_congruence : forall a b, (forall rho, den rho a = den rho b) -> forall rho C, den rho (subst a b C) = den rho C.
Proof. exact den_congruence. Qed.
Print Assumptions C17_congruence.

Theorem C17_optimizing_the_continuation_is_sound : forall a b, rule_ok a b = true ->
  forall rho e o, den rho e = Some o -> den rho (subst a b e) = Some o.
Proof. exact step_in_context_sound. Qed.
Print Assumptions C17_optimizing_the_continuation_is_sound.
