(* TreeReduce.v -- model of dask_expr/_reductions.py: TreeReduce._layer and the
   chunk / combine / aggregate decomposition of ApplyConcatApply._lower (tree variant).
   Serves C02 (partition independence of reductions) and C10 (split_every is a pure knob). *)
From DX Require Import Base.

Set Implicit Arguments.

Section Tree.
  Variables (A R : Type).
  Variable combine : list A -> A.
  Variable aggregate : list A -> R.
  (* what the decomposition needs from the user-level functions: combining batches first
     and aggregating afterwards equals aggregating everything at once. *)
  Hypothesis agg_combine :
    forall ls : list (list A), (forall b, In b ls -> b <> []) ->
      aggregate (map combine ls) = aggregate (concat ls).

  (* split_every: None = False (no tree), Some k = batches of k.  The while loop of
     TreeReduce._layer is recursion on fuel; fuel exhaustion is None, excluded below. *)
  Fixpoint tree_eval (fuel : nat) (se : option nat) (xs : list A) : option R :=
    match se with
    | None => Some (aggregate xs)
    | Some k =>
        if length xs <=? k then Some (aggregate xs)
        else match fuel with
             | 0 => None
             | S f => tree_eval f se (map combine (part_all k xs))
             end
    end.

  Lemma tree_reduce_eq : forall fuel se xs r,
    (forall k, se = Some k -> 1 <= k) ->
    tree_eval fuel se xs = Some r -> r = aggregate xs.
  Proof.
    induction fuel as [|f IH]; intros se xs r Hk H; destruct se as [k|]; simpl in H.
    - destruct (length xs <=? k); [congruence|discriminate].
    - congruence.
    - destruct (length xs <=? k); [congruence|].
      apply IH in H; [|exact Hk]. rewrite H.
      rewrite agg_combine.
      + rewrite part_all_concat; [reflexivity|]. apply Hk; reflexivity.
      + intros b Hb. eapply part_all_f_nonempty; [|exact Hb]. apply Hk; reflexivity.
    - congruence.
  Qed.

  Lemma tree_terminates_aux : forall fuel k xs,
    2 <= k -> length xs <= fuel -> tree_eval fuel (Some k) xs <> None.
  Proof.
    induction fuel as [|f IH]; intros k xs Hk Hl; simpl.
    - destruct (Nat.leb_spec (length xs) k); [discriminate|lia].
    - destruct (Nat.leb_spec (length xs) k) as [|Hlt]; [discriminate|].
      apply IH; [exact Hk|]. rewrite map_length. unfold part_all.
      pose proof (@part_all_f_length_lt A (length xs) k xs Hk ltac:(lia) ltac:(lia)). lia.
  Qed.

  Theorem tree_terminates : forall k xs, 2 <= k -> tree_eval (length xs) (Some k) xs <> None.
  Proof. intros. apply tree_terminates_aux; auto. Qed.

  (* ---- the layer as index structure, as TreeReduce._layer builds it --------------- *)
  (* level j (j = 1, 2, ...) is a list of batches; a batch is the list of positions in
     level j-1 it combines (level 0 = the input keys).  The final aggregate task reads
     all keys of the last level. *)
  Fixpoint tree_layer (fuel : nat) (se : option nat) (n : nat) : option (list (list (list nat))) :=
    match se with
    | None => Some []
    | Some k =>
        if n <=? k then Some []
        else match fuel with
             | 0 => None
             | S f =>
                 let batches := part_all k (seq 0 n) in
                 match tree_layer f se (length batches) with
                 | Some ls => Some (batches :: ls)
                 | None => None
                 end
             end
    end.

  Variable d : A.
  Definition exec_level (cur : list A) (batches : list (list nat)) : list A :=
    map (fun b => combine (map (fun i => nth i cur d) b)) batches.
  Definition exec_layer (levels : list (list (list nat))) (xs : list A) : R :=
    aggregate (fold_left exec_level levels xs).

  Lemma exec_level_part : forall k cur,
    exec_level cur (part_all k (seq 0 (length cur))) = map combine (part_all k cur).
  Proof.
    intros k cur. unfold exec_level.
    rewrite <- (map_map (map (fun i => nth i cur d)) combine).
    rewrite <- part_all_map. rewrite map_nth_seq. reflexivity.
  Qed.

  Lemma layer_exec_eq : forall fuel se xs levels,
    tree_layer fuel se (length xs) = Some levels ->
    tree_eval fuel se xs = Some (exec_layer levels xs).
  Proof.
    induction fuel as [|f IH]; intros se xs levels H; destruct se as [k|]; simpl in *.
    - destruct (length xs <=? k); [|discriminate]. inversion H; reflexivity.
    - inversion H; reflexivity.
    - destruct (length xs <=? k); [inversion H; reflexivity|].
      destruct (tree_layer f (Some k) (length (part_all k (seq 0 (length xs))))) as [ls|] eqn:E; [|discriminate].
      inversion H; subst levels. unfold exec_layer. cbn [fold_left].
      rewrite exec_level_part.
      apply IH. rewrite map_length.
      replace (length (part_all k xs)) with (length (part_all k (seq 0 (length xs)))); [exact E|].
      rewrite <- (map_nth_seq d xs) at 2. rewrite part_all_map, map_length. reflexivity.
    - inversion H; reflexivity.
  Qed.

  (* The full statement for the layer: whatever split_every (False or any k >= 2) and however
     many input partitions, executing the generated layer equals aggregating the chunk
     results directly. *)
  Theorem tree_layer_correct : forall se xs,
    (forall k, se = Some k -> 2 <= k) ->
    exists levels, tree_layer (length xs) se (length xs) = Some levels /\
                   exec_layer levels xs = aggregate xs.
  Proof.
    intros se xs Hk.
    destruct (tree_layer (length xs) se (length xs)) as [levels|] eqn:E.
    - exists levels; split; [reflexivity|].
      pose proof (layer_exec_eq _ _ _ E) as H.
      refine (@tree_reduce_eq (length xs) se xs (exec_layer levels xs) _ H).
      intros k Hse. specialize (Hk k Hse). lia.
    - exfalso. destruct se as [k|]; [|simpl in E; destruct (length xs); discriminate].
      assert (H2 : 2 <= k) by (apply Hk; reflexivity).
      (* tree_layer fails only when tree_eval runs out of fuel *)
      assert (Haux : forall fuel n (ys : list A), length ys = n ->
                 tree_layer fuel (Some k) n = None -> tree_eval fuel (Some k) ys = None).
      { induction fuel as [|f IH]; intros n ys Hn H; simpl in *; subst n.
        - destruct (length ys <=? k); [discriminate|reflexivity].
        - destruct (length ys <=? k); [discriminate|].
          destruct (tree_layer f (Some k) (length (part_all k (seq 0 (length ys))))) eqn:E2; [discriminate|].
          eapply IH; [|exact E2]. rewrite map_length.
          rewrite <- (map_nth_seq d ys) at 1. rewrite part_all_map, map_length. reflexivity. }
      apply (tree_terminates xs H2). eapply Haux; [reflexivity|exact E].
  Qed.
End Tree.

(* ---- instances: the decomposable reductions over integer columns with missing values ---- *)
Section Monoid.
  Variable M : Type.
  Variable op : M -> M -> M.
  Variable e : M.
  Hypothesis op_assoc : forall a b c, op a (op b c) = op (op a b) c.
  Hypothesis op_e_l : forall a, op e a = a.
  Hypothesis op_e_r : forall a, op a e = a.
  Definition mconcat (l : list M) : M := fold_right op e l.
  Lemma mconcat_app : forall a b, mconcat (a ++ b) = op (mconcat a) (mconcat b).
  Proof. induction a as [|x a IH]; intros b; simpl; [symmetry; apply op_e_l|]. rewrite IH. apply op_assoc. Qed.
  Lemma mconcat_flat : forall ls, mconcat (map mconcat ls) = mconcat (concat ls).
  Proof. induction ls as [|l ls IH]; simpl; [reflexivity|]. rewrite mconcat_app, IH. reflexivity. Qed.
End Monoid.

Definition cell := option Z.   (* None = missing value *)
Definition opt_lift (f : Z -> Z -> Z) (a b : cell) : cell :=
  match a, b with None, x => x | x, None => x | Some x, Some y => Some (f x y) end.
Lemma opt_lift_assoc f : (forall a b c, f a (f b c) = f (f a b) c) ->
  forall a b c, opt_lift f a (opt_lift f b c) = opt_lift f (opt_lift f a b) c.
Proof. intros H [a|] [b|] [c|]; simpl; try reflexivity. rewrite H; reflexivity. Qed.

(* pandas meaning of a reduction on the whole column (skipna=True) *)
Definition present (col : list cell) : list Z := flat_map (fun c => match c with Some z => [z] | None => [] end) col.
Definition spec_sum (col : list cell) : Z := sumZ (present col).
Definition spec_count (col : list cell) : nat := length (present col).
Definition spec_len (col : list cell) : nat := length col.
Definition spec_max (col : list cell) : cell := mconcat (opt_lift Z.max) None (map Some (present col)).
Definition spec_min (col : list cell) : cell := mconcat (opt_lift Z.min) None (map Some (present col)).

Lemma present_app a b : present (a ++ b) = present a ++ present b.
Proof. unfold present. apply flat_map_app. Qed.
Lemma present_concat ps : present (concat ps) = concat (map present ps).
Proof. induction ps; simpl; [reflexivity|]. rewrite present_app, IHps. reflexivity. Qed.

(* chunk / combine / aggregate of each reduction, as dask-expr instantiates them *)
Definition sum_chunk := spec_sum.              Definition sum_comb (l : list Z) := mconcat Z.add 0%Z l.
Definition count_chunk := spec_count.          Definition count_comb (l : list nat) := mconcat Nat.add 0 l.
Definition len_chunk := spec_len.
Definition max_chunk := spec_max.              Definition max_comb (l : list cell) := mconcat (opt_lift Z.max) None l.
Definition min_chunk := spec_min.              Definition min_comb (l : list cell) := mconcat (opt_lift Z.min) None l.

Lemma sumZ_mconcat l : sumZ l = mconcat Z.add 0%Z l.
Proof. induction l; simpl; [reflexivity|]. rewrite IHl; reflexivity. Qed.

Lemma sum_agg_spec ps : sum_comb (map sum_chunk ps) = spec_sum (concat ps).
Proof.
  unfold sum_comb, sum_chunk, spec_sum. rewrite present_concat.
  rewrite <- (map_map present sumZ). rewrite (map_ext sumZ (mconcat Z.add 0%Z) sumZ_mconcat).
  rewrite mconcat_flat; [|intros; lia|intros; lia]. symmetry; apply sumZ_mconcat.
Qed.
Lemma len_mconcat (A : Type) (ls : list (list A)) : mconcat Nat.add 0 (map (@length A) ls) = length (concat ls).
Proof. induction ls; simpl; [reflexivity|]. rewrite app_length, IHls. reflexivity. Qed.
Lemma count_agg_spec ps : count_comb (map count_chunk ps) = spec_count (concat ps).
Proof.
  unfold count_comb, count_chunk, spec_count. rewrite present_concat.
  rewrite <- (map_map present (@length Z)). apply len_mconcat.
Qed.
Lemma len_agg_spec ps : count_comb (map len_chunk ps) = spec_len (concat ps).
Proof. unfold count_comb, len_chunk, spec_len. apply len_mconcat. Qed.
Lemma max_agg_spec ps : max_comb (map max_chunk ps) = spec_max (concat ps).
Proof.
  unfold max_comb, max_chunk, spec_max. rewrite present_concat, concat_map.
  rewrite <- mconcat_flat.
  - rewrite !map_map. reflexivity.
  - apply opt_lift_assoc. intros; lia.
  - intros [a|]; reflexivity.
Qed.
Lemma min_agg_spec ps : min_comb (map min_chunk ps) = spec_min (concat ps).
Proof.
  unfold min_comb, min_chunk, spec_min. rewrite present_concat, concat_map.
  rewrite <- mconcat_flat.
  - rewrite !map_map. reflexivity.
  - apply opt_lift_assoc. intros; lia.
  - intros [a|]; reflexivity.
Qed.

(* End-to-end statements: for EVERY partitioning ps of the column, EVERY split_every, the
   generated tree layer computes the pandas value of the concatenated column. *)
Theorem tree_sum_correct : forall se (ps : list (list cell)),
  (forall k, se = Some k -> 2 <= k) ->
  exists levels, tree_layer (length ps) se (length ps) = Some levels /\
    exec_layer sum_comb sum_comb 0%Z levels (map sum_chunk ps) = spec_sum (concat ps).
Proof.
  intros se ps Hk.
  destruct (@tree_layer_correct Z Z sum_comb sum_comb) with (d:=0%Z) (se:=se) (xs:=map sum_chunk ps) as [lv [H1 H2]].
  - intros ls _. unfold sum_comb. apply mconcat_flat; intros; lia.
  - exact Hk.
  - rewrite map_length in H1. exists lv; split; [exact H1|]. rewrite H2. apply sum_agg_spec.
Qed.

Theorem tree_max_correct : forall se (ps : list (list cell)),
  (forall k, se = Some k -> 2 <= k) ->
  exists levels, tree_layer (length ps) se (length ps) = Some levels /\
    exec_layer max_comb max_comb None levels (map max_chunk ps) = spec_max (concat ps).
Proof.
  intros se ps Hk.
  destruct (@tree_layer_correct cell cell max_comb max_comb) with (d:=@None Z) (se:=se) (xs:=map max_chunk ps) as [lv [H1 H2]].
  - intros ls _. unfold max_comb. apply mconcat_flat; [apply opt_lift_assoc; intros; lia|intros [a|]; reflexivity].
  - exact Hk.
  - rewrite map_length in H1. exists lv; split; [exact H1|]. rewrite H2. apply max_agg_spec.
Qed.

Theorem tree_min_correct : forall se (ps : list (list cell)),
  (forall k, se = Some k -> 2 <= k) ->
  exists levels, tree_layer (length ps) se (length ps) = Some levels /\
    exec_layer min_comb min_comb None levels (map min_chunk ps) = spec_min (concat ps).
Proof.
  intros se ps Hk.
  destruct (@tree_layer_correct cell cell min_comb min_comb) with (d:=@None Z) (se:=se) (xs:=map min_chunk ps) as [lv [H1 H2]].
  - intros ls _. unfold min_comb. apply mconcat_flat; [apply opt_lift_assoc; intros; lia|intros [a|]; reflexivity].
  - exact Hk.
  - rewrite map_length in H1. exists lv; split; [exact H1|]. rewrite H2. apply min_agg_spec.
Qed.

Theorem tree_count_correct : forall se (ps : list (list cell)),
  (forall k, se = Some k -> 2 <= k) ->
  exists levels, tree_layer (length ps) se (length ps) = Some levels /\
    exec_layer count_comb count_comb 0 levels (map count_chunk ps) = spec_count (concat ps).
Proof.
  intros se ps Hk.
  destruct (@tree_layer_correct nat nat count_comb count_comb) with (d:=0) (se:=se) (xs:=map count_chunk ps) as [lv [H1 H2]].
  - intros ls _. unfold count_comb. apply mconcat_flat; intros; lia.
  - exact Hk.
  - rewrite map_length in H1. exists lv; split; [exact H1|]. rewrite H2. apply count_agg_spec.
Qed.

Theorem tree_len_correct : forall se (ps : list (list cell)),
  (forall k, se = Some k -> 2 <= k) ->
  exists levels, tree_layer (length ps) se (length ps) = Some levels /\
    exec_layer count_comb count_comb 0 levels (map len_chunk ps) = spec_len (concat ps).
Proof.
  intros se ps Hk.
  destruct (@tree_layer_correct nat nat count_comb count_comb) with (d:=0) (se:=se) (xs:=map len_chunk ps) as [lv [H1 H2]].
  - intros ls _. unfold count_comb. apply mconcat_flat; intros; lia.
  - exact Hk.
  - rewrite map_length in H1. exists lv; split; [exact H1|]. rewrite H2. apply len_agg_spec.
Qed.

(* non-vacuity: 11 partitions, split_every = 3: three levels (4 batches, 2 batches, final) *)
Example tree_layer_11_3 :
  tree_layer 11 (Some 3) 11 = Some [[[0;1;2];[3;4;5];[6;7;8];[9;10]]; [[0;1;2];[3]]].
Proof. vm_compute. reflexivity. Qed.
