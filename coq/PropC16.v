(* PropC16.v -- property C16: collections survive serialization to another process.  Statements only.
   Over the generated class table: no _divisions/_meta/_layer/_task/_lower/npartitions method of any
   expression class reads process-global mutable state without a recompute fallback (so these attributes are
   functions of the operands, which is what pickling transports); the cached-call pattern with fallback is
   transparent (LRU.v).  The round trip itself (pickle -> fresh interpreter) is observed by the harness. *)
From Coq Require Import String List.
From DX Require Import Base GeneratedClassTable ClassTableChecks ClassTableState LRU.

Theorem C16_state_free_table : state_free_b = true.
Proof. exact state_free_table. Qed.
Print Assumptions C16_state_free_table.

(* T-GEN: the process-global mutable state found in the current source is exactly the reviewed one (a new cache / memo table /
   registry, or a reviewed one read from a new function, breaks this obligation until it has been reviewed) *)
Theorem C16_global_state_reviewed :
  subset_b mutable_globals mutable_globals_reviewed = true /\ subset_b function_global_reads function_global_reads_reviewed = true.
Proof. exact (conj global_state_reviewed function_global_reads_are_reviewed). Qed.
Print Assumptions C16_global_state_reviewed.

(* a value looked up through the cache equals the recomputed value, whatever the history: an empty cache in the
   receiving process gives the same answers as the warm cache of the sender *)
Theorem C16_cache_fallback_transparent : forall (V : Type) (f : nat -> option V) ks s,
  Inv V f s -> fst (session V f s ks) = map f ks /\ Inv V f (snd (session V f s ks)).
Proof. intros V f ks s. exact (lru_transparent V f ks s). Qed.
Print Assumptions C16_cache_fallback_transparent.
