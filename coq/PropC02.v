(* PropC02.v -- property C02: results equal the pandas meaning for every partitioning.  Statements only.
   Proved for ALL lists of partitions (any count, any boundaries, empty partitions included) and all knobs:
   tree reductions, hash shuffles (co-location, the precondition of partitionwise joins and shuffle
   reductions), count- and divisions-based repartitioning (the building block of alignment).  Operators whose
   partition logic is pandas code (merge, groupby, rolling ...) are covered by the exhaustive-cut sweep only
   (partial). *)
From Coq Require Import Permutation.
From DX Require Import Base TreeReduce Shuffle ShuffleProofs Repart RepartCount RepartProofs.
Local Open Scope nat_scope.

(* reductions: for EVERY partitioning ps of a column and every split_every, the generated tree computes the
   pandas value of the concatenated column (sum / max / min / count / len; missing values skipped) *)
Theorem C02_tree_sum : forall se (ps : list (list cell)), (forall k, se = Some k -> 2 <= k) ->
  exists levels, tree_layer (length ps) se (length ps) = Some levels /\
    exec_layer sum_comb sum_comb 0%Z levels (map sum_chunk ps) = spec_sum (concat ps).
Proof. exact tree_sum_correct. Qed.
Print Assumptions C02_tree_sum.
Theorem C02_tree_max : forall se (ps : list (list cell)), (forall k, se = Some k -> 2 <= k) ->
  exists levels, tree_layer (length ps) se (length ps) = Some levels /\
    exec_layer max_comb max_comb None levels (map max_chunk ps) = spec_max (concat ps).
Proof. exact tree_max_correct. Qed.
Print Assumptions C02_tree_max.
Theorem C02_tree_count : forall se (ps : list (list cell)), (forall k, se = Some k -> 2 <= k) ->
  exists levels, tree_layer (length ps) se (length ps) = Some levels /\
    exec_layer count_comb count_comb 0 levels (map count_chunk ps) = spec_count (concat ps).
Proof. exact tree_count_correct. Qed.
Print Assumptions C02_tree_count.

(* hash shuffle: whatever the input partitioning, output i holds exactly (a permutation of) the rows routed to i *)
Theorem C02_shuffle_colocates : forall (payload : Type) (n_in n_out k stages : nat) (Ps : list (list (row payload))) outs,
  length Ps = n_in -> 1 <= n_in -> n_in <= n_out -> 2 <= k -> n_in <= k ^ stages -> 1 <= stages ->
  (forall P r, In P Ps -> In r P -> target r < n_out) ->
  exec_shuffle (task_layer n_in n_out k stages (seq 0 n_out) false) Ps = Some outs ->
  Permutation (concat outs) (concat Ps) /\ (forall i r, i < n_out -> In r (nth i outs []) -> target r = i).
Proof. exact shuffle_permutation. Qed.
Print Assumptions C02_shuffle_colocates.

(* alignment building block: repartitioning to other divisions keeps every row, in order *)
Theorem C02_realign_preserves_rows : forall (row : Type) (idx : row -> Z) (a b : list Z) (pl : plan) (P : list (list row)),
  valid_divs a = true -> valid_divs b = true -> plan_ok a b pl = true ->
  respects idx a P -> parts_sorted idx P -> exec_plan idx P pl = spec_plan idx b P.
Proof. exact plan_ok_sound. Qed.
Print Assumptions C02_realign_preserves_rows.

(* label slices df.loc[lo:hi] return exactly the rows whose label lies in the closed range, in order, for every partitioning with
   truthful divisions (values equal to a division, bounds outside the divisions, open ends); a reversed slice is empty (D45) *)
From DX Require Import Divisions DivisionsProofs Loc LocProofs.
Theorem C02_loc_slice_rows : forall divs parts lo hi,
  truthful divs parts -> parts <> [] -> slice_ok lo hi ->
  concat (loc_parts divs parts lo hi) = filter (in_slice lo hi) (concat parts).
Proof. exact loc_rows. Qed.
Print Assumptions C02_loc_slice_rows.

Theorem C02_loc_reversed_slice_empty : forall divs parts l h,
  truthful divs parts -> parts <> [] -> (h < l)%Z ->
  concat (loc_parts divs parts (Some l) (Some h)) = [].
Proof. exact loc_reversed_empty. Qed.
Print Assumptions C02_loc_reversed_slice_empty.

(* label lists df.loc[[l1, l2, ...]]: exactly the rows carrying a requested label *)
From DX Require Import LocList LocListProofs.
Theorem C02_loc_list_rows_sound : forall divs parts labels i x,
  truthful divs parts -> In x (nth i (ll_parts divs parts labels) []) -> In x labels /\ In x (concat parts).
Proof. exact ll_rows_sound. Qed.
Print Assumptions C02_loc_list_rows_sound.

Theorem C02_loc_list_rows_complete : forall divs parts labels x,
  truthful divs parts -> parts <> [] -> labels_in_range divs labels ->
  In x labels -> In x (concat parts) -> In x (concat (ll_parts divs parts labels)).
Proof. exact ll_rows_complete. Qed.
Print Assumptions C02_loc_list_rows_complete.

(* alignment of differently partitioned operands with known divisions (calc_divisions_for_align + Repartition(force=True) +
   partition-wise operation): the common divisions are valid, contain every operand's boundaries and cover every operand;
   repartitioning an operand to them neither loses nor duplicates a row; rows with equal index values of the two operands
   meet in the same partition; and for every operation that is local in the index value (index-aligned arithmetic, index
   joins, combine_first, ...) the partition-wise result is exactly the global result cut at the common divisions --
   for all divisions and all partitions.  Tie: T-LAYER align_layer (real calc_divisions_for_align / collection divisions /
   computed partitions vs the extracted align_divisions, align_single). *)
From DX Require Import Align AlignProofs.
Theorem C02_align_divisions_valid : forall ds,
  ds <> [] -> Forall (fun d => (2 <= length d)%nat) ds -> Forall Repart.sortedZ ds ->
  valid_divs (align_divisions ds) = true.
Proof. exact align_valid. Qed.
Print Assumptions C02_align_divisions_valid.

Theorem C02_align_no_row_lost_or_duplicated : forall (row : Type) (idx : row -> Z) ds a (P : list (list row)),
  ds <> [] -> Forall (fun d => (2 <= length d)%nat) ds -> Forall Repart.sortedZ ds ->
  In a ds -> respects idx a P ->
  (forall r, In r (concat P) ->
     exists j, (j < length (align_divisions ds) - 1)%nat /\
               in_target (align_divisions ds) j (idx r) = true /\
               forall j', (j' < length (align_divisions ds) - 1)%nat ->
                          in_target (align_divisions ds) j' (idx r) = true -> j' = j)
  /\ Permutation (concat (spec_plan idx (align_divisions ds) P)) (concat P).
Proof. exact align_partition_exact. Qed.
Print Assumptions C02_align_no_row_lost_or_duplicated.

Theorem C02_align_copartitioned : forall (row : Type) (idx : row -> Z) b (P : list (list row)) v j, (j < length b - 1)%nat ->
  sel idx v (nth j (spec_plan idx b P) []) = if in_target b j v then sel idx v (concat P) else [].
Proof. exact align_copartitioned. Qed.
Print Assumptions C02_align_copartitioned.

Theorem C02_aligned_blockwise_is_global : forall (row : Type) (idx : row -> Z) (out : Type)
    (f : list row -> list row -> list out) (key : out -> Z),
  (forall (p : Z -> bool) A B,
      filter (fun o => p (key o)) (f A B) = f (filter (fun r => p (idx r)) A) (filter (fun r => p (idx r)) B)) ->
  forall ds a1 a2 (P1 P2 : list (list row)),
  ds <> [] -> Forall (fun d => (2 <= length d)%nat) ds -> Forall Repart.sortedZ ds ->
  In a1 ds -> In a2 ds -> respects idx a1 P1 -> respects idx a2 P2 ->
  (forall o, In o (f (concat P1) (concat P2)) ->
             (nthZ (align_divisions ds) 0 <= key o <= lastZ (align_divisions ds))%Z) ->
  (forall j, (j < length (align_divisions ds) - 1)%nat ->
     nth j (blockwise2 f (spec_plan idx (align_divisions ds) P1) (spec_plan idx (align_divisions ds) P2)) []
     = filter (fun o => in_target (align_divisions ds) j (key o)) (f (concat P1) (concat P2)))
  /\ Permutation (concat (blockwise2 f (spec_plan idx (align_divisions ds) P1) (spec_plan idx (align_divisions ds) P2)))
                 (f (concat P1) (concat P2)).
Proof.
  intros row idx out f key Hloc ds a1 a2 P1 P2 Hne Hl Hs H1 H2 R1 R2 Hk. split.
  - exact (aligned_blockwise_local row idx out f key Hloc ds a1 a2 P1 P2 Hne Hl Hs H1 H2 R1 R2).
  - exact (aligned_blockwise_perm row idx out f key Hloc ds a1 a2 P1 P2 Hne Hl Hs H1 H2 R1 R2 Hk).
Qed.
Print Assumptions C02_aligned_blockwise_is_global.

(* "use the left operand's divisions" loses rows of the other operand *)
Theorem C02_align_first_only_refuted :
  exists (ds : list (list Z)) (a : list Z) (P : list (list Z)) (r : Z),
    ds <> [] /\ Forall (fun d => (2 <= length d)%nat) ds /\ Forall Repart.sortedZ ds /\
    In a ds /\ respects idZ a P /\
    In r (concat P) /\
    ~ In r (concat (spec_plan idZ (align_divisions_first_only ds) P)) /\
    In r (concat (spec_plan idZ (align_divisions ds) P)).
Proof. exact align_first_only_refuted. Qed.
Print Assumptions C02_align_first_only_refuted.

(* n smallest / first n rows of the sorted input (NFirst, NSmallest: chunk = aggregate = "stable sort, keep the first n") give the
   same rows in the same order for EVERY partitioning: exact list equality, ties in global row order.  (The tree shape -- split_every --
   is irrelevant by TreeReduce.tree_layer_correct.)  Tie: T-LAYER select_layer (real nsmallest vs the extracted nfirst_tree). *)
From DX Require Import Select SelectProofs.
Theorem C02_nsmallest_partition_independent : forall A (key : A -> Z) n (parts : list (list A)),
  nfirst_tree key n parts = firstn n (sort_rows key (concat parts)).
Proof. exact nfirst_tree_correct. Qed.
Print Assumptions C02_nsmallest_partition_independent.

Theorem C02_sort_rows_is_stable_sort : forall A (key : A -> Z) (l : list A),
  Permutation (sort_rows key l) l /\
  Sorted.StronglySorted (fun a b => (key a <= key b)%Z) (sort_rows key l) /\
  (forall z, filter (fun a => (key a =? z)%Z) (sort_rows key l) = filter (fun a => (key a =? z)%Z) l).
Proof. intros A key l. split; [apply sort_rows_perm|]. split; [apply sort_rows_sorted|]. intro z. apply sort_rows_stable. Qed.
Print Assumptions C02_sort_rows_is_stable_sort.
