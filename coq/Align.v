(* Align.v -- alignment of several collections with known divisions before an index-aligned operation
   (_expr.py: calc_divisions_for_align, MaybeAlignPartitions._divisions / ._lower, maybe_align_partitions):

       divisions = list(unique(merge_sorted( *[df.divisions for df in dfs])))
       if len(divisions) == 1: divisions = (divisions[0], divisions[0])
       args = [Repartition(df, new_divisions=divisions, force=True) for df in dfs]
       return expr_cls( *args)                      # blockwise over the aligned partitions

   and the branch taken when every operand has ONE partition:  (min(all divisions), max(all divisions)).

   What a Repartition to divisions b produces is Repart.spec_plan b (the real task plan is tied to it by
   RepartProofs.plan_ok_sound and the per-plan certificate, property C13).
   Definitions only; theorems in AlignProofs.v.  Stdlib only, no axioms. *)
From DX Require Import Base Repart Divisions.
Open Scope Z_scope.

(* toolz.merge_sorted of two sorted sequences *)
Fixpoint merge2 (a : list Z) : list Z -> list Z :=
  fix inner (b : list Z) : list Z :=
    match a, b with
    | [], _ => b
    | _, [] => a
    | x :: a', y :: b' => if y <? x then y :: inner b' else x :: merge2 a' b
    end.

(* toolz.merge_sorted of any number of sorted sequences *)
Definition merge_sorted (ds : list (list Z)) : list Z := fold_right merge2 [] ds.

(* toolz.unique: first occurrences, in order *)
Fixpoint uniq_seen (seen : list Z) (l : list Z) : list Z :=
  match l with
  | [] => []
  | x :: r => if existsb (Z.eqb x) seen then uniq_seen seen r else x :: uniq_seen (x :: seen) r
  end.
Definition unique (l : list Z) : list Z := uniq_seen [] l.

(* calc_divisions_for_align, all divisions known *)
Definition align_divisions (ds : list (list Z)) : list Z :=
  match unique (merge_sorted ds) with
  | [x] => [x; x]
  | u => u
  end.

(* MaybeAlignPartitions._divisions when every operand has one partition (known divisions) *)
Definition minl (l : list Z) : Z := fold_right Z.min (hd 0 l) l.
Definition maxl (l : list Z) : Z := fold_right Z.max (hd 0 l) l.
Definition align_single (ds : list (list Z)) : list Z := [minl (concat ds); maxl (concat ds)].

(* variants that are NOT what the code does (refuted in AlignProofs.v) *)
Definition align_divisions_first_only (ds : list (list Z)) : list Z := hd [] ds.     (* "use the left operand's divisions" *)
Definition align_divisions_nodedup (ds : list (list Z)) : list Z := merge_sorted ds.  (* unique() forgotten *)

Close Scope Z_scope.

Section Sem.
  Variable row : Type.
  Variable idx : row -> Z.

  (* every operand, repartitioned to the common divisions *)
  Definition aligned (ds : list (list Z)) (Ps : list (list (list row))) : list (list (list row)) :=
    map (@spec_plan row idx (align_divisions ds)) Ps.

  (* rows with index value v *)
  Definition sel (v : Z) (l : list row) : list row := filter (fun r => Z.eqb (idx r) v) l.

  (* an operation between two aligned operands, computed partition by partition ... *)
  Definition blockwise2 {out} (f : list row -> list row -> list out) (A B : list (list row)) : list (list out) :=
    map (fun ab => f (fst ab) (snd ab)) (combine A B).
End Sem.
Arguments aligned {row}. Arguments sel {row}. Arguments blockwise2 {row out}.
