(* Shuffle.v -- executable model of dask_expr/_shuffle.py: SimpleShuffle._layer, TaskShuffle._layer
   (staged, digit routing, padding with empty inputs, regroup step when the partition count
   changes, output-partition subset), DiskShuffle._layer, and of dask's shuffle_group /
   shuffle_group_2 / shuffle_group_get.  A row is (target, payload): `target` is the value of the
   `_partitions` column that AssignPartitioningIndex wrote.  Model only; proofs in ShuffleProofs.v. *)
From DX Require Import Base.

Definition digit (n j k : nat) : nat := (n / k ^ j) mod k.
(* the partition index whose base-k digits equal those of p except that digit `s` is `i`
   (Python: inp_part_map[insert(inputs[p], s, i)]) *)
Definition insert_digit (p s i k : nat) : nat := p - digit p s k * k ^ s + i * k ^ s.

Record gtask := {
  gt_input : option nat;          (* Some j = partition j of the previous level; None = empty meta frame *)
  gt_filter : option (list nat);  (* keys kept in the dict of pieces (None = all) *)
  gt_stage : nat; gt_k : nat; gt_np : nat; gt_nfinal : nat }.

Record stage_layer := {
  sl_outs : list (list (nat * nat));     (* per produced partition: pieces (dict key, group index) *)
  sl_parts : list nat;                   (* which partition numbers are produced (positions of sl_outs) *)
  sl_groups : list (nat * gtask) }.      (* group index -> shuffle_group task, ascending *)

Inductive regroup := NoRegroup | Regroup (n_in n_out : nat) (gets : list (nat * nat)).  (* (group i, key p) *)
Record shuffle_layer := { sh_stages : list stage_layer; sh_regroup : regroup }.

Definition dedup_sorted (n : nat) (l : list nat) : list nat :=
  filter (fun x => existsb (Nat.eqb x) l) (seq 0 n).

(* SimpleShuffle._layer *)
Definition simple_layer (n_in n_out : nat) (sel : list nat) (filtered : bool) : shuffle_layer :=
  let flt := if filtered then Some sel else None in
  {| sh_stages :=
       [ {| sl_outs := map (fun p_out => map (fun p_in => (p_out, p_in)) (seq 0 n_in)) sel;
            sl_parts := sel;
            sl_groups := match sel with
                         | [] => []
                         | _ => map (fun p_in => (p_in, {| gt_input := Some p_in; gt_filter := flt; gt_stage := 0;
                                                        gt_k := n_out; gt_np := n_out; gt_nfinal := n_out |}))
                                    (seq 0 n_in)
                         end |} ];
     sh_regroup := NoRegroup |}.

(* TaskShuffle._layer, staged branch; k = nsplits and `stages` come from float code and are parameters *)
Definition task_stage (n_in n_out k stages : nat) (sel : list nat) (filtered : bool) (stage : nat) : stage_layer :=
  let last := ((S stage =? stages) && (n_out =? n_in))%bool in
  let parts_out := if last then sel else seq 0 (k ^ stages) in
  let flt := if (last && filtered)%bool then Some (map (fun p => digit p stage k) sel) else None in
  let outs := map (fun p => map (fun i => (digit p stage k, insert_digit p stage i k)) (seq 0 k)) parts_out in
  let used := dedup_sorted (k ^ stages) (map snd (concat outs)) in
  {| sl_outs := outs; sl_parts := parts_out;
     sl_groups := map (fun inp => (inp, {| gt_input := if stage =? 0 then (if inp <? n_in then Some inp else None) else Some inp;
                                           gt_filter := flt; gt_stage := stage; gt_k := k; gt_np := n_in; gt_nfinal := n_out |})) used |}.

Definition task_layer (n_in n_out k stages : nat) (sel : list nat) (filtered : bool) : shuffle_layer :=
  {| sh_stages := map (task_stage n_in n_out k stages sel filtered) (seq 0 stages);
     sh_regroup := if n_out =? n_in then NoRegroup
                   else Regroup n_in n_out (map (fun p => (p mod n_in, p)) sel) |}.

(* TaskShuffle._layer dispatch *)
Definition task_or_simple (n_in n_out max_branch k stages : nat) (sel : list nat) (filtered : bool) : shuffle_layer :=
  if ((length sel <=? max_branch) || (n_in <=? max_branch))%bool then simple_layer n_in n_out sel filtered
  else task_layer n_in n_out k stages sel filtered.

(* ---- semantics --------------------------------------------------------------------------- *)
Section Exec.
  Variable payload : Type.
  Definition row := (nat * payload)%type.
  Definition target (r : row) : nat := fst r.

  (* shuffle_group(df, "_partitions", stage, k, npartitions, ..) then the dict filter: piece `key` *)
  Definition piece (g : gtask) (part : list row) (key : nat) : option (list row) :=
    let keep := match gt_filter g with None => true | Some f => existsb (Nat.eqb key) f end in
    if keep then Some (filter (fun r => digit (target r mod gt_np g) (gt_stage g) (gt_k g) =? key) part)
    else None.     (* KeyError *)

  Fixpoint lookup {A} (k : nat) (l : list (nat * A)) : option A :=
    match l with [] => None | (k', v) :: r => if k =? k' then Some v else lookup k r end.

  Fixpoint opt_concat {A} (l : list (option (list A))) : option (list A) :=
    match l with
    | [] => Some []
    | None :: _ => None
    | Some x :: r => match opt_concat r with Some y => Some (x ++ y) | None => None end
    end.
  Fixpoint opt_all {A} (l : list (option A)) : option (list A) :=
    match l with
    | [] => Some []
    | None :: _ => None
    | Some x :: r => match opt_all r with Some y => Some (x :: y) | None => None end
    end.

  (* one stage: `prev` are the partitions of the previous level (inputs for stage 0); result is
     indexed like sl_parts: position i holds partition number (nth i sl_parts) *)
  Definition exec_stage (sl : stage_layer) (prev : list (list row)) : option (list (list row)) :=
    opt_all (map (fun pieces =>
                    opt_concat (map (fun ki : nat * nat =>
                                       match lookup (snd ki) (sl_groups sl) with
                                       | None => None
                                       | Some g =>
                                           let inp := match gt_input g with Some j => nth j prev [] | None => [] end in
                                           piece g inp (fst ki)
                                       end) pieces))
                 (sl_outs sl)).

  Fixpoint exec_stages (sts : list stage_layer) (prev : list (list row)) : option (list (list row)) :=
    match sts with
    | [] => Some prev
    | sl :: r => match exec_stage sl prev with Some nxt => exec_stages r nxt | None => None end
    end.

  (* shuffle_group_2 + shuffle_group_get: group i split by target; key p or the empty head *)
  Definition exec_regroup (rg : regroup) (parts : list (list row)) : list (list row) :=
    match rg with
    | NoRegroup => parts
    | Regroup _ _ gets => map (fun ip : nat * nat => filter (fun r => target r =? snd ip) (nth (fst ip) parts [])) gets
    end.

  Definition exec_shuffle (L : shuffle_layer) (Ps : list (list row)) : option (list (list row)) :=
    match exec_stages (sh_stages L) Ps with
    | Some parts => Some (exec_regroup (sh_regroup L) parts)
    | None => None
    end.

  (* what a shuffle must deliver at output position i: the rows whose target is (nth i sel) *)
  Definition routed (Ps : list (list row)) (p : nat) : list row :=
    filter (fun r => target r =? p) (concat Ps).

  (* DiskShuffle: partition tasks append their groups to a shared store in ANY order sigma (a
     permutation of the input positions, fixed by the scheduler); collect(k) runs after the barrier *)
  Definition disk_collect (sigma : list nat) (Ps : list (list row)) (sel : list nat) (p : nat) : list row :=
    if existsb (Nat.eqb p) sel
    then flat_map (fun i => filter (fun r => target r =? p) (nth i Ps [])) sigma
    else [].
  Definition exec_disk (sigma : list nat) (Ps : list (list row)) (sel : list nat) : list (list row) :=
    map (disk_collect sigma Ps sel) sel.
End Exec.
