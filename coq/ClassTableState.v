(* ClassTableState.v -- T-GEN obligation of properties C15 / C16 *)
From Coq Require Import String List Bool.
From DX Require Import GeneratedClassTable ClassTableChecks.
Import ListNotations.
Open Scope string_scope.

(* ---- C15 / C16: reads of process-global mutable state in graph / meta / divisions methods -------- *)
(* allowed: reads with a recompute fallback (the cached-call pattern proved transparent in LRU.v) *)
Definition global_reads_with_fallback : list (string * (string * string)) := [
  ("ReadParquetFSSpec", ("_plan", "_cached_plan")) ].
Definition read_ok (c : class_info) (r : string * string) : bool :=
  existsb (fun a => String.eqb (fst a) (c_name c) && String.eqb (fst (snd a)) (fst r) && String.eqb (snd (snd a)) (snd r)) global_reads_with_fallback.
Definition state_free_b : bool :=
  forallb (fun c => forallb (read_ok c) (c_global_reads c)) class_table.
Lemma state_free_table : state_free_b = true.
Proof. vm_compute. reflexivity. Qed.
