(* ClassTableState.v -- T-GEN obligation of properties C15 / C16 *)
From Coq Require Import String List Bool.
From DX Require Import GeneratedClassTable ClassTableChecks.
Import ListNotations.
Open Scope string_scope.

(* ---- C15 / C16: reads of process-global mutable state in graph / meta / divisions methods -------- *)
(* allowed: reads with a recompute fallback (the cached-call pattern proved transparent in LRU.v) *)
Definition global_reads_with_fallback : list (string * (string * string)) := [
  ("ReadParquetFSSpec", ("_plan", "_cached_plan")) ].
Definition read_ok (c : class_info) (r : string * string) : bool :=
  existsb (fun a => String.eqb (fst a) (c_name c) && String.eqb (fst (snd a)) (fst r) && String.eqb (snd (snd a)) (snd r)) global_reads_with_fallback.
Definition state_free_b : bool :=
  forallb (fun c => forallb (read_ok c) (c_global_reads c)) class_table.
Lemma state_free_table : state_free_b = true.
Proof. vm_compute. reflexivity. Qed.

(* ---- C15 / C16: the process-global mutable state of the package is exactly the reviewed one ----------------- *)
(* Every module-/class-level name bound to a mutable container or memo table (discovered from the AST of the current source,
   never listed by hand) has been reviewed: each is either a cache used through the cached-call pattern (LRU.v), an
   identity table (Expr._instances: equal names = equal expressions), or a constant table that is never written.  A NEW
   piece of process-global state (or a known one read from a new module-level function) must be reviewed before the
   transparency theorems may be applied to the package again: the obligation below then fails. *)
Definition mutable_globals_reviewed : list (string * string) := [
  ("Expr._instances", "_core.py");
  ("FragmentWrapper._filesystems", "io/parquet.py");
  ("Index._cat_attributes", "_collection.py");
  ("Index._dt_attributes", "_collection.py");
  ("_STATS_CACHE", "io/parquet.py");
  ("__all__", "diagnostics/__init__.py");
  ("_cached_plan", "io/parquet.py");
  ("divisions_lru", "_shuffle.py");
  ("make", "datasets.py");
  ("mem_usages_lru", "_repartition.py");
  ("names", "datasets.py") ].
Definition function_global_reads_reviewed : list (string * string) := [
  ("_repartition.py:_get_mem_usages", "mem_usages_lru");
  ("_shuffle.py:_get_divisions", "divisions_lru");
  ("datasets.py:make_categorical", "names");
  ("datasets.py:make_string", "names");
  ("io/parquet.py:_collect_statistics_plan", "_STATS_CACHE");
  ("io/parquet.py:_control_cached_plan", "_cached_plan");
  ("io/parquet.py:to_parquet", "_cached_plan") ].
Definition pair_eqb (a b : string * string) : bool := String.eqb (fst a) (fst b) && String.eqb (snd a) (snd b).
Definition subset_b (l1 l2 : list (string * string)) : bool := forallb (fun a => existsb (pair_eqb a) l2) l1.
(* no unreviewed state (entries that disappeared are harmless) *)
Lemma global_state_reviewed : subset_b mutable_globals mutable_globals_reviewed = true.
Proof. vm_compute. reflexivity. Qed.
Lemma function_global_reads_are_reviewed : subset_b function_global_reads function_global_reads_reviewed = true.
Proof. vm_compute. reflexivity. Qed.
