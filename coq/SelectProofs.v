(* SelectProofs.v -- theorems about Select.v (Head / Tail / Partitions / NFirst).  Stdlib only, no axioms. *)
From Coq Require Import List Arith ZArith Bool Lia Permutation Sorted.
From DX Require Import Base Select.
Import ListNotations.

(* ------------------------------------------------------------------------------------------------------------------ *)
(* 1. Head._lower                                                                                                      *)
(* ------------------------------------------------------------------------------------------------------------------ *)

Lemma firstn_concat_firstn_le : forall A n (ps : list (list A)) m, m <= n ->
  firstn m (concat (map (firstn n) ps)) = firstn m (concat ps).
Proof.
  intros A n ps. induction ps as [|p ps IH]; intros m Hm; [reflexivity|].
  cbn [map concat]. rewrite !firstn_app, firstn_firstn, firstn_length.
  replace (Nat.min m n) with m by lia.
  f_equal.
  destruct (Nat.le_gt_cases (length p) n) as [Hl|Hl].
  - replace (Nat.min n (length p)) with (length p) by lia. apply IH. lia.
  - replace (m - Nat.min n (length p)) with 0 by lia.
    replace (m - length p) with 0 by lia. reflexivity.
Qed.

Lemma firstn_concat_firstn : forall A n (ps : list (list A)),
  firstn n (concat (map (firstn n) ps)) = firstn n (concat ps).
Proof. intros A n ps. apply firstn_concat_firstn_le. lia. Qed.

Theorem head_lowered_correct : forall A (n k : nat) (parts : list (list A)),
  1 <= k -> head_lowered n k parts = head_spec n k parts.
Proof.
  intros A n k parts Hk. unfold head_lowered, head_spec, head_rows.
  destruct k as [|[|k]]; [lia| |].
  - destruct parts as [|p ps]; cbn [firstn map concat].
    + destruct n; reflexivity.
    + rewrite !app_nil_r. reflexivity.
  - apply firstn_concat_firstn.
Qed.

(* ------------------------------------------------------------------------------------------------------------------ *)
(* 2. forgetting the second head                                                                                       *)
(* ------------------------------------------------------------------------------------------------------------------ *)

Theorem head_no_second_refuted : exists (n k : nat) (parts : list (list nat)),
  2 <= k /\ head_lowered_no_second n k parts <> head_spec n k parts.
Proof.
  exists 1, 2, [[1];[2]]. split; [lia|]. vm_compute. intro H. discriminate H.
Qed.

Theorem head_no_second_one_partition : forall A (n : nat) (parts : list (list A)),
  head_lowered_no_second n 1 parts = head_spec n 1 parts.
Proof.
  intros A n parts.
  rewrite <- (head_lowered_correct A n 1 parts) by lia. reflexivity.
Qed.

(* ------------------------------------------------------------------------------------------------------------------ *)
(* 3. Tail._lower                                                                                                      *)
(* ------------------------------------------------------------------------------------------------------------------ *)

Theorem tail_lowered_correct : forall A n (parts : list (list A)),
  parts <> [] -> tail_lowered n parts = tail_spec n parts.
Proof.
  intros A n parts Hne. unfold tail_lowered, tail_spec.
  destruct parts as [|p ps]; [congruence|].
  cbn [map concat]. apply app_nil_r.
Qed.

(* ------------------------------------------------------------------------------------------------------------------ *)
(* 4. element-wise push-down                                                                                           *)
(* ------------------------------------------------------------------------------------------------------------------ *)

Theorem head_elemwise1 : forall A B (f : A -> B) n (l : list A),
  head_rows n (map f l) = map f (head_rows n l).
Proof. intros A B f n l. unfold head_rows. apply firstn_map. Qed.

Theorem tail_elemwise1 : forall A B (f : A -> B) n (l : list A),
  tail_rows n (map f l) = map f (tail_rows n l).
Proof. intros A B f n l. unfold tail_rows. rewrite map_length. apply skipn_map. Qed.

Lemma zipw_nil_r : forall A B C (f : A -> B -> C) (l : list A), zipw f l [] = [].
Proof. intros A B C f l. destruct l; reflexivity. Qed.

Lemma zipw_length : forall A B C (f : A -> B -> C) (l1 : list A) (l2 : list B),
  length (zipw f l1 l2) = Nat.min (length l1) (length l2).
Proof.
  intros A B C f l1. induction l1 as [|x r1 IH]; intros [|y r2]; cbn [zipw length Nat.min]; try reflexivity.
  rewrite IH. reflexivity.
Qed.

Lemma firstn_zipw : forall A B C (f : A -> B -> C) n (l1 : list A) (l2 : list B),
  firstn n (zipw f l1 l2) = zipw f (firstn n l1) (firstn n l2).
Proof.
  intros A B C f n. induction n as [|n IH]; intros l1 l2; [reflexivity|].
  destruct l1 as [|x r1]; [reflexivity|]. destruct l2 as [|y r2]; [reflexivity|].
  cbn [zipw firstn]. rewrite IH. reflexivity.
Qed.

Lemma skipn_zipw : forall A B C (f : A -> B -> C) n (l1 : list A) (l2 : list B),
  skipn n (zipw f l1 l2) = zipw f (skipn n l1) (skipn n l2).
Proof.
  intros A B C f n. induction n as [|n IH]; intros l1 l2; [reflexivity|].
  destruct l1 as [|x r1]; [reflexivity|].
  destruct l2 as [|y r2]; [cbn [zipw skipn]; rewrite zipw_nil_r; reflexivity|].
  cbn [zipw skipn]. apply IH.
Qed.

Theorem head_elemwise2 : forall A B C (f : A -> B -> C) n (l1 : list A) (l2 : list B),
  head_rows n (zipw f l1 l2) = zipw f (head_rows n l1) (head_rows n l2).
Proof. intros. unfold head_rows. apply firstn_zipw. Qed.

Theorem tail_elemwise2 : forall A B C (f : A -> B -> C) n (l1 : list A) (l2 : list B),
  length l1 = length l2 ->
  tail_rows n (zipw f l1 l2) = zipw f (tail_rows n l1) (tail_rows n l2).
Proof.
  intros A B C f n l1 l2 Hlen. unfold tail_rows.
  rewrite zipw_length, skipn_zipw, Hlen, Nat.min_id. reflexivity.
Qed.

Theorem tail_elemwise2_unequal_refuted :
  exists (f : nat -> nat -> nat) n (l1 l2 : list nat),
    length l1 <> length l2 /\
    tail_rows n (zipw f l1 l2) <> zipw f (tail_rows n l1) (tail_rows n l2).
Proof.
  exists Nat.add, 1, [1;2;3], [10;20]. split.
  - vm_compute. intro H. discriminate H.
  - vm_compute. intro H. discriminate H.
Qed.

(* same_shape as a Forall2 *)
Lemma same_shape_Forall2 : forall A B (P1 : list (list A)) (P2 : list (list B)),
  same_shape P1 P2 -> Forall2 (fun a b => length a = length b) P1 P2.
Proof.
  intros A B P1. induction P1 as [|a P1 IH]; intros [|b P2] [Hl Hn]; cbn [length] in Hl; try discriminate Hl.
  - constructor.
  - constructor.
    + exact (Hn 0).
    + apply IH. split; [lia|]. intro i. exact (Hn (S i)).
Qed.

Lemma Forall2_firstn : forall A B (R : A -> B -> Prop) k (l1 : list A) (l2 : list B),
  Forall2 R l1 l2 -> Forall2 R (firstn k l1) (firstn k l2).
Proof.
  intros A B R k. induction k as [|k IH]; intros l1 l2 H; [constructor|].
  destruct H as [|a b r1 r2 Hab Hr]; cbn [firstn]; constructor; [exact Hab|apply IH; exact Hr].
Qed.

Lemma zipw_app : forall A B C (f : A -> B -> C) (a1 b1 : list A) (a2 b2 : list B),
  length a1 = length a2 -> zipw f (a1 ++ b1) (a2 ++ b2) = zipw f a1 a2 ++ zipw f b1 b2.
Proof.
  intros A B C f a1. induction a1 as [|x a1 IH]; intros b1 [|y a2] b2 Hlen; cbn [length] in Hlen; try discriminate Hlen.
  - reflexivity.
  - cbn [app zipw]. rewrite IH by lia. reflexivity.
Qed.

Lemma concat_zipw : forall A B C (f : A -> B -> C) (P1 : list (list A)) (P2 : list (list B)),
  Forall2 (fun a b => length a = length b) P1 P2 ->
  concat (zipw (zipw f) P1 P2) = zipw f (concat P1) (concat P2).
Proof.
  intros A B C f P1 P2 H. induction H as [|a b r1 r2 Hab Hr IH]; [reflexivity|].
  cbn [zipw concat]. rewrite IH, zipw_app by exact Hab. reflexivity.
Qed.

Lemma last_cons_cons : forall A (x y : A) l d, last (x :: y :: l) d = last (y :: l) d.
Proof. reflexivity. Qed.

Lemma last_zipw : forall A B C (f : A -> B -> C) (P1 : list (list A)) (P2 : list (list B)),
  length P1 = length P2 ->
  last (zipw (zipw f) P1 P2) [] = zipw f (last P1 []) (last P2 []).
Proof.
  intros A B C f P1. induction P1 as [|a P1 IH]; intros [|b P2] Hlen; cbn [length] in Hlen; try discriminate Hlen.
  - reflexivity.
  - destruct P1 as [|a' P1]; destruct P2 as [|b' P2]; cbn [length] in Hlen; try discriminate Hlen.
    + reflexivity.
    + rewrite !last_cons_cons.
      change (zipw (zipw f) (a :: a' :: P1) (b :: b' :: P2))
        with (zipw f a b :: zipw f a' b' :: zipw (zipw f) P1 P2).
      rewrite last_cons_cons.
      change (zipw f a' b' :: zipw (zipw f) P1 P2) with (zipw (zipw f) (a' :: P1) (b' :: P2)).
      apply IH. cbn [length]. lia.
Qed.

Lemma last_map : forall A B (g : A -> B) (l : list A) d, last (map g l) (g d) = g (last l d).
Proof.
  intros A B g l d. induction l as [|x l IH]; [reflexivity|].
  destruct l as [|y l]; [reflexivity|].
  cbn [map]. rewrite !last_cons_cons. exact IH.
Qed.

Theorem head_spec_elemwise1 : forall A B (f : A -> B) n k (parts : list (list A)),
  head_spec n k (elemwise1 f parts) = map f (head_spec n k parts).
Proof.
  intros A B f n k parts. unfold head_spec, head_rows, elemwise1.
  rewrite firstn_map, <- concat_map, firstn_map. reflexivity.
Qed.

Theorem head_spec_elemwise2 : forall A B C (f : A -> B -> C) n k (P1 : list (list A)) (P2 : list (list B)),
  same_shape P1 P2 ->
  head_spec n k (elemwise2 f P1 P2) = zipw f (head_spec n k P1) (head_spec n k P2).
Proof.
  intros A B C f n k P1 P2 Hs. unfold head_spec, head_rows, elemwise2.
  rewrite firstn_zipw, concat_zipw, firstn_zipw.
  - reflexivity.
  - apply Forall2_firstn. apply same_shape_Forall2. exact Hs.
Qed.

Theorem tail_spec_elemwise1 : forall A B (f : A -> B) n (parts : list (list A)),
  tail_spec n (elemwise1 f parts) = map f (tail_spec n parts).
Proof.
  intros A B f n parts. unfold tail_spec, elemwise1.
  rewrite <- tail_elemwise1. f_equal.
  exact (last_map _ _ (map f) parts []).
Qed.

Lemma same_shape_last : forall A B (P1 : list (list A)) (P2 : list (list B)),
  Forall2 (fun a b => length a = length b) P1 P2 -> length (last P1 []) = length (last P2 []).
Proof.
  intros A B P1 P2 H. induction H as [|a b r1 r2 Hab Hr IH]; [reflexivity|].
  destruct Hr as [|a' b' r1 r2 Hab' Hr]; [exact Hab|].
  rewrite !last_cons_cons. exact IH.
Qed.

Theorem tail_spec_elemwise2 : forall A B C (f : A -> B -> C) n (P1 : list (list A)) (P2 : list (list B)),
  same_shape P1 P2 ->
  tail_spec n (elemwise2 f P1 P2) = zipw f (tail_spec n P1) (tail_spec n P2).
Proof.
  intros A B C f n P1 P2 Hs. unfold tail_spec, elemwise2.
  rewrite last_zipw by (destruct Hs as [Hl _]; exact Hl).
  apply tail_elemwise2. apply same_shape_last. apply same_shape_Forall2. exact Hs.
Qed.

Theorem head_filter_refuted : exists (p : nat -> bool) n (l : list nat),
  head_rows n (filter p l) <> filter p (head_rows n l).
Proof.
  exists Nat.even, 1, [1;2]. vm_compute. intro H. discriminate H.
Qed.

(* ------------------------------------------------------------------------------------------------------------------ *)
(* 5. partition selection                                                                                              *)
(* ------------------------------------------------------------------------------------------------------------------ *)

Theorem select_elemwise1 : forall A B (f : A -> B) sel (parts : list (list A)),
  select sel (elemwise1 f parts) = elemwise1 f (select sel parts).
Proof.
  intros A B f sel parts. unfold select, elemwise1. rewrite map_map.
  apply map_ext. intro i. exact (map_nth (map f) parts [] i).
Qed.

Lemma nth_zipw : forall A B C (f : A -> B -> C) (P1 : list (list A)) (P2 : list (list B)) i,
  nth i (zipw (zipw f) P1 P2) [] = zipw f (nth i P1 []) (nth i P2 []).
Proof.
  intros A B C f P1. induction P1 as [|a P1 IH]; intros P2 i.
  - destruct i; reflexivity.
  - destruct P2 as [|b P2].
    + cbn [zipw]. destruct i; cbn [nth]; rewrite zipw_nil_r; reflexivity.
    + destruct i as [|i]; [reflexivity|]. cbn [zipw nth]. apply IH.
Qed.

(* the general fact: no hypothesis at all is needed, because an out-of-range partition number gives the empty
   partition on both sides and zipw of anything with [] is [] *)
Theorem select_elemwise2_out_of_range_note :
  forall A B C (f : A -> B -> C) sel (P1 : list (list A)) (P2 : list (list B)),
  select sel (elemwise2 f P1 P2) = elemwise2 f (select sel P1) (select sel P2).
Proof.
  intros A B C f sel P1 P2. unfold select, elemwise2.
  induction sel as [|i sel IH]; [reflexivity|].
  cbn [map zipw]. rewrite IH, nth_zipw. reflexivity.
Qed.

Theorem select_elemwise2 : forall A B C (f : A -> B -> C) sel (P1 : list (list A)) (P2 : list (list B)),
  same_shape P1 P2 -> Forall (fun i => i < length P1) sel ->
  select sel (elemwise2 f P1 P2) = elemwise2 f (select sel P1) (select sel P2).
Proof. intros A B C f sel P1 P2 _ _. apply select_elemwise2_out_of_range_note. Qed.

Theorem select_select : forall A (s1 s2 : list nat) (parts : list (list A)),
  Forall (fun i => i < length s1) s2 ->
  select s2 (select s1 parts) = select (map (fun i => nth i s1 0) s2) parts.
Proof.
  intros A s1 s2 parts Hr. unfold select. rewrite map_map.
  apply map_ext_in. intros i Hi.
  rewrite Forall_forall in Hr. specialize (Hr i Hi).
  rewrite (nth_indep _ [] (nth 0 parts [])) by (rewrite map_length; exact Hr).
  exact (map_nth (fun j => nth j parts []) s1 0 i).
Qed.

(* the range hypothesis of select_select IS needed: an out-of-range index of the outer selection gives the empty
   partition on the left but partition number 0 (the default of nth) on the right *)
Theorem select_select_out_of_range_refuted : exists (s1 s2 : list nat) (parts : list (list nat)),
  select s2 (select s1 parts) <> select (map (fun i => nth i s1 0) s2) parts.
Proof.
  exists [], [0], [[7]]. vm_compute. intro H. discriminate H.
Qed.

Theorem select_all : forall A (parts : list (list A)), select (seq 0 (length parts)) parts = parts.
Proof. intros A parts. unfold select. apply map_nth_seq. Qed.

Lemma firstn_select : forall A (parts : list (list A)) k,
  select (seq 0 (Nat.min k (length parts))) parts = firstn k parts.
Proof.
  intros A parts. unfold select. induction parts as [|p ps IH]; intros k.
  - rewrite Nat.min_0_r. destruct k; reflexivity.
  - destruct k as [|k]; [reflexivity|].
    change (Nat.min (S k) (length (p :: ps))) with (S (Nat.min k (length ps))).
    cbn [seq map nth firstn]. f_equal.
    rewrite <- seq_shift, map_map. cbn [nth]. apply IH.
Qed.

Theorem head_is_select : forall A n k (parts : list (list A)),
  head_spec n k parts = head_rows n (concat (select (seq 0 (Nat.min k (length parts))) parts)).
Proof. intros A n k parts. rewrite firstn_select. reflexivity. Qed.

(* ------------------------------------------------------------------------------------------------------------------ *)
(* 6. stable insertion sort                                                                                            *)
(* ------------------------------------------------------------------------------------------------------------------ *)

Section SortFacts.
  Variable A : Type.
  Variable key : A -> Z.

  Local Notation kle := (fun a b : A => (key a <= key b)%Z).
  Local Notation ins := (insert_sorted key).
  Local Notation srt := (sort_rows key).
  Local Notation keq z := (fun a : A => (key a =? z)%Z).

  Lemma sort_cons : forall x l, srt (x :: l) = ins x (srt l).
  Proof. reflexivity. Qed.

  Lemma ins_perm : forall x l, Permutation (ins x l) (x :: l).
  Proof.
    intros x l. induction l as [|y r IH]; [apply Permutation_refl|].
    cbn [insert_sorted]. destruct (key x <=? key y)%Z.
    - apply Permutation_refl.
    - eapply perm_trans; [apply perm_skip; exact IH|apply perm_swap].
  Qed.

  Lemma sort_rows_perm_s : forall l, Permutation (srt l) l.
  Proof.
    induction l as [|x l IH]; [apply perm_nil|].
    rewrite sort_cons. eapply perm_trans; [apply ins_perm|apply perm_skip; exact IH].
  Qed.

  Lemma ins_length : forall x l, length (ins x l) = S (length l).
  Proof.
    intros x l. induction l as [|y r IH]; [reflexivity|].
    cbn [insert_sorted]. destruct (key x <=? key y)%Z; cbn [length]; [reflexivity|rewrite IH; reflexivity].
  Qed.

  Lemma Forall_ins : forall (P : A -> Prop) x l, P x -> Forall P l -> Forall P (ins x l).
  Proof.
    intros P x l Hx Hl. induction Hl as [|y r Hy Hr IH]; [repeat constructor; exact Hx|].
    cbn [insert_sorted]. destruct (key x <=? key y)%Z.
    - constructor; [exact Hx|constructor; assumption].
    - constructor; assumption.
  Qed.

  Lemma ins_sorted : forall x l, StronglySorted kle l -> StronglySorted kle (ins x l).
  Proof.
    intros x l Hs. induction Hs as [|y r Hr IH Hy].
    - cbn [insert_sorted]. constructor; constructor.
    - cbn [insert_sorted]. destruct (key x <=? key y)%Z eqn:E.
      + apply Z.leb_le in E. constructor.
        * constructor; assumption.
        * constructor; [exact E|].
          eapply Forall_impl; [|exact Hy]. cbv beta. intros a Ha. lia.
      + apply Z.leb_gt in E. constructor; [exact IH|].
        apply Forall_ins; [lia|exact Hy].
  Qed.

  Lemma sort_rows_sorted_s : forall l, StronglySorted kle (srt l).
  Proof.
    induction l as [|x l IH]; [constructor|]. rewrite sort_cons. apply ins_sorted. exact IH.
  Qed.

  Lemma filter_ins : forall z x l,
    filter (keq z) (ins x l) = if (key x =? z)%Z then x :: filter (keq z) l else filter (keq z) l.
  Proof.
    intros z x l. induction l as [|y r IH].
    - reflexivity.
    - cbn [insert_sorted]. destruct (key x <=? key y)%Z eqn:E.
      + reflexivity.
      + cbn [filter]. rewrite IH.
        destruct (key x =? z)%Z eqn:Ex; destruct (key y =? z)%Z eqn:Ey; try reflexivity.
        apply Z.eqb_eq in Ex. apply Z.eqb_eq in Ey. apply Z.leb_gt in E. lia.
  Qed.

  Lemma sort_rows_stable_s : forall z l, filter (keq z) (srt l) = filter (keq z) l.
  Proof.
    intros z l. induction l as [|x l IH]; [reflexivity|].
    rewrite sort_cons, filter_ins, IH. reflexivity.
  Qed.

  Lemma sort_rows_sorted_id_s : forall l, StronglySorted kle l -> srt l = l.
  Proof.
    intros l Hs. induction Hs as [|x r Hr IH Hx]; [reflexivity|].
    rewrite sort_cons, IH. destruct Hx as [|y r' Hy Hr']; [reflexivity|].
    cbn [insert_sorted]. apply Z.leb_le in Hy. rewrite Hy. reflexivity.
  Qed.

  (* ---- uniqueness: a key-sorted list is determined by its per-key subsequences ---- *)

  Lemma head_key_le : forall x t y r,
    StronglySorted kle (y :: r) -> filter (keq (key x)) (y :: r) = x :: t -> (key y <= key x)%Z.
  Proof.
    intros x t y r Hs Hf.
    assert (Hin : In x (filter (keq (key x)) (y :: r))) by (rewrite Hf; left; reflexivity).
    apply filter_In in Hin. destruct Hin as [Hin _].
    destruct Hin as [Heq|Hin]; [subst; lia|].
    apply StronglySorted_inv in Hs. destruct Hs as [_ Hy].
    rewrite Forall_forall in Hy. exact (Hy x Hin).
  Qed.

  Lemma sorted_filter_unique : forall l1 l2,
    StronglySorted kle l1 -> StronglySorted kle l2 ->
    (forall z, filter (keq z) l1 = filter (keq z) l2) -> l1 = l2.
  Proof.
    induction l1 as [|x r1 IH]; intros [|y r2] Hs1 Hs2 Hf.
    - reflexivity.
    - specialize (Hf (key y)). cbn [filter] in Hf. rewrite Z.eqb_refl in Hf. discriminate Hf.
    - specialize (Hf (key x)). cbn [filter] in Hf. rewrite Z.eqb_refl in Hf. discriminate Hf.
    - assert (Hyx : (key y <= key x)%Z).
      { pose proof (Hf (key x)) as H.
        change (filter (keq (key x)) (x :: r1))
          with (if (key x =? key x)%Z then x :: filter (keq (key x)) r1 else filter (keq (key x)) r1) in H.
        rewrite Z.eqb_refl in H.
        symmetry in H. eapply head_key_le; [exact Hs2|exact H]. }
      assert (Hxy : (key x <= key y)%Z).
      { pose proof (Hf (key y)) as H.
        change (filter (keq (key y)) (y :: r2))
          with (if (key y =? key y)%Z then y :: filter (keq (key y)) r2 else filter (keq (key y)) r2) in H.
        rewrite Z.eqb_refl in H.
        eapply head_key_le; [exact Hs1|exact H]. }
      assert (Hk : key y = key x) by lia.
      assert (Hxe : x = y).
      { pose proof (Hf (key x)) as H. cbn [filter] in H. rewrite Hk, Z.eqb_refl in H.
        injection H as H _. exact H. }
      subst y. f_equal.
      apply StronglySorted_inv in Hs1. apply StronglySorted_inv in Hs2.
      apply IH; [tauto|tauto|].
      intro z. specialize (Hf z). cbn [filter] in Hf.
      destruct (key x =? z)%Z; [injection Hf as Hf; exact Hf|exact Hf].
  Qed.

  (* ---- sort of an append ---- *)

  Lemma sort_app : forall a b, srt (a ++ b) = fold_right (fun x acc => ins x acc) (srt b) a.
  Proof. intros a b. unfold sort_rows. apply fold_right_app. Qed.

  Lemma fold_ins_sorted : forall a s,
    StronglySorted kle s -> StronglySorted kle (fold_right (fun x acc => ins x acc) s a).
  Proof.
    intros a s Hs. induction a as [|x a IH]; [exact Hs|]. cbn [fold_right]. apply ins_sorted. exact IH.
  Qed.

  Lemma fold_ins_filter : forall z a s,
    filter (keq z) (fold_right (fun x acc => ins x acc) s a) = filter (keq z) a ++ filter (keq z) s.
  Proof.
    intros z a s. induction a as [|x a IH]; [reflexivity|].
    cbn [fold_right filter]. rewrite filter_ins, IH. destruct (key x =? z)%Z; reflexivity.
  Qed.

  Lemma sort_sort_app : forall a b, srt (srt a ++ b) = srt (a ++ b).
  Proof.
    intros a b. rewrite !sort_app. apply sorted_filter_unique.
    - apply fold_ins_sorted. apply sort_rows_sorted_s.
    - apply fold_ins_sorted. apply sort_rows_sorted_s.
    - intro z. rewrite !fold_ins_filter, sort_rows_stable_s. reflexivity.
  Qed.

  (* ---- truncation commutes with insertion ---- *)

  Lemma firstn_cons_firstn : forall n (y : A) r, firstn n (y :: firstn n r) = firstn n (y :: r).
  Proof.
    intros n y r. destruct n as [|n]; [reflexivity|].
    change (firstn (S n) (y :: firstn (S n) r)) with (y :: firstn n (firstn (S n) r)).
    change (firstn (S n) (y :: r)) with (y :: firstn n r).
    rewrite firstn_firstn. replace (Nat.min n (S n)) with n by lia. reflexivity.
  Qed.

  Lemma firstn_ins : forall n x l, firstn n (ins x l) = firstn n (ins x (firstn n l)).
  Proof.
    intros n x l. revert n. induction l as [|y r IH]; intros n.
    - destruct n; reflexivity.
    - destruct n as [|n]; [reflexivity|].
      cbn [firstn insert_sorted]. destruct (key x <=? key y)%Z.
      + cbn [firstn]. rewrite firstn_cons_firstn. reflexivity.
      + cbn [firstn]. rewrite IH. reflexivity.
  Qed.

  Lemma firstn_fold_ins : forall n a l l',
    firstn n l = firstn n l' ->
    firstn n (fold_right (fun x acc => ins x acc) l a) = firstn n (fold_right (fun x acc => ins x acc) l' a).
  Proof.
    intros n a l l' H. induction a as [|x a IH]; [exact H|].
    cbn [fold_right]. rewrite firstn_ins, IH, <- firstn_ins. reflexivity.
  Qed.

  Lemma Forall_firstn_s : forall (P : A -> Prop) n l, Forall P l -> Forall P (firstn n l).
  Proof.
    intros P n l H. revert n. induction H as [|x l Hx Hl IH]; intros n.
    - destruct n; constructor.
    - destruct n; cbn [firstn]; constructor; [exact Hx|apply IH].
  Qed.

  Lemma sorted_firstn : forall n l, StronglySorted kle l -> StronglySorted kle (firstn n l).
  Proof.
    intros n l H. revert n. induction H as [|x l Hl IH Hx]; intros n.
    - destruct n; constructor.
    - destruct n; cbn [firstn]; constructor; [apply IH|apply Forall_firstn_s; exact Hx].
  Qed.

  (* the aggregate sees only the chunk of the RIGHT operand *)
  Lemma nfirst_merge_r : forall n a b,
    firstn n (srt (a ++ b)) = firstn n (srt (a ++ firstn n (srt b))).
  Proof.
    intros n a b. rewrite !sort_app. apply firstn_fold_ins.
    rewrite (sort_rows_sorted_id_s (firstn n (srt b))) by (apply sorted_firstn; apply sort_rows_sorted_s).
    rewrite firstn_firstn, Nat.min_id. reflexivity.
  Qed.

  (* ---- rows that sort behind n earlier rows never reach the first n ---- *)

  Lemma ins_app_le : forall x l1 r,
    Forall (fun b => (key x <= key b)%Z) r -> ins x (l1 ++ r) = ins x l1 ++ r.
  Proof.
    intros x l1 r Hr. induction l1 as [|a l1 IH].
    - cbn [app insert_sorted]. destruct Hr as [|b r' Hb Hr']; [reflexivity|].
      cbn [insert_sorted]. apply Z.leb_le in Hb. rewrite Hb. reflexivity.
    - cbn [app insert_sorted]. destruct (key x <=? key a)%Z; [reflexivity|].
      rewrite IH. reflexivity.
  Qed.

  Lemma ins_split : forall y s, StronglySorted kle s ->
    exists s1 s2, s = s1 ++ s2 /\ ins y s = s1 ++ y :: s2 /\ Forall (fun b => (key y <= key b)%Z) s2.
  Proof.
    intros y s Hs. induction Hs as [|a s Hs' IH Ha].
    - exists [], []. repeat split. constructor.
    - cbn [insert_sorted]. destruct (key y <=? key a)%Z eqn:E.
      + apply Z.leb_le in E. exists [], (a :: s). repeat split.
        constructor; [exact E|]. eapply Forall_impl; [|exact Ha]. cbv beta. intros b Hb. lia.
      + destruct IH as [s1 [s2 [E1 [E2 HF]]]].
        exists (a :: s1), s2. repeat split.
        * cbn [app]. rewrite <- E1. reflexivity.
        * cbn [app]. rewrite E2. reflexivity.
        * exact HF.
  Qed.

  Lemma drop_late : forall n y p s,
    (forall x, In x p -> (key x <= key y)%Z) -> n <= length p -> StronglySorted kle s ->
    firstn n (fold_right (fun x acc => ins x acc) (ins y s) p)
    = firstn n (fold_right (fun x acc => ins x acc) s p).
  Proof.
    intros n y p s Hp Hn Hs.
    assert (H : exists l1 l2,
              fold_right (fun x acc => ins x acc) (ins y s) p = l1 ++ y :: l2 /\
              fold_right (fun x acc => ins x acc) s p = l1 ++ l2 /\
              Forall (fun b => (key y <= key b)%Z) l2 /\ length p <= length l1).
    { clear Hn. induction p as [|x p IH].
      - destruct (ins_split y s Hs) as [s1 [s2 [E1 [E2 HF]]]].
        exists s1, s2. cbn [fold_right length]. repeat split; [exact E2|exact E1|exact HF|lia].
      - destruct IH as [l1 [l2 [E1 [E2 [HF Hl]]]]].
        { intros x0 Hx0. apply Hp. right. exact Hx0. }
        assert (Hxy : (key x <= key y)%Z) by (apply Hp; left; reflexivity).
        exists (ins x l1), l2. cbn [fold_right length]. rewrite E1, E2.
        assert (HF' : Forall (fun b => (key x <= key b)%Z) l2).
        { eapply Forall_impl; [|exact HF]. cbv beta. intros b Hb. lia. }
        repeat split.
        + apply ins_app_le. constructor; [exact Hxy|exact HF'].
        + apply ins_app_le. exact HF'.
        + exact HF.
        + rewrite ins_length. lia. }
    destruct H as [l1 [l2 [E1 [E2 [_ Hl]]]]].
    rewrite E1, E2, !firstn_app.
    replace (n - length l1) with 0 by lia. reflexivity.
  Qed.

  Lemma drop_tail : forall n p q b,
    (forall x y, In x p -> In y q -> (key x <= key y)%Z) -> n <= length p ->
    firstn n (srt (p ++ q ++ b)) = firstn n (srt (p ++ b)).
  Proof.
    intros n p q b Hpq Hn. induction q as [|y q IH]; [reflexivity|].
    rewrite sort_app. cbn [app]. rewrite sort_cons.
    rewrite drop_late.
    - rewrite <- sort_app. apply IH. intros x y' Hx Hy'. apply Hpq; [exact Hx|right; exact Hy'].
    - intros x Hx. apply Hpq; [exact Hx|left; reflexivity].
    - exact Hn.
    - apply sort_rows_sorted_s.
  Qed.

  Lemma sorted_app_le : forall p q x y,
    StronglySorted kle (p ++ q) -> In x p -> In y q -> (key x <= key y)%Z.
  Proof.
    induction p as [|a p IH]; intros q x y Hs Hx Hy; [destruct Hx|].
    cbn [app] in Hs. apply StronglySorted_inv in Hs. destruct Hs as [Hs Ha].
    destruct Hx as [->|Hx].
    - rewrite Forall_forall in Ha. apply Ha. apply in_or_app. right. exact Hy.
    - eapply IH; eassumption.
  Qed.

  (* the aggregate sees only the chunk of the LEFT operand *)
  Lemma nfirst_merge_l : forall n a b,
    firstn n (srt (a ++ b)) = firstn n (srt (firstn n (srt a) ++ b)).
  Proof.
    intros n a b. rewrite <- (sort_sort_app a b).
    pose proof (sort_rows_sorted_s a) as Hu. set (u := srt a) in *.
    assert (H : firstn n (srt ((firstn n u ++ skipn n u) ++ b)) = firstn n (srt (firstn n u ++ b))).
    { rewrite <- app_assoc. destruct (le_gt_dec n (length u)) as [Hl|Hl].
      - apply drop_tail.
        + intros x y Hx Hy. eapply sorted_app_le; [|exact Hx|exact Hy].
          rewrite firstn_skipn. exact Hu.
        + rewrite firstn_length. lia.
      - rewrite skipn_all2 by lia. reflexivity. }
    rewrite firstn_skipn in H. exact H.
  Qed.

  Lemma nfirst_tree_correct_s : forall n (parts : list (list A)),
    nfirst_tree key n parts = nfirst_spec key n parts.
  Proof.
    intros n parts. unfold nfirst_tree, nfirst_spec, nfirst_chunk.
    induction parts as [|p ps IH]; [reflexivity|].
    cbn [map concat].
    rewrite <- (nfirst_merge_l n p (concat (map (fun l => firstn n (srt l)) ps))).
    rewrite (nfirst_merge_r n p (concat (map (fun l => firstn n (srt l)) ps))).
    rewrite IH.
    symmetry. apply nfirst_merge_r.
  Qed.
End SortFacts.

Theorem sort_rows_perm : forall A (key : A -> Z) (l : list A), Permutation (sort_rows key l) l.
Proof. exact sort_rows_perm_s. Qed.

Theorem sort_rows_sorted : forall A (key : A -> Z) (l : list A),
  StronglySorted (fun a b => (key a <= key b)%Z) (sort_rows key l).
Proof. exact sort_rows_sorted_s. Qed.

Theorem sort_rows_stable : forall A (key : A -> Z) (l : list A) z,
  filter (fun a => (key a =? z)%Z) (sort_rows key l) = filter (fun a => (key a =? z)%Z) l.
Proof. intros A key l z. apply sort_rows_stable_s. Qed.

Theorem sort_rows_sorted_id : forall A (key : A -> Z) (l : list A),
  StronglySorted (fun a b => (key a <= key b)%Z) l -> sort_rows key l = l.
Proof. exact sort_rows_sorted_id_s. Qed.

(* ------------------------------------------------------------------------------------------------------------------ *)
(* 7. NFirst tree = the n smallest rows of the whole collection, ties in global row order (exact list equality)         *)
(* ------------------------------------------------------------------------------------------------------------------ *)

Theorem nfirst_tree_correct : forall A (key : A -> Z) n (parts : list (list A)),
  nfirst_tree key n parts = nfirst_spec key n parts.
Proof. exact nfirst_tree_correct_s. Qed.

(* ------------------------------------------------------------------------------------------------------------------ *)
(* 8. Head(SortValues) -> NFirst                                                                                       *)
(* ------------------------------------------------------------------------------------------------------------------ *)

Theorem head_of_sorted_is_nfirst : forall A (key : A -> Z) n (parts sp : list (list A)),
  sorted_partitioning key parts sp -> n <= length (hd [] sp) ->
  head_spec n 1 sp = nfirst_spec key n parts.
Proof.
  intros A key n parts sp Hsp Hn. unfold sorted_partitioning in Hsp.
  unfold head_spec, nfirst_spec, head_rows. rewrite <- Hsp.
  destruct sp as [|a r].
  - cbn [hd length] in Hn. replace n with 0 by lia. reflexivity.
  - cbn [hd] in Hn. cbn [firstn concat]. rewrite !firstn_app.
    replace (n - length a) with 0 by lia. reflexivity.
Qed.

Theorem head_of_sorted_short_first_partition_refuted :
  exists (parts sp : list (list (Z * Z))) (n : nat),
    sorted_partitioning fst parts sp /\ length (hd [] sp) < n /\
    head_spec n 1 sp <> nfirst_spec fst n parts.
Proof.
  exists [[(2,1)];[(1,2)]]%Z, [[(1,2)];[(2,1)]]%Z, 2.
  split; [vm_compute; reflexivity|]. split; [vm_compute; lia|].
  vm_compute. intro H. discriminate H.
Qed.

(* ------------------------------------------------------------------------------------------------------------------ *)
(* 9. non-vacuity                                                                                                      *)
(* ------------------------------------------------------------------------------------------------------------------ *)

Definition ex_parts : list (list (Z * Z)) :=
  [[(3,1);(1,2)]; [(3,3);(1,4);(2,5)]; [(1,6);(2,7)]]%Z.
Definition ex_sorted_parts : list (list (Z * Z)) :=
  [[(1,2);(1,4);(1,6)]; [(2,5);(2,7)]; [(3,1);(3,3)]]%Z.

Example ex_head_lowered :
  head_lowered 3 2 ex_parts = [(3,1);(1,2);(3,3)]%Z /\ head_spec 3 2 ex_parts = [(3,1);(1,2);(3,3)]%Z /\
  head_lowered 3 3 ex_parts = head_spec 3 3 ex_parts /\
  head_lowered_no_second 3 2 ex_parts = [(3,1);(1,2);(3,3);(1,4);(2,5)]%Z.
Proof. vm_compute. repeat split. Qed.

Example ex_nfirst :
  nfirst_tree fst 3 ex_parts = [(1,2);(1,4);(1,6)]%Z /\ nfirst_spec fst 3 ex_parts = [(1,2);(1,4);(1,6)]%Z /\
  map (nfirst_chunk fst 3) ex_parts = [[(1,2);(3,1)]; [(1,4);(2,5);(3,3)]; [(1,6);(2,7)]]%Z.
Proof. vm_compute. repeat split. Qed.

Example ex_head_of_sorted :
  sorted_partitioning fst ex_parts ex_sorted_parts /\ 3 <= length (hd [] ex_sorted_parts) /\
  head_spec 3 1 ex_sorted_parts = [(1,2);(1,4);(1,6)]%Z /\ nfirst_spec fst 3 ex_parts = [(1,2);(1,4);(1,6)]%Z.
Proof.
  unfold sorted_partitioning. split; [vm_compute; reflexivity|]. split; [vm_compute; lia|].
  vm_compute. split; reflexivity.
Qed.

Print Assumptions head_lowered_correct.
Print Assumptions head_no_second_refuted.
Print Assumptions head_no_second_one_partition.
Print Assumptions tail_lowered_correct.
Print Assumptions head_elemwise1.
Print Assumptions tail_elemwise1.
Print Assumptions head_elemwise2.
Print Assumptions tail_elemwise2.
Print Assumptions tail_elemwise2_unequal_refuted.
Print Assumptions head_spec_elemwise1.
Print Assumptions head_spec_elemwise2.
Print Assumptions tail_spec_elemwise1.
Print Assumptions tail_spec_elemwise2.
Print Assumptions head_filter_refuted.
Print Assumptions select_elemwise1.
Print Assumptions select_elemwise2.
Print Assumptions select_elemwise2_out_of_range_note.
Print Assumptions select_select.
Print Assumptions select_select_out_of_range_refuted.
Print Assumptions select_all.
Print Assumptions head_is_select.
Print Assumptions sort_rows_perm.
Print Assumptions sort_rows_sorted.
Print Assumptions sort_rows_stable.
Print Assumptions sort_rows_sorted_id.
Print Assumptions nfirst_tree_correct.
Print Assumptions head_of_sorted_is_nfirst.
Print Assumptions head_of_sorted_short_first_partition_refuted.
Print Assumptions ex_head_lowered.
Print Assumptions ex_nfirst.
Print Assumptions ex_head_of_sorted.
