(* MinMax.v -- divisions derived from per-partition / per-file (min, max) statistics of the index:
   * the "presorted" fast path of set_index / sort_values (_shuffle.py: _calculate_divisions, BaseSetIndexSortValues._divisions),
   * read_parquet(calculate_divisions=True) (io/parquet.py: _divisions_from_statistics).
   Definitions only; theorems in MinMaxProofs.v.  Stdlib only, no axioms. *)
From DX Require Import Base Divisions.

Definition mm := (Z * Z)%type.

(* max_i < min_{i+1} for all neighbours (STRICT) *)
Fixpoint separatedb_mm (l : list mm) : bool :=
  match l with
  | a :: ((b :: _) as r) => (snd a <? fst b)%Z && separatedb_mm r
  | _ => true
  end.

(* the WRONG variant that also accepts touching neighbours  max_i = min_{i+1} *)
Fixpoint touchingb_mm (l : list mm) : bool :=
  match l with
  | a :: ((b :: _) as r) => (snd a <=? fst b)%Z && touchingb_mm r
  | _ => true
  end.

Fixpoint nondecreasingZb (l : list Z) : bool :=
  match l with
  | a :: ((b :: _) as r) => (a <=? b)%Z && nondecreasingZb r
  | _ => true
  end.

(* mins + [maxes[-1]] *)
Definition mm_divisions (l : list mm) : list Z := map fst l ++ [snd (last l (0%Z, 0%Z))].

(* _calculate_divisions, ascending: mins sorted, maxes sorted, every max below the next min *)
Definition presortedb (l : list mm) : bool :=
  nondecreasingZb (map fst l) && nondecreasingZb (map snd l) && separatedb_mm l.
Definition presortedb_touching (l : list mm) : bool :=
  nondecreasingZb (map fst l) && nondecreasingZb (map snd l) && touchingb_mm l.

Definition is_nil {A : Type} (l : list A) : bool := match l with [] => true | _ => false end.

Definition presorted_divisions (l : list mm) : option (list Z) :=
  if presortedb l && negb (is_nil l) then Some (mm_divisions l) else None.
Definition presorted_divisions_touching (l : list mm) : option (list Z) :=
  if presortedb_touching l && negb (is_nil l) then Some (mm_divisions l) else None.

(* ---- parquet: sort the files by (min, max), then require separation ---- *)
Definition mm_leb (a b : mm) : bool :=
  (fst a <? fst b)%Z || ((fst a =? fst b)%Z && (snd a <=? snd b)%Z).

(* stable insertion sort of the file numbers by their statistics *)
Fixpoint insert_idx (l : list mm) (j : nat) (p : list nat) : list nat :=
  match p with
  | [] => [j]
  | k :: r => if mm_leb (nth k l (0%Z, 0%Z)) (nth j l (0%Z, 0%Z)) then k :: insert_idx l j r else j :: p
  end.
Definition argsort (l : list mm) : list nat :=
  fold_left (fun p j => insert_idx l j p) (seq 0 (length l)) [].

Definition reindex {A : Type} (l : list A) (p : list nat) (d : A) : list A := map (fun j => nth j l d) p.

(* FIXED: unknown divisions unless the sorted statistics are strictly separated *)
Definition stats_divisions (l : list mm) : option (list Z * list nat) :=
  let p := argsort l in
  let s := reindex l p (0%Z, 0%Z) in
  if separatedb_mm s && negb (is_nil l) then Some (mm_divisions s, p) else None.

(* UNFIXED (defect D30): the sorted pairs were only tested for being sorted, which they always are *)
Definition stats_divisions_old (l : list mm) : list Z * list nat :=
  let p := argsort l in (mm_divisions (reindex l p (0%Z, 0%Z)), p).

(* ---- what the statistics promise ---- *)
(* partition / file i holds only index values within [min_i, max_i] *)
Definition stats_ok (l : list mm) (parts : list (list Z)) : Prop :=
  length l = length parts /\
  forall i x, i < length parts -> In x (nth i parts []) ->
    (fst (nth i l (0%Z, 0%Z)) <= x)%Z /\ (x <= snd (nth i l (0%Z, 0%Z)))%Z.

(* statistics of non-empty partitions / files: min <= max *)
Definition wf_stats (l : list mm) : Prop :=
  forall i, i < length l -> (fst (nth i l (0%Z, 0%Z)) <= snd (nth i l (0%Z, 0%Z)))%Z.
