(* RepartProofs.v -- soundness of a plan checker for RepartitionDivisions plans, and
   kernel-checked completeness of the checker on every plan `repart_plan` generates in a bounded domain.
   Stdlib only, no axioms. *)
From DX Require Import Base Repart.
From Coq Require Import Lia ZArith List Bool Arith.
Import ListNotations.
Open Scope Z_scope.

(* the model declares `row` explicitly; make it implicit here so that statements read as in the task *)
Arguments exec_slice {row}. Arguments exec_out {row}. Arguments exec_plan {row}.
Arguments spec_out {row}. Arguments spec_plan {row}.
Arguments respects {row}. Arguments parts_sorted {row}.

(* ------------------------------------------------------------------------------------------ *)
(* Intervals  [lo, h)  or  [lo, h]  (c = true).  No use of the discreteness of Z is made: the   *)
(* upper end is the pair (h, c) ordered lexicographically.                                      *)
(* ------------------------------------------------------------------------------------------ *)
Definition ivl := (Z * (Z * bool))%type.
Definition memb (I : ivl) (x : Z) : bool :=
  let '(lo, (h, c)) := I in (lo <=? x) && ((x <? h) || (c && (x =? h))).
Definition ivl_of (s : slice) : ivl := (s_lo s, (s_hi s, s_closed s)).
Definition tgt (b : list Z) (j : nat) : ivl :=
  (nthZ b j, (nthZ b (S j), (S (S j) =? length b)%nat)).
Definition ub_le (u1 u2 : Z * bool) : bool :=
  let '(h1, c1) := u1 in let '(h2, c2) := u2 in (h1 <? h2) || ((h1 =? h2) && implb c1 c2).
Definition ub_min (u1 u2 : Z * bool) : Z * bool := if ub_le u1 u2 then u1 else u2.
Definition inter (I J : ivl) : ivl := (Z.max (fst I) (fst J), ub_min (snd I) (snd J)).
Definition iempty (I : ivl) : bool :=
  let '(lo, (h, c)) := I in (h <? lo) || ((h =? lo) && negb c).
Definition ieq (I J : ivl) : bool :=
  (iempty I && iempty J) ||
  ((fst I =? fst J) && (fst (snd I) =? fst (snd J)) && Bool.eqb (snd (snd I)) (snd (snd J))).

Definition dslice : slice := {| s_src := 0; s_lo := 0; s_hi := 0; s_closed := false |}.
Definition getS (sl : list slice) (k : nat) : slice := nth k sl dslice.

Definition ks_of (o : outp) : list nat :=
  match o with ODummy => [] | OAlias k => [k] | OConcat ks => ks end.

Fixpoint eqb_nats (l1 l2 : list nat) : bool :=
  match l1, l2 with
  | [], [] => true
  | x :: r1, y :: r2 => (x =? y)%nat && eqb_nats r1 r2
  | _, _ => false
  end.

Definition empty_ivl : ivl := (0, (0, false)).

(* a chain of slices  [c0,c1) [c1,c2) ... [c_{m-1}, c_m)|]  with c0 <= c1 <= ... <= c_m;
   only the last one may be closed *)
Fixpoint chain_ok (ss : list slice) : bool :=
  match ss with
  | [] => true
  | s :: r =>
      (s_lo s <=? s_hi s) &&
      match r with
      | [] => true
      | s2 :: _ => negb (s_closed s) && (s_hi s =? s_lo s2) && chain_ok r
      end
  end.
(* the interval a chain covers *)
Fixpoint hull (ss : list slice) : ivl :=
  match ss with
  | [] => empty_ivl
  | s :: r => match r with [] => ivl_of s | _ :: _ => (s_lo s, snd (hull r)) end
  end.

(* the slice numbers of one output that read source partition i, in plan order *)
Definition group (sl : list slice) (ks : list nat) (i : nat) : list nat :=
  filter (fun k => (s_src (getS sl k) =? i)%nat) ks.

(* on source partition i (index range  tgt a i) the chain must select exactly the target range *)
Definition check_src (a b : list Z) (sl : list slice) (j : nat) (ks : list nat) (i : nat) : bool :=
  let ss := map (getS sl) (group sl ks i) in
  chain_ok ss && ieq (inter (hull ss) (tgt a i)) (inter (tgt b j) (tgt a i)).

(* output j: its slice list is the concatenation of its per-source groups, sources 0..n-1 in
   order (so every slice has s_src < n and the sources are non-decreasing), and every group is ok *)
Definition check_out (a b : list Z) (sl : list slice) (j : nat) (ks : list nat) : bool :=
  let n := (length a - 1)%nat in
  eqb_nats (concat (map (group sl ks) (seq 0 n))) ks &&
  forallb (check_src a b sl j ks) (seq 0 n).

Definition plan_ok (a b : list Z) (pl : plan) : bool :=
  (length (p_outs pl) =? length b - 1)%nat &&
  forallb (fun j => check_out a b (p_slices pl) j (ks_of (nth j (p_outs pl) ODummy)))
          (seq 0 (length b - 1)).

(* ------------------------------------------------------------------------------------------ *)
(* interval facts                                                                              *)
(* ------------------------------------------------------------------------------------------ *)
Ltac zb :=
  repeat match goal with
  | H : context [?x <=? ?y] |- _ => destruct (Z.leb_spec x y)
  | H : context [?x <? ?y] |- _ => destruct (Z.ltb_spec x y)
  | H : context [?x =? ?y] |- _ => destruct (Z.eqb_spec x y)
  | |- context [?x <=? ?y] => destruct (Z.leb_spec x y)
  | |- context [?x <? ?y] => destruct (Z.ltb_spec x y)
  | |- context [?x =? ?y] => destruct (Z.eqb_spec x y)
  end.

Lemma in_slice_memb : forall s x, in_slice s x = memb (ivl_of s) x.
Proof. reflexivity. Qed.
Lemma in_target_memb : forall b j x, in_target b j x = memb (tgt b j) x.
Proof. reflexivity. Qed.

Lemma memb_empty : forall x, memb empty_ivl x = false.
Proof. intros x. unfold memb, empty_ivl. zb; cbn; try reflexivity; lia. Qed.

Lemma memb_inter : forall I J x, memb (inter I J) x = memb I x && memb J x.
Proof.
  intros [l1 [h1 c1]] [l2 [h2 c2]] x.
  unfold inter, memb, ub_min, ub_le. cbn [fst snd].
  destruct c1, c2; cbn [implb andb orb];
    destruct (Z.max_spec l1 l2) as [[? Hm]|[? Hm]]; rewrite Hm; clear Hm;
    zb; cbn; try reflexivity; try lia.
Qed.

Lemma iempty_sound : forall I x, iempty I = true -> memb I x = false.
Proof.
  intros [lo [h c]] x. unfold iempty, memb.
  destruct c; cbn [negb andb orb]; zb; cbn; intros; try reflexivity; try discriminate; try lia.
Qed.

Lemma ieq_sound : forall I J x, ieq I J = true -> memb I x = memb J x.
Proof.
  intros I J x H. unfold ieq in H. apply orb_true_iff in H. destruct H as [H|H].
  - apply andb_true_iff in H. destruct H as [H1 H2].
    rewrite (iempty_sound I x H1), (iempty_sound J x H2). reflexivity.
  - destruct I as [l1 [h1 c1]], J as [l2 [h2 c2]]. cbn [fst snd] in H.
    apply andb_true_iff in H. destruct H as [H H3].
    apply andb_true_iff in H. destruct H as [H1 H2].
    apply Z.eqb_eq in H1. apply Z.eqb_eq in H2. apply eqb_prop in H3. subst. reflexivity.
Qed.

Lemma ieq_inter_sound : forall H B A x,
  ieq (inter H A) (inter B A) = true -> memb A x = true -> memb H x = memb B x.
Proof.
  intros H B A x He HA. pose proof (ieq_sound _ _ x He) as E.
  rewrite !memb_inter, HA, !andb_true_r in E. exact E.
Qed.

(* ------------------------------------------------------------------------------------------ *)
(* list facts                                                                                  *)
(* ------------------------------------------------------------------------------------------ *)
Lemma filter_false : forall A (f : A -> bool) l, (forall x, In x l -> f x = false) -> filter f l = [].
Proof.
  induction l as [|x l IH]; intros H; [reflexivity|].
  cbn [filter]. rewrite (H x (or_introl eq_refl)). apply IH. intros y Hy. apply H. right. exact Hy.
Qed.

Lemma flat_map_ext_in : forall A B (f g : A -> list B) l,
  (forall x, In x l -> f x = g x) -> flat_map f l = flat_map g l.
Proof.
  induction l as [|x l IH]; intros H; [reflexivity|].
  cbn [flat_map]. rewrite (H x (or_introl eq_refl)). f_equal. apply IH. intros y Hy. apply H. right. exact Hy.
Qed.

Lemma flat_map_app' : forall A B (f : A -> list B) l1 l2,
  flat_map f (l1 ++ l2) = flat_map f l1 ++ flat_map f l2.
Proof.
  induction l1 as [|x l1 IH]; intros l2; [reflexivity|].
  cbn [app flat_map]. rewrite IH, app_assoc. reflexivity.
Qed.

Lemma flat_map_concat' : forall A B (f : A -> list B) L,
  flat_map f (concat L) = flat_map (flat_map f) L.
Proof.
  induction L as [|l L IH]; [reflexivity|].
  cbn [concat flat_map]. rewrite flat_map_app', IH. reflexivity.
Qed.

Lemma flat_map_map' : forall A B C (h : A -> B) (g : B -> list C) l,
  flat_map g (map h l) = flat_map (fun x => g (h x)) l.
Proof.
  induction l as [|x l IH]; [reflexivity|]. cbn [map flat_map]. rewrite IH. reflexivity.
Qed.

Lemma filter_flat_map : forall A B (f : B -> bool) (g : A -> list B) l,
  filter f (flat_map g l) = flat_map (fun x => filter f (g x)) l.
Proof.
  induction l as [|x l IH]; [reflexivity|]. cbn [flat_map]. rewrite filter_app, IH. reflexivity.
Qed.

Lemma concat_nth_seq : forall A (P : list (list A)),
  concat P = flat_map (fun i => nth i P []) (seq 0 (length P)).
Proof.
  intros A P. rewrite flat_map_concat_map. f_equal. symmetry. apply (map_nth_seq [] P).
Qed.

Lemma eqb_nats_sound : forall l1 l2, eqb_nats l1 l2 = true -> l1 = l2.
Proof.
  induction l1 as [|x l1 IH]; intros [|y l2] H; cbn [eqb_nats] in H; try discriminate; [reflexivity|].
  apply andb_true_iff in H. destruct H as [H1 H2]. apply Nat.eqb_eq in H1. subst. f_equal. apply IH, H2.
Qed.

Lemma sortedZ_head : forall l x, sortedZ (x :: l) -> forall y, In y l -> x <= y.
Proof.
  induction l as [|z l IH]; intros x Hs y Hy; [inversion Hy|].
  destruct Hs as [Hxz Hs]. destruct Hy as [<-|Hy]; [exact Hxz|].
  pose proof (IH z Hs y Hy). lia.
Qed.

Section Sound.
  Variable row : Type.
  Variable idx : row -> Z.

  (* on an index-sorted partition, slicing by two ordered disjoint ranges and concatenating is slicing by their union *)
  Lemma filter_app_sorted : forall (f1 f2 f12 : Z -> bool),
    (forall x y, f1 x = true -> f2 y = true -> x < y) ->
    (forall x, f12 x = f1 x || f2 x) ->
    forall p, sortedZ (map idx p) ->
    filter (fun r => f1 (idx r)) p ++ filter (fun r => f2 (idx r)) p = filter (fun r => f12 (idx r)) p.
  Proof.
    intros f1 f2 f12 Hord H12. induction p as [|r p IH]; intros Hs; [reflexivity|].
    cbn [map] in Hs. pose proof (sortedZ_head _ _ Hs) as Hhd.
    assert (Hs' : sortedZ (map idx p)) by (destruct Hs as [_ Hs']; exact Hs').
    specialize (IH Hs').
    cbn [filter]. rewrite (H12 (idx r)).
    destruct (f1 (idx r)) eqn:E1.
    - destruct (f2 (idx r)) eqn:E2.
      { exfalso. pose proof (Hord _ _ E1 E2). lia. }
      cbn [orb app]. f_equal. exact IH.
    - destruct (f2 (idx r)) eqn:E2; cbn [orb].
      + assert (Hnil : filter (fun r0 => f1 (idx r0)) p = []).
        { apply filter_false. intros y Hy. destruct (f1 (idx y)) eqn:E; [|reflexivity].
          exfalso. pose proof (Hord _ _ E E2) as Hlt.
          pose proof (Hhd (idx y) (in_map idx p y Hy)) as Hle. lia. }
        rewrite Hnil. cbn [app]. f_equal. rewrite <- IH, Hnil. reflexivity.
      + exact IH.
  Qed.

  Lemma hull_wf : forall r s, chain_ok (s :: r) = true ->
    fst (hull (s :: r)) = s_lo s /\ s_lo s <= fst (snd (hull (s :: r))).
  Proof.
    induction r as [|s2 r IH]; intros s H.
    - cbn [chain_ok] in H. cbn [hull ivl_of fst snd]. split; [reflexivity|].
      rewrite andb_true_r in H. apply Z.leb_le in H. exact H.
    - change (chain_ok (s :: s2 :: r)) with
        ((s_lo s <=? s_hi s) && (negb (s_closed s) && (s_hi s =? s_lo s2) && chain_ok (s2 :: r))) in H.
      apply andb_true_iff in H. destruct H as [H1 H]. apply andb_true_iff in H. destruct H as [H H4].
      apply andb_true_iff in H. destruct H as [H2 H3].
      apply Z.leb_le in H1. apply Z.eqb_eq in H3.
      destruct (IH s2 H4) as [_ IH2].
      change (hull (s :: s2 :: r)) with (s_lo s, snd (hull (s2 :: r))). cbn [fst snd].
      split; [reflexivity|lia].
  Qed.

  Lemma chain_sound : forall p, sortedZ (map idx p) ->
    forall ss, chain_ok ss = true ->
    flat_map (fun s => filter (fun r => in_slice s (idx r)) p) ss
    = filter (fun r => memb (hull ss) (idx r)) p.
  Proof.
    intros p Hs. induction ss as [|s r IH]; intros H.
    - cbn [flat_map hull]. symmetry. apply filter_false. intros x _. apply memb_empty.
    - destruct r as [|s2 r].
      + cbn [flat_map hull]. rewrite app_nil_r. reflexivity.
      + pose proof H as H0.
        change (chain_ok (s :: s2 :: r)) with
          ((s_lo s <=? s_hi s) && (negb (s_closed s) && (s_hi s =? s_lo s2) && chain_ok (s2 :: r))) in H.
        apply andb_true_iff in H. destruct H as [H1 H]. apply andb_true_iff in H. destruct H as [H H4].
        apply andb_true_iff in H. destruct H as [H2 H3].
        apply Z.leb_le in H1. apply Z.eqb_eq in H3. apply negb_true_iff in H2.
        destruct (hull_wf _ _ H4) as [W1 W2].
        change (flat_map (fun s0 => filter (fun r0 => in_slice s0 (idx r0)) p) (s :: s2 :: r))
          with (filter (fun r0 => in_slice s (idx r0)) p ++
                flat_map (fun s0 => filter (fun r0 => in_slice s0 (idx r0)) p) (s2 :: r)).
        rewrite (IH H4).
        change (hull (s :: s2 :: r)) with (s_lo s, snd (hull (s2 :: r))).
        destruct (hull (s2 :: r)) as [lo2 [h2 c2]] eqn:EH. cbn [fst snd] in W1, W2 |- *.
        apply (filter_app_sorted (in_slice s) (memb (lo2, (h2, c2))) (memb (s_lo s, (h2, c2)))); [| |exact Hs].
        * intros x y Hx Hy. unfold in_slice in Hx. rewrite H2 in Hx. unfold memb in Hy.
          cbn [andb] in Hx. rewrite orb_false_r in Hx.
          apply andb_true_iff in Hx. destruct Hx as [_ Hx]. apply Z.ltb_lt in Hx.
          apply andb_true_iff in Hy. destruct Hy as [Hy _]. apply Z.leb_le in Hy. lia.
        * intros x. unfold in_slice, memb. rewrite H2. cbn [andb]. rewrite orb_false_r.
          destruct c2; cbn [andb]; zb; cbn; try reflexivity; try lia.
  Qed.

  Lemma exec_slice_dslice : forall P, exec_slice idx P dslice = [].
  Proof.
    intros P. unfold exec_slice. apply filter_false. intros x _.
    rewrite in_slice_memb. apply memb_empty.
  Qed.

  Lemma exec_get : forall P sl k,
    match nth_error sl k with Some s => exec_slice idx P s | None => [] end = exec_slice idx P (getS sl k).
  Proof.
    intros P sl k. unfold getS. destruct (nth_error sl k) as [s|] eqn:E.
    - rewrite (nth_error_nth sl k dslice E). reflexivity.
    - apply nth_error_None in E. rewrite (nth_overflow sl dslice E). symmetry. apply exec_slice_dslice.
  Qed.

  Lemma exec_out_ks : forall P sl o,
    exec_out idx P sl o = flat_map (fun k => exec_slice idx P (getS sl k)) (ks_of o).
  Proof.
    intros P sl [|k|ks]; cbn [exec_out ks_of flat_map].
    - reflexivity.
    - rewrite app_nil_r. apply exec_get.
    - apply flat_map_ext_in. intros k _. apply exec_get.
  Qed.

  Lemma spec_out_decomp : forall b P j,
    spec_out idx b P j
    = flat_map (fun i => filter (fun r => memb (tgt b j) (idx r)) (nth i P [])) (seq 0 (length P)).
  Proof.
    intros b P j. unfold spec_out. rewrite (concat_nth_seq _ P) at 1. rewrite filter_flat_map. reflexivity.
  Qed.

  Lemma check_out_sound : forall a b sl j ks P,
    respects idx a P -> parts_sorted idx P ->
    check_out a b sl j ks = true ->
    flat_map (fun k => exec_slice idx P (getS sl k)) ks = spec_out idx b P j.
  Proof.
    intros a b sl j ks P [Hlen Hresp] Hsort Hc.
    unfold check_out in Hc. apply andb_true_iff in Hc. destruct Hc as [Hg Hall].
    apply eqb_nats_sound in Hg. rewrite forallb_forall in Hall.
    rewrite spec_out_decomp, Hlen.
    transitivity (flat_map (fun k => exec_slice idx P (getS sl k))
                           (concat (map (group sl ks) (seq 0 (length a - 1))))).
    { f_equal. symmetry. exact Hg. }
    rewrite flat_map_concat', flat_map_map'.
    apply flat_map_ext_in. intros i Hi.
    specialize (Hall i Hi). unfold check_src in Hall. apply andb_true_iff in Hall. destruct Hall as [Hch Heq].
    transitivity (flat_map (fun s => filter (fun r => in_slice s (idx r)) (nth i P []))
                           (map (getS sl) (group sl ks i))).
    { rewrite flat_map_map'. apply flat_map_ext_in. intros k Hk.
      unfold group in Hk. apply filter_In in Hk. destruct Hk as [_ Hk]. apply Nat.eqb_eq in Hk.
      unfold exec_slice. rewrite Hk. reflexivity. }
    assert (Hsi : sortedZ (map idx (nth i P []))).
    { apply in_seq in Hi. apply Hsort. apply nth_In. lia. }
    rewrite (chain_sound _ Hsi _ Hch).
    apply filter_ext_in. intros r Hr.
    apply ieq_inter_sound with (A := tgt a i); [exact Heq|].
    rewrite <- in_target_memb. apply Hresp. exact Hr.
  Qed.

  Theorem plan_ok_sound : forall (a b : list Z) (pl : plan) (P : list (list row)),
    valid_divs a = true -> valid_divs b = true ->
    plan_ok a b pl = true ->
    respects idx a P -> parts_sorted idx P ->
    exec_plan idx P pl = spec_plan idx b P.
  Proof.
    intros a b [sl outs] P _ _ Hok Hresp Hsort.
    unfold plan_ok in Hok. cbn [p_outs p_slices] in Hok.
    apply andb_true_iff in Hok. destruct Hok as [Hlen Hall]. apply Nat.eqb_eq in Hlen.
    rewrite forallb_forall in Hall.
    unfold exec_plan, spec_plan. cbn [p_outs p_slices].
    transitivity (map (exec_out idx P sl) (map (fun j => nth j outs ODummy) (seq 0 (length outs)))).
    { f_equal. symmetry. apply (map_nth_seq ODummy outs). }
    rewrite map_map, Hlen. apply map_ext_in. intros j Hj.
    rewrite exec_out_ks. apply (check_out_sound a b sl j _ P Hresp Hsort). apply Hall. exact Hj.
  Qed.
End Sound.


(* ------------------------------------------------------------------------------------------ *)
(* 2. bounded completeness: the checker accepts every plan the generator produces              *)
(* ------------------------------------------------------------------------------------------ *)
Fixpoint all_lists (vals : list Z) (len : nat) : list (list Z) :=
  match len with
  | O => [[]]
  | S n => flat_map (fun v => map (cons v) (all_lists vals n)) vals
  end.
(* all valid_divs vectors over 0..V-1 of length <= maxlen *)
Definition vecs (V maxlen : nat) : list (list Z) :=
  filter valid_divs (flat_map (all_lists (map Z.of_nat (seq 0 V))) (seq 0 (S maxlen))).

Lemma all_lists_complete : forall vals l, (forall x, In x l -> In x vals) -> In l (all_lists vals (length l)).
Proof.
  intros vals. induction l as [|x l IH]; intros H; [left; reflexivity|].
  cbn [length all_lists]. apply in_flat_map. exists x. split; [apply H; left; reflexivity|].
  apply in_map. apply IH. intros y Hy. apply H. right. exact Hy.
Qed.

(* vecs really enumerates the whole bounded domain *)
Lemma vecs_complete : forall V maxlen l,
  valid_divs l = true -> (length l <= maxlen)%nat -> (forall x, In x l -> 0 <= x < Z.of_nat V) ->
  In l (vecs V maxlen).
Proof.
  intros V maxlen l Hv Hl Hr. unfold vecs. apply filter_In. split; [|exact Hv].
  apply in_flat_map. exists (length l). split; [apply in_seq; lia|].
  apply all_lists_complete. intros x Hx. apply in_map_iff. exists (Z.to_nat x).
  specialize (Hr x Hx). split; [apply Z2Nat.id; lia|]. apply in_seq. lia.
Qed.

Example vecs_has_repeated_last : In [0; 2; 2] (vecs 8 7) /\ In [3; 3] (vecs 8 7) /\ In [0;1;2;3;4;5;7] (vecs 8 7).
Proof. repeat split; apply vecs_complete; try reflexivity; cbn [length]; try lia;
       intros x Hx; cbn [In] in Hx; cbn; lia. Qed.

(* the same statement with the enumeration shared (evaluated once) *)
Lemma plan_gen_ok_bounded_let :
  (let vs := vecs 8 7 in
   forallb (fun a => forallb (fun b => forallb (fun force =>
      if repart_validate a b force then
        match repart_plan a b force with Some pl => plan_ok a b pl | None => false end
      else true) [false; true]) vs) vs) = true.
Proof. vm_cast_no_check (eq_refl true). Qed.

(* 492 vectors, 2 * 492^2 = 484128 (a, b, force) triples *)
Theorem plan_gen_ok_bounded :
  forallb (fun a => forallb (fun b => forallb (fun force =>
     if repart_validate a b force then
       match repart_plan a b force with Some pl => plan_ok a b pl | None => false end
     else true) [false; true]) (vecs 8 7)) (vecs 8 7) = true.
Proof. exact plan_gen_ok_bounded_let. Qed.

(* unfolded to a statement about individual inputs *)
Corollary plan_gen_ok_bounded_forall : forall a b force,
  valid_divs a = true -> valid_divs b = true ->
  (length a <= 7)%nat -> (length b <= 7)%nat ->
  (forall x, In x a -> 0 <= x < 8) -> (forall x, In x b -> 0 <= x < 8) ->
  repart_validate a b force = true ->
  exists pl, repart_plan a b force = Some pl /\ plan_ok a b pl = true.
Proof.
  intros a b force Hva Hvb Hla Hlb Hra Hrb Hval.
  pose proof plan_gen_ok_bounded as H. rewrite forallb_forall in H.
  specialize (H a (vecs_complete 8 7 a Hva Hla Hra)). rewrite forallb_forall in H.
  specialize (H b (vecs_complete 8 7 b Hvb Hlb Hrb)). rewrite forallb_forall in H.
  assert (Hf : In force [false; true]) by (destruct force; cbn; auto).
  specialize (H force Hf). rewrite Hval in H.
  destruct (repart_plan a b force) as [pl|]; [|discriminate]. exists pl. split; [reflexivity|exact H].
Qed.

(* every generated plan in the bounded domain is correct on all data *)
Corollary repart_plan_correct_bounded : forall (row : Type) (idx : row -> Z) a b force pl (P : list (list row)),
  valid_divs a = true -> valid_divs b = true ->
  (length a <= 7)%nat -> (length b <= 7)%nat ->
  (forall x, In x a -> 0 <= x < 8) -> (forall x, In x b -> 0 <= x < 8) ->
  repart_plan a b force = Some pl ->
  respects idx a P -> parts_sorted idx P ->
  exec_plan idx P pl = spec_plan idx b P.
Proof.
  intros row idx a b force pl P Hva Hvb Hla Hlb Hra Hrb Hpl Hresp Hsort.
  assert (Hval : repart_validate a b force = true).
  { unfold repart_plan in Hpl. destruct (repart_validate a b force); [reflexivity|discriminate]. }
  destruct (plan_gen_ok_bounded_forall a b force Hva Hvb Hla Hlb Hra Hrb Hval) as [pl' [E Hok]].
  rewrite Hpl in E. injection E as <-.
  apply (plan_ok_sound row idx a b pl P Hva Hvb Hok Hresp Hsort).
Qed.

(* ------------------------------------------------------------------------------------------ *)
(* non-vacuity                                                                                 *)
(* ------------------------------------------------------------------------------------------ *)
Section Examples.
  (* rows are (index, payload) *)
  Let row := (Z * nat)%type.
  Let idx : row -> Z := fst.
  Let a := [0; 2; 2].
  Let b := [0; 1; 2; 2].
  Let P : list (list row) := [[(0, 10%nat); (1, 11%nat); (1, 12%nat)]; [(2, 13%nat); (2, 14%nat)]].
  Let pl := {| p_slices :=
             [{| s_src := 0; s_lo := 0; s_hi := 1; s_closed := false |};
              {| s_src := 0; s_lo := 1; s_hi := 2; s_closed := false |};
              {| s_src := 1; s_lo := 2; s_hi := 2; s_closed := false |};
              {| s_src := 1; s_lo := 2; s_hi := 2; s_closed := true |}];
           p_outs := [OAlias 0; OAlias 1; OConcat [2%nat; 3%nat]] |}.

  Example ex_valid : valid_divs a = true /\ valid_divs b = true.
  Proof. split; reflexivity. Qed.
  Example ex_plan : repart_plan a b false = Some pl.
  Proof. reflexivity. Qed.
  Example ex_ok : plan_ok a b pl = true.
  Proof. reflexivity. Qed.
  Example ex_respects : respects idx a P.
  Proof.
    split; [reflexivity|]. intros i r H.
    destruct i as [|[|i]]; cbn in H.
    - destruct H as [<-|[<-|[<-|[]]]]; reflexivity.
    - destruct H as [<-|[<-|[]]]; reflexivity.
    - destruct i; contradiction.
  Qed.
  Example ex_sorted : parts_sorted idx P.
  Proof. intros p [<-|[<-|[]]]; cbn; lia. Qed.
  Example ex_conclusion : exec_plan idx P pl = spec_plan idx b P.
  Proof.
    apply (plan_ok_sound row idx a b pl P); [reflexivity|reflexivity|exact ex_ok|exact ex_respects|exact ex_sorted].
  Qed.
  Example ex_value : exec_plan idx P pl = [[(0, 10%nat)]; [(1, 11%nat); (1, 12%nat)]; [(2, 13%nat); (2, 14%nat)]].
  Proof. reflexivity. Qed.

  (* the checker is not trivially true: dropping a slice, swapping outputs, or a wrong source is rejected *)
  Example ex_reject_missing :
    plan_ok a b {| p_slices := p_slices pl; p_outs := [OAlias 0; OAlias 1; OAlias 2] |} = false.
  Proof. reflexivity. Qed.
  Example ex_reject_order :
    plan_ok a b {| p_slices := p_slices pl; p_outs := [OAlias 1; OAlias 0; OConcat [2%nat; 3%nat]] |} = false.
  Proof. reflexivity. Qed.
  Example ex_reject_src :
    plan_ok [0; 2; 4] [0; 4]
      {| p_slices := [{| s_src := 0; s_lo := 0; s_hi := 2; s_closed := false |};
                      {| s_src := 0; s_lo := 2; s_hi := 4; s_closed := true |}];
         p_outs := [OConcat [0%nat; 1%nat]] |} = false.
  Proof. reflexivity. Qed.
  (* forced widening of a single-value input (the D15 shape) is accepted for this model *)
  Example ex_force_single :
    match repart_plan [2; 2] [0; 1; 2; 2] true with Some pl => plan_ok [2; 2] [0; 1; 2; 2] pl | None => false end = true.
  Proof. reflexivity. Qed.
End Examples.

Check plan_ok_sound.
Print Assumptions plan_ok_sound.
Print Assumptions plan_gen_ok_bounded.
